"""Rules added after the third round of seeded changes (additive changes: new features, shims, fallbacks; supporting modules;
PyYAML interplay).  Same conventions as the other rule libraries: canonical forms only, positive phrasing, construct keys without
line numbers."""
import ast
from typing import List, Optional, Set

from ..guards import norm, call_name
from ..model import AnalysisError, walk_function
from . import shared as S
from .shared import fn, fn_of
from . import helpers_rules as H

LOADER = 'yatiml.loader:Loader.'


def r01_10_tree_untouched(ctx, rid='R01.10'):
    """Between the composer and __process_node nothing rewrites the document: what is recognised and type-checked is what was
    composed.  (Merge-key expansion, key normalisation, de-aliasing before recognition change which documents are admitted, in
    which order keys are seen, and - done recursively before the cycle check - blow the stack on a self-referential alias.)"""
    P = ctx.P
    from ..effects import world, call_closure
    W = world(P)
    r = ctx.rule(rid, 'the composed tree reaches __process_node unmodified: get_single_node / get_node and everything they call '
                      'besides __process_node write no node, and the cycle check is the first thing that walks the tree', floor=2)
    for name in ('get_single_node', 'get_node'):
        f = fn(P, LOADER + name)
        for w in H.node_writes(f):
            r.fail(f.key('node-write:%s' % f.alpha.text(w)[:50]), f.loc(w), '%s modifies the composed document before it is recognised (%s)'
                   % (name, norm(w)[:60]))
        fe = W.fns.get(f.fi.key)
        roots = []
        for call, cands in (fe.call_sites if fe is not None else []):
            cn = call_name(call)
            if cn in ('__process_node', name):
                continue
            for c in cands:
                if c.key not in roots:
                    roots.append(c.key)
        closure = call_closure(W, roots) if roots else []
        bad = []
        for fi in closure:
            if fi.key.endswith('.__process_node') or fi.key.endswith('.' + name):
                continue
            g = fn_of(fi)
            ws = H.node_writes(g)
            for w in ws:
                bad.append((fi, g, w))
        # PyYAML methods called on the loader itself (resolved through the MRO) that rewrite nodes, e.g. flatten_mapping
        for fi in [f.fi] + [x for x in closure if not x.key.endswith('.__process_node')]:
            if fi.cls is None:
                continue
            g = fn_of(fi)
            for c in g.walk():
                if isinstance(c, ast.Call) and isinstance(c.func, ast.Attribute) and isinstance(c.func.value, ast.Name) \
                        and c.func.value.id == 'self' and g.live(c):
                    m = P.lookup_method(fi.cls, c.func.attr)
                    if m is not None and not m.module.name.startswith('yatiml'):
                        for w in H.node_writes(fn_of(m)):
                            bad.append((m, g, c))
                            break
        for fi, g, w in bad:
            r.fail('%s:%s:pre-recognition-write:%s' % (f.fi.key, fi.name, norm(w)[:40]), g.loc(w),
                   '%s calls %s before recognition, which rewrites the document tree (%s): the document that is type-checked is no '
                   'longer the document that was composed (merge keys / normalised keys are admitted, key order changes)'
                   % (name, fi.key, norm(w)[:60]))
        r.ok('%s: %d callees besides __process_node, closure of %d functions, no node writes' % (name, len(roots), len(closure)))
        # the cycle check comes first: every other call that receives the node is dominated by it
        cc = [c for c in f.calls('__check_no_cycles') if f.live(c)]
        r.check(bool(cc), '%s runs the cycle check' % name, f.key('cycle-check-present'), f.loc(),
                '%s no longer calls __check_no_cycles: a self-referential alias recurses without bound (RecursionError)' % name)
        for call, cands in (fe.call_sites if fe is not None else []):
            cn = call_name(call)
            if cn in ('__check_no_cycles', name, 'get_mark', 'cast') or not f.live(call):
                continue
            takes_node = any(isinstance(a, ast.Name) and a.id == 'node' for a in call.args)
            if not takes_node:
                continue
            ok = any(f.cfg.dominates(f.nid(c), f.nid(call)) and f.nid(c) != f.nid(call) for c in cc)
            if not ok:
                # ... or, on the paths that avoid the check, the node is a scalar made right here (nothing composed, no alias)
                ok = f.cfg.must_pass(f.cfg.entry, f.nid(call), {f.nid(c) for c in cc} | S.fresh_scalar_assignments(f, 'node'))
            r.check(ok, '%s: %s(node, ..) runs after the cycle check' % (name, cn), f.key('after-cycle-check:%s' % cn), f.loc(call),
                    '%s passes the composed tree to %s before __check_no_cycles has run: a recursive walk over a self-referential '
                    'alias does not terminate (RecursionError instead of RecognitionError)' % (name, cn))
    r.done()


CTOR = 'yatiml.constructors:Constructor.'


def r02_13_init_arguments(ctx, rid='R02.13'):
    """__init__ receives what the document said and nothing else: the dict built by construct_mapping is not written between its
    construction and the call of __init__ (other than being split into parameters and extras)."""
    P = ctx.P
    from ..effects import world
    from ..facts import MUTATORS
    W = world(P)
    r = ctx.rule(rid, 'the keyword arguments of __init__ are exactly the constructed attributes of the document: the mapping returned by '
                      'construct_mapping is not modified before __init__ is called (omitted optional parameters keep their Python '
                      'defaults)', floor=2)
    f = fn(P, CTOR + '__call__')
    binds = [n for n in f.walk() if isinstance(n, ast.Assign) and len(n.targets) == 1 and isinstance(n.targets[0], ast.Name)
             and isinstance(n.value, ast.Call) and call_name(n.value) == 'construct_mapping']
    if len(binds) != 1:
        raise AnalysisError('anchor missing: `mapping = loader.construct_mapping(node, deep=True)` in Constructor.__call__')
    m = binds[0].targets[0].id

    def is_split(e, names):
        return isinstance(e, ast.Call) and call_name(e) == '__split_off_extra_attributes' and e.args and isinstance(e.args[0], ast.Name) \
            and e.args[0].id in names
    # names that hold the constructed attributes: the mapping itself, plain copies of it, and its split into parameters + extras
    derived = {m}
    changed = True
    while changed:
        changed = False
        for n in f.walk():
            if isinstance(n, ast.Assign) and len(n.targets) == 1 and isinstance(n.targets[0], ast.Name) and n.targets[0].id not in derived:
                v_ = n.value
                if (isinstance(v_, ast.Name) and v_.id in derived) or is_split(v_, derived) or (
                        isinstance(v_, ast.IfExp) and all((isinstance(x, ast.Name) and x.id in derived) or is_split(x, derived)
                                                          for x in (v_.body, v_.orelse))):
                    derived.add(n.targets[0].id)
                    changed = True
    rebinds = [n for n in f.walk() if isinstance(n, (ast.Assign, ast.AugAssign, ast.AnnAssign)) and n is not binds[0]
               and any(isinstance(x, ast.Name) and x.id in derived and isinstance(x.ctx, ast.Store) for x in ast.walk(n))
               and not (isinstance(n, ast.Assign) and ((isinstance(n.value, ast.Name) and n.value.id in derived) or is_split(n.value, derived)))]
    r.check(not rebinds, 'the constructed mapping is bound once', f.key('mapping-rebound'), f.loc(rebinds[0]) if rebinds else f.loc(),
            'the mapping of constructed attributes is replaced before __init__ is called')
    writes = []
    for n in f.walk():
        if isinstance(n, ast.Subscript) and isinstance(n.ctx, (ast.Store, ast.Del)) and isinstance(n.value, ast.Name) and n.value.id in derived:
            writes.append(n)
        elif isinstance(n, ast.Call) and isinstance(n.func, ast.Attribute) and isinstance(n.func.value, ast.Name) \
                and n.func.value.id in derived and n.func.attr in MUTATORS:
            writes.append(n)
    for w in writes:
        r.fail(f.key('mapping-write:%s' % f.alpha.text(w)[:50]), f.loc(w), 'Constructor.__call__ modifies the constructed attributes before '
               'calling __init__ (%s): __init__ receives arguments the document did not give (an omitted optional parameter no longer '
               'takes its Python default) or loses some it gave' % norm(w)[:60])
    r.ok('direct writes of %s in __call__: %d' % (m, len(writes)))
    # callees that receive the mapping must not write it either
    fe = W.fns.get(f.fi.key)
    for call, cands in (fe.call_sites if fe is not None else []):
        pos = [i for i, a in enumerate(call.args) if isinstance(a, ast.Name) and a.id in derived]
        if not pos or not f.live(call):
            continue
        for c in cands:
            ce = W.fns.get(c.key)
            params = [p for p in c.params if p not in ('self', 'cls')] if c.cls is not None else list(c.params)
            for i in pos:
                if i >= len(params) or ce is None:
                    continue
                pn = params[i]
                bad = [ev for ev in ce.events if ev.how != 'call' and pn in ev.roots]
                r.check(not bad, '%s does not write the mapping it is given' % c.name, '%s:writes-mapping' % c.key,
                        c.loc(bad[0].node) if bad else c.loc(c.node), '%s modifies the mapping of constructed attributes (%s)'
                        % (c.name, norm(bad[0].node)[:60] if bad else ''))
    # what __init__ gets
    inits = [c for c in f.walk() if isinstance(c, ast.Call) and isinstance(c.func, ast.Attribute) and c.func.attr == '__init__' and f.live(c)]
    for c in inits:
        kw = [k for k in c.keywords if k.arg is None]
        ok = len(kw) == 1 and not c.args and len(c.keywords) == 1
        src = kw[0].value if kw else None
        def given(e):
            if isinstance(e, ast.IfExp):
                return given(e.body) and given(e.orelse)
            return (isinstance(e, ast.Name) and e.id in derived) or is_split(e, derived)
        ok = ok and src is not None and given(src)
        r.check(ok, '__init__(**<constructed mapping or its split>)', f.key('init-arguments:%d' % inits.index(c)), f.loc(c),
                '__init__ is not called with exactly the constructed attributes (%s)' % norm(c)[:80])
    if not inits:
        r.fail(f.key('no-init-call'), f.loc(), 'Constructor.__call__ never calls __init__')
    r.done()


def r03_10_registered_is_given(ctx, rid='R03.10'):
    """The classes that take part in recognition / representation are the ones the caller passed, nothing is added on the way
    (ancestors, classes found in annotations, mixins that define a hook)."""
    P = ctx.P
    from ..facts import MUTATORS, reaching_defs
    r = ctx.rule(rid, 'exactly the classes passed by the caller are registered: add_to_loader / add_to_dumper iterate over their '
                      'argument as given, and load_function / dump*_function pass on their own arguments only', floor=6)
    REG = {'yatiml.loader:add_to_loader': ('add_constructor',), 'yatiml.dumper:add_to_dumper': ('add_representer', 'add_multi_representer')}
    for key, regs in REG.items():
        f = fn(P, key)
        cp = f.fi.params[1]
        sites = [c for c in f.walk() if isinstance(c, ast.Call) and call_name(c) in regs and f.live(c)]
        sites += [n for n in f.walk() if isinstance(n, ast.Subscript) and isinstance(n.ctx, ast.Store) and norm(n.value).endswith('._registered_classes')]
        if not sites:
            r.fail(f.key('no-registration'), f.loc(), '%s registers nothing' % f.fi.name)
        for s_ in sites:
            loops = [l for l in S.enclosing_loops(s_, f.node) if isinstance(l, ast.For)]
            ok = False
            why = 'not inside a loop over %s' % cp
            for l in loops:
                # the iterated collection is the argument itself, possibly wrapped into a list when a single class was passed:
                # built from the parameter, isinstance() and list displays only, and never extended
                allowed = {cp, 'isinstance', 'list', 'tuple'}

                def from_param(e, depth=0):
                    names = {x.id for x in ast.walk(e) if isinstance(x, ast.Name)}
                    calls_ = [x for x in ast.walk(e) if isinstance(x, ast.Call) and call_name(x) not in ('isinstance',)]
                    if calls_ or not names or cp not in names:
                        return False
                    for nm in names - allowed:
                        if depth > 3:
                            return False
                        ds = reaching_defs(f, l.iter, nm)
                        if not ds or not all(isinstance(d, (ast.Assign, ast.AnnAssign)) and d.value is not None and from_param(d.value, depth + 1) for d in ds):
                            return False
                        if any(isinstance(m_, ast.Call) and isinstance(m_.func, ast.Attribute) and m_.func.attr in MUTATORS
                               and isinstance(m_.func.value, ast.Name) and m_.func.value.id == nm for m_ in f.walk()):
                            return False
                    return True
                if isinstance(l.iter, ast.Name) and l.iter.id == cp:
                    defs = reaching_defs(f, l.iter, cp)
                    odd = [d for d in defs if not (isinstance(d, ast.Assign) and from_param(d.value))]
                    ok = not odd
                    why = 'the list iterated over is rebuilt before the loop (%s)' % norm(odd[0])[:60] if odd else ''
                elif from_param(l.iter):
                    ok, why = True, ''
            r.check(ok, '%s: %s happens for each class of the argument as given' % (f.fi.name, norm(s_)[:40]),
                    f.key('registration-source:%s' % f.alpha.text(s_)[:40]), f.loc(s_),
                    '%s registers classes the caller did not pass: %s' % (f.fi.name, why))
        muts = [c for c in f.walk() if isinstance(c, ast.Call) and isinstance(c.func, ast.Attribute) and c.func.attr in MUTATORS
                and isinstance(c.func.value, ast.Name) and c.func.value.id == cp]
        r.check(not muts, '%s does not extend the list of classes' % f.fi.name, f.key('classes-extended'), f.loc(muts[0]) if muts else f.loc(),
                '%s adds classes of its own to the ones passed by the caller (%s): classes the user did not register take part in '
                'recognition / get their hooks run' % (f.fi.name, norm(muts[0])[:60] if muts else ''))
    FACT = [('yatiml.loader:load_function', 'add_to_loader'), ('yatiml.dumper:dump_function', 'add_to_dumper'),
            ('yatiml.dumper:dumps_function', 'add_to_dumper'), ('yatiml.dumper:dump_json_function', 'add_to_dumper'),
            ('yatiml.dumper:dumps_json_function', 'add_to_dumper')]
    for key, callee in FACT:
        f = fn(P, key)
        va = f.node.args.vararg.arg if f.node.args.vararg is not None else None
        first = f.fi.params[0] if f.fi.params else None
        calls = [c for c in f.calls(callee) if f.live(c) and len(c.args) == 2]
        if not calls or va is None:
            r.fail(f.key('no-registration'), f.loc(), '%s does not register its arguments with %s' % (f.fi.name, callee))
            continue
        for c in calls:
            a = c.args[1]
            if isinstance(a, ast.Name):
                v = a.id
                defs = reaching_defs(f, c, v)
                odd = [d for d in defs if not (isinstance(d, ast.Assign) and norm(d.value) in ('list(%s)' % va, '[*%s]' % va))]
                muts = [m for m in f.walk() if isinstance(m, ast.Call) and isinstance(m.func, ast.Attribute) and m.func.attr in MUTATORS
                        and isinstance(m.func.value, ast.Name) and m.func.value.id == v
                        and not (m.func.attr == 'append' and len(m.args) == 1 and norm(m.args[0]) == first)]
                ok = not odd and not muts
                shown = norm((odd or muts)[0])[:60] if (odd or muts) else ''
            else:
                ok = norm(a) in ('list(%s)' % va, '[*%s]' % va)
                shown = norm(a)[:60]
            r.check(ok, '%s registers list(*%s)%s' % (f.fi.name, va, ' (+ the result type)' if key.endswith('load_function') else ''),
                    f.key('registered-classes'), f.loc(c), '%s registers classes other than the ones it was given (%s): e.g. ancestors of the '
                    'given classes, so that an unregistered class is considered (and may be instantiated)' % (f.fi.name, shown))
    r.done()


def _transparent_override(P, c, m, base, name) -> bool:
    """an override that cannot change what the base method does: its last statement hands the method's own parameters, unchanged
    and in order, to the base implementation (and returns its result), and everything before that only looks - calls of the class's
    own private methods whose transitive writes go to containers made fresh for that call, logging, raising"""
    from ..effects import world, call_closure, direct_writes
    body = [st for st in m.node.body if not (isinstance(st, ast.Expr) and isinstance(st.value, ast.Constant))]
    if not body:
        return False
    last = body[-1]
    call = last.value if isinstance(last, (ast.Expr, ast.Return)) else None
    params = [a.arg for a in m.node.args.args]
    if not (isinstance(call, ast.Call) and not call.keywords and params):
        return False
    f = call.func
    direct = isinstance(f, ast.Attribute) and f.attr == name and norm(f.value).split('.')[-1] in [b.name for b in P.mro(c)[1:]] \
        and [norm(a) for a in call.args] == params
    sup = isinstance(f, ast.Attribute) and f.attr == name and norm(f.value) == 'super()' and [norm(a) for a in call.args] == params[1:]
    if not (direct or sup):
        return False
    W = world(P)
    for st in body[:-1]:
        if isinstance(st, ast.Expr) and isinstance(st.value, ast.Call) and norm(st.value.func).startswith('logger.'):
            continue
        if not (isinstance(st, ast.Expr) and isinstance(st.value, ast.Call) and isinstance(st.value.func, ast.Attribute)
                and norm(st.value.func.value) == params[0] and not st.value.keywords):
            return False
        cname = st.value.func.attr
        callee = c.methods.get(cname) or c.methods.get('_%s%s' % (c.name, cname)) or c.methods.get(cname.replace('_%s' % c.name, '', 1))
        if callee is None:
            return False
        cps = [a.arg for a in callee.node.args.args][1:]
        fresh = set()
        for pn, a in zip(cps, st.value.args):
            if (isinstance(a, (ast.List, ast.Dict, ast.Set)) and not getattr(a, 'elts', getattr(a, 'keys', None))) or (
                    isinstance(a, ast.Call) and isinstance(a.func, ast.Name) and a.func.id in ('set', 'list', 'dict') and not a.args):
                fresh.add(pn)
        try:
            fis = call_closure(W, [callee.key])
        except Exception:
            return False
        for ev in direct_writes(W, fis):
            for root in ev.roots:
                if root == 'fresh':
                    continue
                if root.startswith('param:') and root.split(':')[1].split('.')[0] in fresh and ev.fi.key == callee.key:
                    continue
                if root.startswith('local'):
                    continue
                return False
        # nothing is rebound either: the parameters reach the base call as they came in
    stored = {n.id for n in ast.walk(m.node) if isinstance(n, ast.Name) and isinstance(n.ctx, ast.Store)}
    return not (stored & set(params))


def r06_10_dumper_resolver_untouched(ctx, rid='R06.10'):
    """The dumper quotes by PyYAML's own resolver table (YAML 1.1): that is what makes the output mean the same to any plain
    parser. Nothing on the dumping side may replace or extend the implicit resolvers, and nothing overrides how anchors are named
    or which scalars stay plain."""
    P = ctx.P
    r = ctx.rule(rid, 'the dumping side leaves PyYAML\'s implicit resolvers, anchor naming and plain-scalar analysis alone '
                      '(control: the loading side does patch its resolvers, so the scan sees such writes)', floor=2)
    RES = ('yaml_implicit_resolvers', 'yaml_path_resolvers')
    ADD = ('add_implicit_resolver', 'add_path_resolver')

    def scan(modname):
        out = []
        m = P.modules.get(modname)
        if m is None:
            return out
        for n in ast.walk(m.tree):
            if isinstance(n, ast.Attribute) and n.attr in RES and isinstance(n.ctx, (ast.Store, ast.Del)):
                out.append(n)
            elif isinstance(n, ast.Call) and isinstance(n.func, ast.Attribute) and n.func.attr in ADD:
                out.append(n)
            elif isinstance(n, ast.Subscript) and isinstance(n.ctx, (ast.Store, ast.Del)) and isinstance(n.value, ast.Attribute) \
                    and n.value.attr in RES:
                out.append(n)
        return out
    control = scan('yatiml.loader')
    r.check(bool(control), 'positive control: the scan finds the loader\'s resolver patch (%d sites)' % len(control),
            'yatiml.loader:resolver-patch-control', 'yatiml/loader.py', 'the scan for resolver writes finds nothing in yatiml.loader: '
            'either the YAML 1.2 patches are gone (C09) or this rule no longer sees such writes')
    for modname in ('yatiml.dumper', 'yatiml.representers'):
        sites = scan(modname)
        for s_ in sites:
            r.fail('%s:resolver-write:%s' % (modname, norm(s_)[:50]), '%s:%d' % (P.modules[modname].path, s_.lineno),
                   'the dumping side changes its implicit resolvers (%s): which strings are written plain no longer follows the YAML '
                   '1.1 table, so a plain YAML parser reads some dumped strings (yes, no, on, off ...) as another type' % norm(s_)[:60])
        r.ok('%s: no write to the implicit / path resolvers' % modname)
    # overrides of PyYAML's representer / serializer / emitter methods on Dumper: only the known set
    c = P.cls('yatiml.dumper:Dumper')
    allowed = {'__init__', 'emit', 'emit_json', 'represent_ordereddict', 'write_json_endline'}
    for name, m in c.methods.items():
        if name in allowed or name.startswith('_Dumper__') or (name.startswith('__') and not name.endswith('__')):
            continue
        base = None
        for b in P.mro(c)[1:]:
            if name in b.methods:
                base = b
                break
        if base is not None and not base.module.name.startswith('yatiml') and _transparent_override(P, c, m, base, name):
            r.ok('Dumper.%s only checks (writes nothing but its own fresh bookkeeping, may refuse by raising) and then hands its '
                 'arguments unchanged to %s.%s' % (name, base.name, name))
            continue
        if base is not None and not base.module.name.startswith('yatiml'):
            r.fail('yatiml.dumper:Dumper:overrides:%s' % name, m.loc(m.node), 'Dumper overrides PyYAML\'s %s.%s: the text written for a '
                   'value (anchors, styles, what stays plain) no longer follows PyYAML\'s serialiser, e.g. anchor names that differ from '
                   'one dump of the same object to the next' % (base.name, name))
    r.ok('Dumper overrides only %s of its PyYAML bases' % sorted(allowed & set(c.methods)))
    r.done()


def r06_11_string_like(ctx, rid='R06.11'):
    """Which classes are written as a bare string instead of as their parameter mapping: str, UserString, yatiml.String."""
    P = ctx.P
    r = ctx.rule(rid, 'is_string_like(t) is issubclass(t, (str, UserString, String)) - nothing else is dumped as str(obj) / loaded '
                      'from a scalar', floor=1)
    f = fn(P, 'yatiml.util:is_string_like')
    p = f.fi.params[0]
    rets = f.returns()
    classes: Optional[Set[str]] = None
    ok = len(rets) == 1 and rets[0].value is not None
    if ok:
        v = rets[0].value
        # issubclass(t, (A, B, C))  or  issubclass(t, A) or issubclass(t, B) ...
        parts = v.values if isinstance(v, ast.BoolOp) and isinstance(v.op, ast.Or) else [v]
        classes = set()
        for c in parts:
            if isinstance(c, ast.Call) and call_name(c) == 'issubclass' and len(c.args) == 2 and norm(c.args[0]) == p:
                t = c.args[1]
                for x in (t.elts if isinstance(t, ast.Tuple) else [t]):
                    classes.add(norm(x).split('.')[-1])
            else:
                ok = False
    r.check(ok and classes == {'str', 'UserString', 'String'}, 'string-like classes: %s' % sorted(classes or []), f.key('classes'), f.loc(),
            'is_string_like accepts %s instead of exactly str / UserString / yatiml.String: a registered class that merely implements '
            'such a protocol (os.PathLike ...) is dumped as str(obj) instead of as its attributes' % sorted(classes or ['?']))
    r.done()


def r12_7_source_independence(ctx, rid='R12.7'):
    """The loading side never looks at *what kind of source* the document came from, nor at its name: Loader.__init__ hands its
    arguments to PyYAML unchanged, and nothing reads the stream's / reader's `name`."""
    P = ctx.P
    r = ctx.rule(rid, 'the result does not depend on the kind or name of the source: Loader.__init__ forwards its arguments to '
                      'SafeLoader.__init__ unchanged and the load side never reads a source name', floor=2)
    f = fn(P, LOADER + '__init__')
    a = f.node.args
    sup = [c for c in f.walk() if isinstance(c, ast.Call) and isinstance(c.func, ast.Attribute) and c.func.attr == '__init__'
           and isinstance(c.func.value, ast.Call) and call_name(c.func.value) == 'super' and f.live(c)]
    ok = len(sup) == 1
    shown = ''
    if ok:
        c = sup[0]
        want_pos = [x.arg for x in a.args[1:]]
        got_pos = [norm(x) for x in c.args]
        want = want_pos + (['*' + a.vararg.arg] if a.vararg else [])
        kw = sorted((k.arg or '**', norm(k.value)) for k in c.keywords)
        want_kw = sorted([(x.arg, x.arg) for x in a.kwonlyargs] + ([('**', a.kwarg.arg)] if a.kwarg else []))
        ok = got_pos == want and kw == want_kw and not f.cfg.guard_nodes(f.nid(c))
        shown = norm(c)[:80]
    r.check(ok, 'Loader.__init__ calls super().__init__ with its own arguments, unconditionally', f.key('forwards-arguments'), f.loc(),
            'Loader.__init__ does not hand its arguments to SafeLoader.__init__ as they are (%s): the stream is transformed or '
            'special-cased by kind (e.g. dedenting str sources), so the same document loads differently from a str than from a file'
            % shown)
    params = {x.arg for x in a.args[1:]} | ({a.vararg.arg} if a.vararg else set()) | ({a.kwarg.arg} if a.kwarg else set())
    tests = [b for b in f.cfg.nodes if b.kind == 'test' and params & {x.id for x in ast.walk(b.ast) if isinstance(x, ast.Name)}]
    r.check(not tests, 'Loader.__init__ does not branch on its arguments', f.key('branch-on-source'), f.loc(tests[0].ast) if tests else f.loc(),
            'Loader.__init__ branches on %s: sources of different kinds are treated differently' % (norm(tests[0].ast) if tests else ''))
    n = 0
    for modname in ('yatiml.loader', 'yatiml.constructors', 'yatiml.recognizer', 'yatiml.util', 'yatiml.introspection', 'yatiml.helpers'):
        m = P.modules.get(modname)
        if m is None:
            continue
        for x in ast.walk(m.tree):
            hit = None
            if isinstance(x, ast.Attribute) and x.attr == 'name' and isinstance(x.ctx, ast.Load):
                hit = x
            elif isinstance(x, ast.Call) and call_name(x) == 'getattr' and len(x.args) >= 2 and isinstance(x.args[1], ast.Constant) \
                    and x.args[1].value == 'name':
                hit = x
            # a mark's `buffer` / `pointer` exist only for str sources (PyYAML keeps the text for those): reading them tells the kinds apart
            if isinstance(x, ast.Attribute) and x.attr in ('buffer', 'pointer') and isinstance(x.ctx, ast.Load) and 'mark' in norm(x.value).lower():
                n += 1
                r.fail('%s:source-kind-read:%s' % (modname, norm(x)[:40]), '%s:%d' % (m.path, x.lineno),
                       'the load side reads `%s`: PyYAML fills a mark\'s buffer / pointer only when the source is a str, so the same document '
                       'is treated differently when it comes from a file or stream' % norm(x)[:50])
                continue
            if hit is not None:
                # comparing a mark's name with the fixed label yatiml itself gives to the marks it makes up is not reading the source
                par = getattr(hit, '_parent', None)
                if isinstance(par, ast.Compare) and len(par.ops) == 1 and isinstance(par.ops[0], (ast.Eq, ast.NotEq)) \
                        and any(isinstance(y, ast.Constant) and y.value == 'generated node' for y in [par.left] + par.comparators):
                    continue
                n += 1
                r.fail('%s:source-name-read:%s' % (modname, norm(hit)[:40]), '%s:%d' % (m.path, hit.lineno),
                       'the load side reads a `name` (%s): the name of the stream / file the document came from influences the result, '
                       'so a str source and a file with the same content load differently' % norm(hit)[:60])
    r.ok('no read of a source name on the load side (%d)' % n)
    r.done()


def r17_10_source_text_untouched(ctx, rid='R17.10'):
    """Positions in messages are PyYAML's marks into the text it was given: they are positions in the user's document only if
    that text is the user's text, character for character."""
    P = ctx.P
    from ..guards import isinstance_atom
    r = ctx.rule(rid, 'PyYAML reads the text the caller passed, unmodified: LoadFunction.__call__ hands the source (or the file it opened '
                      'for a Path) to yaml.load as it is', floor=2)
    key = 'yatiml.loader:load_function.LoadFunction.__call__'
    f = fn(P, key)
    io = f.fi.params[1]
    for n in f.walk():
        if isinstance(n, (ast.Assign, ast.AugAssign, ast.AnnAssign)) and any(
                isinstance(x, ast.Name) and x.id == io and isinstance(x.ctx, ast.Store) for x in ast.walk(n)):
            r.fail(f.key('source-rebound:%s' % norm(getattr(n, 'value', n))[:40]), f.loc(n), 'the source is replaced by %s before it is parsed: '
                   'line and column numbers in error messages refer to the modified text, not to the document the user wrote'
                   % norm(getattr(n, 'value', n))[:60])
    loads = [c for fi2, c in S.yaml_calls(P, 'load') if fi2 is f.fi or fi2.key == key]
    wvars = {norm(it.optional_vars) for w in f.walk() if isinstance(w, ast.With) for it in w.items if it.optional_vars is not None}
    for c in loads:
        a = c.args[0] if c.args else None
        r.check(a is not None and (norm(a) == io or norm(a) in wvars), 'yaml.load receives %s' % (norm(a) if a is not None else None),
                f.key('yaml-load-arg'), f.loc(c), 'yaml.load receives %s instead of the source itself / the opened file: marks are '
                'positions in a different text' % (norm(a) if a is not None else None))
    if not loads:
        r.fail(f.key('no-yaml-load'), f.loc(), 'LoadFunction.__call__ does not call yaml.load')
    for b in f.cfg.nodes:
        if b.kind == 'test' and io in {x.id for x in ast.walk(b.ast) if isinstance(x, ast.Name)}:
            ia = isinstance_atom(b.ast)
            r.check(ia is not None and ia[0] == io and ia[1] <= {'Path'}, 'branch on %s' % norm(b.ast), f.key('branch:%s' % norm(b.ast)[:40]),
                    f.loc(b.ast), 'the source is special-cased by `%s`' % norm(b.ast))
    r.done()


def r14_12_same_constructors(ctx, rid='R14.12'):
    """Node.get_value reads scalars with PyYAML's SafeConstructor; that is "what a load would construct" only as long as the
    loader constructs scalars with the very same methods."""
    P = ctx.P
    from . import c09 as C9
    r = ctx.rule(rid, 'the loader constructs core scalars with PyYAML\'s own SafeConstructor methods (the ones Node.get_value uses): no '
                      'override with own logic in Loader\'s yatiml bases', floor=1)
    loader = P.cls('yatiml.loader:Loader')
    n = C9.overrides_are_delegations(ctx, r, loader, ('construct_yaml_int', 'construct_yaml_float', 'construct_yaml_bool', 'construct_yaml_null',
                                                       'construct_yaml_str', 'construct_scalar', 'construct_object'),
                                     'a load constructs another value for some spelling than Node.get_value() returns for the same node')
    r.ok('%d overrides of scalar constructors in Loader\'s yatiml bases' % n)
    g = fn(P, 'yatiml.helpers:Node.get_value')
    used = {call_name(c) for c in g.walk() if isinstance(c, ast.Call) and isinstance(c.func, ast.Attribute)
            and norm(c.func.value) == '_yaml_constructor'}
    r.check({'construct_yaml_int', 'construct_yaml_float'} <= used, 'get_value reads int and float text through _yaml_constructor.%s'
            % sorted(used), g.key('pyyaml-constructors'), g.loc(), 'Node.get_value no longer reads int/float nodes through PyYAML\'s '
            'SafeConstructor')
    r.done()
    S.r04_3_registrations(ctx)


def r14_13_value_as_given(ctx, rid='R14.13'):
    """set_value(v) / set_attribute(a, v) store v itself: the parameter is not converted on the way (int -> float because the old
    node was a float, str -> stripped ...) - otherwise get_value() returns something else than v and is_scalar(type(v)) is false."""
    P = ctx.P
    r = ctx.rule(rid, 'set_value / set_attribute write the value they are given: the parameter is never re-bound, and the new node does '
                      'not depend on what the old node was', floor=2)
    for name, pi in (('set_value', 1), ('set_attribute', 2)):
        f = fn(P, H.NODE + name)
        vp = f.fi.params[pi]
        reb = [n for n in f.walk() if isinstance(n, (ast.Assign, ast.AugAssign, ast.AnnAssign, ast.NamedExpr))
               and any(isinstance(x, ast.Name) and x.id == vp and isinstance(x.ctx, ast.Store) for x in ast.walk(n))]
        r.check(not reb, '%s never re-binds %s' % (name, vp), f.key('value-rebound'), f.loc(reb[0]) if reb else f.loc(),
                '%s converts its argument before storing it (%s): get_value() afterwards does not return the value that was set'
                % (name, norm(reb[0])[:70] if reb else ''))
    f = fn(P, H.NODE + 'set_value')
    # the text and the tag of the new node are functions of the value alone (the old node only lends its marks and a custom tag)
    old_reads = [c for c in f.walk() if isinstance(c, ast.Call) and isinstance(c.func, ast.Attribute) and norm(c.func.value) == 'self'
                 and c.func.attr in ('is_scalar', 'get_value', 'is_mapping', 'is_sequence')]
    r.check(not old_reads, 'set_value does not inspect the kind or value of the node it replaces', f.key('depends-on-old-node'),
            f.loc(old_reads[0]) if old_reads else f.loc(), 'set_value looks at the old node (%s): what is stored depends on what was '
            'there before' % (norm(old_reads[0])[:50] if old_reads else ''))
    r.done()


def r14_14_exact_key_match(ctx, rid='R14.14'):
    """A Node is an ordered dictionary keyed by the exact key text: has_attribute / get_attribute / remove / rename compare the
    key text with the name they were given and with nothing derived from it (dashed spelling, case folding ...)."""
    P = ctx.P
    r = ctx.rule(rid, 'attribute lookup is by the exact key text: every comparison of a key with a name compares with the parameter '
                      'itself', floor=1)
    n = 0
    for name in ('has_attribute', 'get_attribute', '__attr_index', 'remove_attribute', 'rename_attribute'):
        key = H.NODE + name
        if not P.has_func(key):
            continue
        f = fn(P, key)
        params = set(f.fi.params[1:])
        for c in f.walk():
            if not (isinstance(c, ast.Compare) and len(c.ops) == 1 and isinstance(c.ops[0], (ast.Eq, ast.NotEq, ast.In, ast.NotIn))):
                continue
            sides = [c.left, c.comparators[0]]
            keyside = [s_ for s_ in sides if isinstance(s_, ast.Attribute) and s_.attr == 'value' and '<each:' in f.alpha.text(s_)]
            if not keyside:
                continue
            other = [s_ for s_ in sides if s_ is not keyside[0]][0]
            n += 1
            r.check(f.alpha.text(other) in params and isinstance(c.ops[0], (ast.Eq, ast.NotEq)),
                    '%s: key text compared with the parameter %s' % (name, f.alpha.text(other)), f.key('key-compared-with:%s' % f.alpha.text(other)[:40]),
                    f.loc(c), '%s matches keys against %s instead of the name it was given: an attribute that is absent is found '
                    'under another spelling (so "absent keys are ignored / reported" no longer holds and the transforms act on it)'
                    % (name, f.alpha.text(other)[:60]))
    if n == 0:
        raise AnalysisError('anchor missing: no comparison of a key text with a name in Node.has_attribute/get_attribute/__attr_index')
    r.done()


def r18_9_process_node_writes(ctx, rid='R18.9'):
    """What __process_node itself changes on a node: the tag (retag / strip), the rebuilt child list, and the processed attribute
    stored back - all of them idempotent under a second visit through an alias. Anything else (renaming a key in place, moving
    pairs, normalising text) changes the node under its other references."""
    P = ctx.P
    r = ctx.rule(rid, '__process_node writes only: node.tag, node.value (children rebuilt from the processed children), and '
                      'set_attribute(name, processed child)', floor=3)
    f = fn(P, S.PN)
    node = f.fi.params[1]
    n_ok = 0
    for w in H.node_writes(f):
        t = f.alpha.text(w)
        ok = False
        if isinstance(w, ast.Attribute) and norm(w.value) == node and w.attr in ('tag', 'value'):
            ok = True
        elif isinstance(w, ast.Call) and isinstance(w.func, ast.Attribute) and w.func.attr == 'set_attribute' and len(w.args) == 2:
            a1 = f.copies.expand(w.args[1])
            ok = '__process_node(' in norm(a1) or '__process_node(' in f.alpha.text(w.args[1])
        n_ok += 1 if ok else 0
        r.check(ok, '__process_node write %s' % norm(w)[:50], f.key('write:%s' % t[:50]), f.loc(w),
                '__process_node modifies the node in another way than retagging it / storing processed children back (%s): with an '
                'alias the same node object is reached again and the other reference sees the change (a key renamed in place shows up as a '
                'changed *value* where the key node is aliased)' % norm(w)[:70])
    if n_ok < 3:
        r.fail(f.key('writes-missing'), f.loc(), '__process_node has only %d of its writes (tag, children, attribute store)' % n_ok)
    r.done()


def r01_9_user_classes_registered_last(ctx, rid='R01.9'):
    """PyYAML keeps one constructor per tag; a later add_constructor for the same tag replaces the earlier one. The constructors
    of the user's classes are registered last, so that a node recognised and tagged as a user class is built by that class's
    own, type-checking constructor."""
    P = ctx.P
    r = ctx.rule(rid, 'in load_function no constructor is registered after the user\'s classes (add_to_loader): nothing can displace the '
                      'constructor of a recognised class', floor=1)
    f = fn(P, 'yatiml.loader:load_function')
    regs = [c for c in f.calls('add_to_loader') if f.live(c)]
    if not regs:
        r.fail(f.key('no-registration'), f.loc(), 'load_function does not register the user\'s classes')
    later = []
    for c in [c for c in f.walk() if isinstance(c, ast.Call) and call_name(c) in ('add_constructor', 'add_multi_constructor') and f.live(c)]:
        cn = f.nid(c)
        for a in regs:
            an = f.nid(a)
            if an is not None and cn is not None and cn != an and cn in f.cfg.reachable(an):
                later.append(c)
    r.check(not later, 'every other add_constructor in load_function comes before add_to_loader', f.key('registered-after-user-classes'),
            f.loc(later[0]) if later else f.loc(), 'load_function registers %s after the user\'s classes: for a user class with the same tag '
            'name the built-in constructor wins, and the object built is not an instance of the recognised class'
            % (norm(later[0])[:60] if later else ''))
    r.done()


def r18_10_reference_owned_node(ctx, rid='R18.10'):
    """An aliased node is one object reached once per reference.  What __process_node writes on it (the tag of the *expected* type
    of that reference, stripped tags under Any, processed children) is only right for every reference if each reference works on
    its own copy - or if the document was expanded before processing."""
    P = ctx.P
    r = ctx.rule(rid, '__process_node does not write a node that other references share: it works on a copy of its argument (or the '
                      'tree was de-aliased before), so that a second reference with another expected type starts from the composed node',
                 floor=1)
    f = fn(P, S.PN)
    node = f.fi.params[1]
    copies = [n for n in f.walk() if isinstance(n, ast.Assign) and len(n.targets) == 1 and norm(n.targets[0]) == node
              and isinstance(n.value, ast.Call) and call_name(n.value) in ('copy', 'deepcopy') and n.value.args and norm(n.value.args[0]) == node]
    writes = [w for w in H.node_writes(f) if isinstance(w, ast.Attribute) and norm(w.value) == node]
    owned = bool(copies) and all(any(f.cfg.dominates(f.nid(c), f.nid(w)) for c in copies) for w in writes)
    g = fn(P, LOADER + 'get_single_node')
    dealiased = any(call_name(c) in ('__expand_aliases', '__dealias') for c in g.walk() if isinstance(c, ast.Call))
    r.check(owned or dealiased, '__process_node writes only nodes it owns', f.key('in-place-write-to-shared-node'), f.loc(writes[0]) if writes else f.loc(),
            '__process_node writes %s on the node object it was given; through an alias the same object is reached again with another '
            'expected type, and the second visit overrides what the first established: `p: &a {x: 1}` / `q: *a` with p: P, q: Any is '
            'rejected (the Any visit strips the !P tag) although the expanded document loads, and with the keys swapped q receives the '
            'P object' % ', '.join(sorted({norm(w) for w in writes})[:3]))
    r.done()


def r10_9_walk_reaches_registered_ancestors(ctx, rid='R10.9'):
    """C10 speaks of the hooks of C's *registered ancestors*.  The walk over the bases descends only into registered classes, so it
    stops at the first class that is not registered - a registered class further up (C(B), B(A), A and C registered, B not) is never
    reached and its hook does not run (known finding F23)."""
    P = ctx.P
    r = ctx.rule(rid, 'the walk over the base classes reaches every registered ancestor: it does not end at an unregistered class '
                      'that stands between two registered ones', floor=2)
    for key, name in (('yatiml.loader:Loader.__savorize', '__savorize'), ('yatiml.representers:Representer.__sweeten', '__sweeten')):
        f = fn(P, key)
        rec = [c for c in f.calls(name) if f.live(c)]
        gated, free = [], []
        for c in rec:
            loops = [l for l in S.enclosing_loops(c, f.node) if isinstance(l, ast.For)]
            if not loops:
                continue
            bv = norm(loops[0].target)
            reg_guard = [t for t in f.guard_texts(c) if t.startswith('%s in ' % bv) and ('registered' in t or 'yaml_representers' in t)]
            (gated if reg_guard else free).append(c)
        if not rec:
            r.ok('%s: no recursive walk over the bases (its shape is R10.2\'s business)' % f.fi.qual)
            continue
        r.check(bool(free) or not gated, '%s: the walk goes on through classes that are not registered' % f.fi.qual,
                f.key('walk-stops-at-unregistered-base'), f.loc(gated[0]) if gated else f.loc(),
                '%s descends only into registered base classes: with C(B), B(A) and only A and C registered, the walk from C ends at B and '
                'A\'s hook is never called although A is a registered ancestor of C' % f.fi.qual)
    r.done()


def r14_16_rename_keeps_keys_distinct(ctx, rid='R14.16'):
    """An ordered dictionary has one entry per key.  rename_attribute overwrites the text of a key node with the new name; if the
    mapping already has an attribute of that name, it has two afterwards: has_attribute() says yes, get_attribute() raises."""
    P = ctx.P
    r = ctx.rule(rid, 'rename_attribute leaves the keys distinct: the case that the new name is already present is handled (tested, '
                      'removed or refused) before a key text is overwritten with it', floor=1)
    f = fn(P, 'yatiml.helpers:Node.rename_attribute')
    new = f.fi.params[2] if len(f.fi.params) > 2 else 'new_name'
    stores = [n for n in f.walk() if isinstance(n, ast.Assign) and len(n.targets) == 1 and isinstance(n.targets[0], ast.Attribute)
              and n.targets[0].attr == 'value' and norm(n.value) == new and f.live(n)]
    if not stores:
        r.ok('rename_attribute does not overwrite a key text (another way of renaming: R14.3 judges its positions)')
    handled = [c for c in f.walk() if isinstance(c, ast.Call) and call_name(c) in ('has_attribute', 'remove_attribute', '__attr_index', 'get_attribute')
               and any(norm(a) == new for a in c.args) and f.live(c)]
    handled += [c for c in f.walk() if isinstance(c, ast.Compare) and any(norm(x) == new for x in [c.left] + c.comparators)
                and any('.value' in norm(x) for x in [c.left] + c.comparators) and f.live(c)]
    for st in stores:
        ok = any(f.nid(h) is not None and f.cfg.dominates(f.nid(h), f.nid(st)) for h in handled)
        r.check(ok, 'the new name is looked for before a key is renamed to it', f.key('target-name-unchecked'), f.loc(st),
                'rename_attribute(a, b) on a mapping that already has b gives it two keys b: has_attribute(b) is true and get_attribute(b) '
                'raises SeasoningError - not what a rename in an ordered dictionary does')
    r.done()


def r14_17_key_nodes_not_written_in_place(ctx, rid='R14.17'):
    """A key node can be shared: `outer: {&k name: 1}` / `inner: {*k : 2}` composes to one ScalarNode object standing as key in two
    mappings.  A Node is a view on *its* mapping; a method that renames a key by overwriting the text of the key node renames the key of
    every mapping that shares the node (known findings F32a-c).  Renaming by putting a fresh key node into the pair is the form that
    cannot leak."""
    P = ctx.P
    r = ctx.rule(rid, 'the key-renaming methods of Node replace the (key, value) pair instead of overwriting the text of a key node that '
                      'another mapping may share through an anchor', floor=2)
    for name in ('rename_attribute', 'unders_to_dashes_in_keys', 'dashes_to_unders_in_keys'):
        f = fn(P, 'yatiml.helpers:Node.' + name)
        stores = [n for n in f.walk() if isinstance(n, (ast.Assign, ast.AugAssign)) and f.live(n)
                  for t in (n.targets if isinstance(n, ast.Assign) else [n.target])
                  if isinstance(t, ast.Attribute) and t.attr == 'value' and isinstance(t.value, ast.Name)
                  and any(isinstance(lo, ast.For) and t.value.id in {x.id for x in ast.walk(lo.target) if isinstance(x, ast.Name)}
                          and 'yaml_node.value' in norm(lo.iter) for lo in S.enclosing_loops(n, f.node))]
        r.check(not stores, '%s: no key node is written in place' % name, f.key('key-node-written-in-place'),
                f.loc(stores[0]) if stores else f.loc(),
                '%s overwrites the text of a key node of the composed tree: on `outer: {&k name: 1}` / `inner: {*k : 2}` '
                'outer.%s renames the key of inner as well - the two mappings share the node' % (
                    name, "rename_attribute('name', 'title')" if name == 'rename_attribute' else name + '()'))
    r.done()


def r01_16_constructors_write_no_node(ctx, rid='R01.16'):
    """What Loader.__process_node recognised, processed and retagged is what PyYAML must construct from.  The constructors read the
    tree (and strip tags below extra keys through util.strip_tags); a constructor that renames a key, moves a pair or retags a node
    creates a (key, value) combination that no recogniser ever judged - `max_retries: 2` + `max-retries: true` renamed to one name
    hands __init__ the unprocessed duplicate."""
    P = ctx.P
    r = ctx.rule(rid, 'the constructors of yatiml.constructors write no node of the processed tree (no store to .value / .tag, no '
                      'in-place change of a pair list)', floor=1)
    from ..facts import MUTATORS
    m = P.module('yatiml.constructors')
    n_fn = 0
    for fi in m.functions.values():
        n_fn += 1
        for n in walk_function(fi.node):
            tgt = None
            if isinstance(n, (ast.Assign, ast.AugAssign)):
                for t in (n.targets if isinstance(n, ast.Assign) else [n.target]):
                    for x in ([t] if not isinstance(t, ast.Tuple) else t.elts):
                        base = x.value if isinstance(x, ast.Subscript) else x
                        if isinstance(base, ast.Attribute) and base.attr in ('value', 'tag') and not norm(base.value).startswith('self'):
                            tgt = x
            elif isinstance(n, ast.Call) and isinstance(n.func, ast.Attribute) and n.func.attr in MUTATORS \
                    and isinstance(n.func.value, ast.Attribute) and n.func.value.attr == 'value' and not norm(n.func.value.value).startswith('self'):
                tgt = n
            if tgt is not None:
                r.fail('%s:node-write:%s' % (fi.key, norm(tgt)[:50]), fi.loc(n),
                       '%s writes a node of the tree that __process_node has already judged (%s): what PyYAML then constructs - and '
                       '__init__ receives - is not what was recognised and type checked' % (fi.qual, norm(n)[:60]))
    r.ok('%d functions of yatiml.constructors, no store into a node' % n_fn)
    ctl = ast.parse('key_node.value = attr_name')
    if not any(isinstance(x, ast.Attribute) and x.attr == 'value' and isinstance(x.ctx, ast.Store) for x in ast.walk(ctl)):
        raise AnalysisError('positive control for node stores failed')
    r.done()


def r08_19_key_texts_of_scalar_keys_only(ctx, rid='R08.19'):
    """The key-renaming helpers are documented for use in _yatiml_savorize, i.e. on nodes straight from the document: a key may be a
    sequence or a mapping (`? [a]` / `? {a: b}`), whose .value is a list.  A str method on it raises AttributeError, which leaves the
    load (known findings F33a-b)."""
    P = ctx.P
    r = ctx.rule(rid, 'unders_to_dashes_in_keys / dashes_to_unders_in_keys apply str methods to the text of scalar keys only', floor=2)
    for name in ('unders_to_dashes_in_keys', 'dashes_to_unders_in_keys'):
        f = fn(P, 'yatiml.helpers:Node.' + name)
        sites = [c for c in f.walk() if isinstance(c, ast.Call) and isinstance(c.func, ast.Attribute) and c.func.attr in ('replace', 'translate')
                 and isinstance(c.func.value, ast.Attribute) and c.func.value.attr == 'value' and isinstance(c.func.value.value, ast.Name)
                 and f.live(c)]
        if not sites:
            raise AnalysisError('anchor missing: the str.replace on key texts in Node.%s' % name)
        for c in sites:
            kv = c.func.value.value.id
            ok = H.known_instance(f.guards(c), kv, {'ScalarNode'})
            r.check(ok, '%s: %s.value.replace(..) under isinstance(%s, ScalarNode)' % (name, kv, kv), f.key('key-text-of-any-kind'), f.loc(c),
                    '%s calls .%s() on the value of a key node of unknown kind: for a sequence or mapping key (`? [a]`, `? {a: b}`) the value '
                    'is a list and the call raises AttributeError - from a _yatiml_savorize hook that exception leaves the load' % (name, c.func.attr))
    r.done()


def r03_16_descent_reaches_registered_descendants(ctx, rid='R03.16'):
    """C03 quantifies over hierarchies with *unregistered intermediates*.  The descent from the expected class to its registered
    subclasses follows direct bases only (`expected_type in other_class.__bases__`): a registered class below an unregistered one is
    never a candidate (known finding F23c, the recognition side of F23)."""
    P = ctx.P
    r = ctx.rule(rid, 'the descent from an expected class reaches every registered subclass, also one that derives from it through a '
                      'class that is not registered', floor=1)
    f = fn(P, S.REC + '__recognize_user_classes')
    et = f.fi.params[2]
    tests = [c for c in f.walk() if isinstance(c, ast.Compare) and len(c.ops) == 1 and isinstance(c.ops[0], ast.In)
             and norm(c.left) == et and norm(c.comparators[0]).endswith('.__bases__') and f.live(c)]
    wide = [c for c in f.walk() if isinstance(c, ast.Call) and call_name(c) == 'issubclass' and len(c.args) == 2 and norm(c.args[1]) == et and f.live(c)]
    wide += [c for c in f.walk() if isinstance(c, ast.Compare) and len(c.ops) == 1 and isinstance(c.ops[0], ast.In) and norm(c.left) == et
             and ('__mro__' in norm(c.comparators[0]) or 'mro()' in norm(c.comparators[0])) and f.live(c)]
    if not tests and not wide:
        r.ok('the descent does not test bases at all (where its candidates come from is R03.2\'s business)')
        r.done()
        return
    for t in tests:
        r.check(bool(wide), 'subclasses are found through the whole ancestry, not only through direct bases', f.key('descent-direct-bases-only'),
                f.loc(t), 'the descent takes a registered class for a subclass of %s only if %s is among its direct bases: with A, C(B), B(A) '
                'and only A and C registered, a document that matches C is recognised as A (and then fails on C\'s attributes, or loads as '
                'an A) although C is the most-derived registered class that matches' % (et, et))
    if not tests:
        r.ok('the descent uses the whole ancestry')
    r.done()


def r03_17_tag_selects_against_generic_members(ctx, rid='R03.17'):
    """"If two or more candidates remain the load fails unless an explicit !ClassName tag names one of them."  Class recognisers
    reject a node whose tag names another class; the dict recogniser looks at the node kind only, so in `Union[Dict[str, str], C]` a
    mapping tagged !C stays a candidate for the dict member as well and the tag cannot decide (known finding F26).  (Processing
    rejects such a node at a Dict position afterwards - R02.19 - so recognition and processing disagree about it.)"""
    P = ctx.P
    r = ctx.rule(rid, 'a mapping that carries a tag naming a class is not a candidate for a generic dict member of a Union: the dict '
                      'recogniser accepts only under a test of the node\'s tag', floor=1)
    f = fn(P, S.REC + '__recognize_dict')
    node = f.fi.params[1]
    acc = S.accept_returns(f)
    if not acc:
        r.ok('__recognize_dict has no accepting return (R02.5 reports that)')
    for ret, v in acc:
        tagged = any('%s.tag' % node in t for t in f.guard_texts(ret))
        r.check(tagged, '__recognize_dict accepts under a test of %s.tag' % node, f.key('accepts-any-tag'), f.loc(ret),
                '__recognize_dict accepts every MappingNode whatever its tag: `!C {attr: x}` expected as Union[Dict[str, str], C] is '
                '"a C or a dict" and fails as ambiguous although the tag names one of the two')
    r.done()


def r13_10_tag_collisions(ctx, rid='R13.10'):
    """The tag of a registered class is '!' + its __name__.  Two classes of one name (from different modules or scopes), or a user
    class named like a built-in additional type (Path), silently share a tag: the later registration replaces the earlier one in the
    registry and its constructor - the outcome of a load then depends on the order of registration, and registering an unrelated class
    changes how another one loads (known finding F27)."""
    P = ctx.P
    r = ctx.rule(rid, 'registering a class under a tag that is already taken is refused (or the tag is made unique): no registration '
                      'silently replaces another', floor=1)
    f = fn(P, 'yatiml.loader:add_to_loader')
    stores = [n for n in f.walk() if isinstance(n, ast.Assign) and len(n.targets) == 1 and isinstance(n.targets[0], ast.Subscript)
              and norm(n.targets[0].value).endswith('._registered_classes') and f.live(n)]
    if not stores:
        r.ok('add_to_loader does not file classes in a registry of its own (R04.3 judges the registrations)')
    for st in stores:
        key = norm(st.targets[0].slice)
        tested = [c for c in f.walk() if isinstance(c, ast.Compare) and len(c.ops) == 1 and isinstance(c.ops[0], (ast.In, ast.NotIn))
                  and norm(c.left) == key and f.live(c) and f.nid(c) is not None and f.cfg.dominates(f.nid(c), f.nid(st))]
        r.check(bool(tested), 'the tag is looked up before it is (re)used', f.key('tag-collision-unchecked'), f.loc(st),
                'add_to_loader files every class under \'!\' + __name__ without looking whether the tag is taken: a second class of the same '
                'name (or a user class called Path) replaces the first one\'s constructor and registry entry - load outcomes depend on the '
                'registration order, and registering an unrelated class changes them')
    r.done()


def r10_8_each_class_once(ctx, rid='R10.8'):
    """"each called exactly once": the walk up the class hierarchy visits a class once. A recursion over __bases__ without a record
    of what was visited reaches a common ancestor once per path (diamond inheritance)."""
    P = ctx.P
    r = ctx.rule(rid, 'the walk over the bases applies each ancestor\'s hook once: it follows a linearisation (__mro__) or keeps a set of '
                      'visited classes', floor=2)
    for key, hook in (('yatiml.loader:Loader.__savorize', '_yatiml_savorize'), ('yatiml.representers:Representer.__sweeten', '_yatiml_sweeten')):
        f = fn(P, key)
        rec = [c for c in f.calls(f.fi.name) if f.live(c)]
        over_bases = [l for l in f.walk() if isinstance(l, ast.For) and norm(l.iter).endswith('.__bases__')]
        over_mro = [l for l in f.walk() if isinstance(l, ast.For) and '__mro__' in norm(l.iter)]
        visited = [c for c in f.walk() if isinstance(c, ast.Compare) and len(c.ops) == 1 and isinstance(c.ops[0], (ast.In, ast.NotIn))
                   and any(isinstance(x, ast.Name) and x.id in f.fi.params for x in ast.walk(c.comparators[0]))
                   and 'registered' not in norm(c.comparators[0]) and 'representers' not in norm(c.comparators[0])
                   and '__dict__' not in norm(c.comparators[0])]
        # the record of visited classes is one set for the whole walk: a parameter that every recursive call hands down
        vparams = {x.id for c in visited for x in ast.walk(c.comparators[0]) if isinstance(x, ast.Name) and x.id in f.fi.params}
        for c in rec:
            for vp in vparams:
                pos = f.fi.params.index(vp) - 1        # self is not among the call's arguments
                given = (len(c.args) > pos and norm(c.args[pos]) == vp) or any(k.arg == vp and norm(k.value) == vp for k in c.keywords)
                r.check(given, '%s: the recursive call hands the visited set %s down' % (f.fi.qual, vp), f.key('visited-handed-down:%s' % vp),
                        f.loc(c), 'the recursive call %s does not pass %s on: every branch of the walk starts with a fresh, empty record, so '
                        'a base class reached along two paths (diamond inheritance) gets its %s applied twice' % (norm(c)[:60], vp, hook))
        once = (bool(over_mro) and not rec) or (bool(rec) and bool(visited)) or (not rec and not over_bases)
        r.check(once, '%s visits each class once' % f.fi.qual, f.key('visits-each-class-once'), f.loc(over_bases[0]) if over_bases else f.loc(),
                '%s recurses over __bases__ without remembering which classes it has visited: with diamond inheritance (D(B, C), B(A), '
                'C(A), all registered) A.%s is called twice' % (f.fi.qual, hook))
    r.done()


def r11_7_per_call_loader(ctx, rid='R11.7'):
    """The constructor objects are shared by all calls of a load function (PyYAML resumes their generators later, possibly after
    another call has started). What they use of the current call they take from their parameters."""
    P = ctx.P
    r = ctx.rule(rid, 'Constructor.__call__ constructs the attribute mapping with the loader it was called with (its parameter), not with '
                      'state kept on the shared constructor object', floor=1)
    f = fn(P, CTOR + '__call__')
    lp = f.fi.params[1]
    cms = [c for c in f.walk() if isinstance(c, ast.Call) and call_name(c) == 'construct_mapping' and f.live(c)]
    if not cms:
        r.fail(f.key('no-construct-mapping'), f.loc(), 'Constructor.__call__ does not call construct_mapping')
    for c in cms:
        recv = norm(c.func.value) if isinstance(c.func, ast.Attribute) else ''
        r.check(recv == lp, 'construct_mapping is called on the parameter %s' % lp, f.key('construct-mapping-receiver'), f.loc(c),
                'construct_mapping is called on %s: the constructor object is shared between calls, so after the yield another call\'s '
                'loader (with its own table of constructed objects) finishes this object' % recv)
        deep = [k for k in c.keywords if k.arg == 'deep']
        r.check(len(deep) == 1 and isinstance(deep[0].value, ast.Constant) and deep[0].value.value is True, 'construct_mapping(.., deep=True)',
                f.key('construct-mapping-deep'), f.loc(c), 'construct_mapping is not called with deep=True: sub-objects are still empty '
                'shells when the type check and __init__ see them')
    r.done()


def r04_10_key_test_table(ctx, rid='R04.10'):
    """Truth table of the key test in __strip_extra_attributes: a pair is rejected unless its key is a scalar *and* tagged str."""
    P = ctx.P
    from ..dtable import Evaluator, text_oracle, Unsupported
    r = ctx.rule(rid, 'a key is rejected exactly when it is not a ScalarNode or not tagged str (truth table over the two atoms)', floor=1)
    g = fn(P, CTOR + '__strip_extra_attributes')
    gnode = g.fi.params[1]
    loops = [l for l in g.walk() if isinstance(l, ast.For) and norm(l.iter) == '%s.value' % gnode and isinstance(l.target, ast.Tuple)]
    if not loops:
        raise AnalysisError('anchor missing: the pair loop of Constructor.__strip_extra_attributes')
    lo = loops[0]
    kv = norm(lo.target.elts[0])
    A, B = 'isinstance(%s, yaml.ScalarNode)' % kv, "%s.tag == 'tag:yaml.org,2002:str'" % kv

    class _Body:
        body = lo.body
    ok = True
    shown = {}
    for a in (False, True):
        for b in (False, True):
            try:
                ocs = Evaluator(text_oracle({A: a, B: b})).run(_Body)
            except Unsupported as e:
                r.fail(g.key('key-test-shape'), g.loc(lo), 'the pair loop is no longer a loop-free decision (%s)' % e)
                return r.done()
            kinds = {oc.kind for oc in ocs}
            want = {'raise'} if not (a and b) else ({'fall'} if 'raise' not in kinds else kinds)
            shown[(a, b)] = sorted(kinds)
            if (not (a and b) and kinds != {'raise'}) or ((a and b) and 'raise' in kinds):
                ok = False
    r.check(ok, 'key test: raise <=> not (ScalarNode and str tag)', g.key('key-test-table'), g.loc(lo),
            'the key test of __strip_extra_attributes does not reject exactly the keys that are not str-tagged scalars (outcomes by '
            '(is ScalarNode, tag == str): %s): e.g. a merge key `<<` or an int key passes, and what PyYAML merges in is constructed '
            'unchecked' % shown)
    r.done()


def r08_14_verdict_is_a_set(ctx, rid='R08.14'):
    """Every recogniser answers (set of types, error). The union recogniser merges member verdicts with `|=`: a verdict that is a
    list makes that a TypeError for a perfectly admissible type (Optional[Any], Union[int, Any])."""
    P = ctx.P
    from ..facts import verdict, reaching_defs
    r = ctx.rule(rid, 'the verdict of every recogniser exit is a set (set(), a set display or comprehension, or the verdict of another '
                      'recogniser): Union members are merged with |=', floor=8)

    def is_set(f, e, at, depth=0):
        if isinstance(e, (ast.Set, ast.SetComp)):
            return True
        if isinstance(e, ast.Call) and call_name(e) in ('set', 'frozenset'):
            return True
        if isinstance(e, ast.Call) and isinstance(e.func, ast.Attribute) and e.func.attr in ('union', 'intersection', 'difference', 'copy') \
                and is_set(f, e.func.value, at, depth):
            return True         # set().union(..) and friends answer a set
        if isinstance(e, ast.Call) and (call_name(e) or '').startswith(('recognize', '__recognize')):
            return True         # first component of a recogniser's answer, unpacked below
        if isinstance(e, ast.BinOp) and isinstance(e.op, (ast.BitOr, ast.BitAnd, ast.Sub)):
            return is_set(f, e.left, at, depth) and is_set(f, e.right, at, depth)
        if isinstance(e, ast.Name) and depth < 4:
            ds = reaching_defs(f, at, e.id)
            if not ds:
                return False
            for d in ds:
                if isinstance(d, ast.AugAssign):
                    continue
                v = d.value if isinstance(d, (ast.Assign, ast.AnnAssign)) else None
                if v is None:
                    return False
                tgt = d.targets[0] if isinstance(d, ast.Assign) else d.target
                if isinstance(tgt, ast.Tuple):
                    # recognised, error = <recogniser call>   or   = <set>, <error>
                    idx = [i for i, x in enumerate(tgt.elts) if isinstance(x, ast.Name) and x.id == e.id]
                    if isinstance(v, ast.Tuple) and idx and idx[0] < len(v.elts):
                        if not is_set(f, v.elts[idx[0]], d, depth + 1):
                            return False
                    elif not (isinstance(v, ast.Call) and idx == [0] and (call_name(v) or '').lstrip('_').startswith('recognize')):
                        return False
                elif isinstance(v, ast.Constant) and v.value is None:
                    continue        # "nothing recognised yet" placeholder, replaced or rejected before the return
                elif not is_set(f, v, d, depth + 1):
                    return False
            return True
        return False
    n = 0
    for fi in P.yatiml_functions():
        if fi.module.name != 'yatiml.recognizer' or fi.cls is None or not (fi.name == 'recognize' or fi.name.startswith('__recognize')):
            continue
        f = fn_of(fi)
        for ret in f.returns():
            if not (isinstance(ret.value, ast.Tuple) and len(ret.value.elts) == 2):
                continue
            n += 1
            e = ret.value.elts[0]
            r.check(is_set(f, e, ret), '%s: verdict %s is a set' % (fi.qual, norm(e)[:40]), f.key('verdict-set:%s' % f.alpha.text(e)[:40]), f.loc(ret),
                    '%s can answer a verdict that is not a set (%s comes from a list / tuple display): merging it into a Union\'s verdict '
                    'with |= raises TypeError, e.g. for an attribute typed Optional[Any]' % (fi.key, norm(e)[:40]))
    if n == 0:
        raise AnalysisError('anchor missing: no (verdict, error) return in the recogniser')
    r.done()


def r07_5_quoted_scalars_read_back(ctx, rid='R07.5'):
    """The load-back clause of C07, for the scalar kinds JSON has no literal for: what the emitter writes as a JSON *string* is read
    back as a str-tagged scalar, so it only loads where the declared type accepts a string."""
    P = ctx.P
    r = ctx.rule(rid, 'every scalar kind that emit_json writes as a JSON string is accepted back as that kind from a string: only '
                      'str-tagged scalars are quoted, or the recogniser of the quoted kind accepts the str tag', floor=1)
    f = fn(P, 'yatiml.dumper:Dumper.emit_json')
    quoted: Set[str] = set()
    sites = [c for c in f.walk() if isinstance(c, ast.Call) and norm(c.func) == 'json.dumps' and f.live(c)]
    for c in sites:
        for g, pol in f.guards(c):
            if not pol:
                continue
            for x in ast.walk(g):
                if isinstance(x, ast.Constant) and isinstance(x.value, str) and x.value.startswith('tag:yaml.org,2002:'):
                    quoted.add(x.value[len('tag:yaml.org,2002:'):])
    if not sites or 'str' not in quoted:
        raise AnalysisError('anchor missing: the json.dumps(..) write for str-tagged scalars in Dumper.emit_json')
    # which tags the scalar recogniser accepts for a type: exactly scalar_type_to_tag[type] (R01.5) - so a kind other than str that
    # is written as a string does not come back
    for kind in sorted(quoted - {'str'}):
        r.fail('yatiml.dumper:Dumper.emit_json:quoted-kind:%s' % kind, f.loc(sites[0]),
               'scalars tagged %s are written to JSON as strings (there is no other way), and a JSON string is read back as a str-tagged '
               'scalar, which the recogniser accepts only where str is declared: a value containing a %s does not survive '
               'dumps_json + load' % (kind, {'timestamp': 'date'}.get(kind, kind)))
    r.ok('kinds written as JSON strings: %s' % sorted(quoted))
    r.done()


from ..guards import mutated_names


def r01_13_extras_partition(ctx, rid='R01.13'):
    """What __init__ receives when the class takes _yatiml_extra: every constructed attribute exactly once - those that name a
    parameter under their own name, all others together, in document order, in an OrderedDict under `_yatiml_extra` - and
    nothing the document did not give.  Decided on the mapping-provenance abstraction (E11): the spelling (copy and delete, insert
    loop, comprehensions) is immaterial, the partition is compared on key classes."""
    from ..dictflow import Flow, DictAbs, Unsupported, cond_truth
    P = ctx.P
    r = ctx.rule(rid, '__split_off_extra_attributes partitions the constructed mapping: keys naming a parameter (other than '
                      '_yatiml_extra) stay, with their values; all other keys go, with their values, into an OrderedDict stored '
                      'under "_yatiml_extra"; nothing else is added', floor=4)
    f = fn(P, CTOR + '__split_off_extra_attributes')
    params = [p for p in f.fi.params if p != 'self']
    if len(params) != 2:
        raise AnalysisError('anchor changed: Constructor.__split_off_extra_attributes(mapping, known_attrs)')
    m, known = params
    fl = Flow({m: 'mapping', known: 'other'})
    try:
        fl.run([s for s in f.fi.node.body])
        if not isinstance(fl.result, DictAbs):
            raise Unsupported('the returned value is not a locally built mapping')
    except Unsupported as e:
        r.fail(f.key('partition-form'), f.loc(), '__split_off_extra_attributes is not in a form whose partition can be read off '
               '(%s)' % e)
        r.done()
        return
    res = fl.result
    classes = [(k, ink) for k in ('_yatiml_extra', 'self', 'some_key') for ink in (False, True)]
    # key classes that cannot occur: names that every caller has already taken out of the list it passes (a filter
    # `[n for n in <parameters> if n not in ('self', '_yatiml_extra')]` at the call site)
    sites = []
    for cf in P.yatiml_functions():
        if cf.cls is f.fi.cls and cf is not f.fi:
            for c_ in walk_function(cf.node):
                if isinstance(c_, ast.Call) and isinstance(c_.func, ast.Attribute) and c_.func.attr.endswith('__split_off_extra_attributes'):
                    sites.append((fn_of(cf), c_))
    excluded = None
    for cf_, c_ in sites:
        arg = c_.args[1] if len(c_.args) > 1 else next((k_.value for k_ in c_.keywords if k_.arg == known), None)
        out_here = set()
        for src_ in (S._flow_sources(cf_, arg) if arg is not None else []):
            if isinstance(src_, ast.ListComp) and len(src_.generators) == 1 and isinstance(src_.generators[0].target, ast.Name) \
                    and isinstance(src_.elt, ast.Name) and src_.elt.id == src_.generators[0].target.id:
                from ..dictflow import _kname, _and, TRUE
                cnd = TRUE
                for i_ in src_.generators[0].ifs:
                    cnd = _and(cnd, _kname(i_, src_.elt.id))
                out_here = {k for k in ('_yatiml_extra', 'self') if cond_truth(cnd, k, {}) is False}
        excluded = out_here if excluded is None else (excluded & out_here)
    excluded = excluded or set()
    if excluded:
        classes = [(k, ink) for k, ink in classes if not (ink and k in excluded)]
        r.ok('every caller passes the parameter names without %s: those cannot be "in the list"' % sorted(excluded))

    # copies of the parameter list that are only asked for membership (`known_names = set(known_attrs)`) answer the same
    same_members = {known}
    for n in f.walk():
        if isinstance(n, ast.Assign) and len(n.targets) == 1 and isinstance(n.targets[0], ast.Name):
            v_ = n.value
            while isinstance(v_, ast.Call) and isinstance(v_.func, ast.Name) and v_.func.id in ('set', 'frozenset', 'list', 'tuple') \
                    and len(v_.args) == 1 and not v_.keywords:
                v_ = v_.args[0]
            if isinstance(v_, ast.Name) and v_.id == known and v_ is not n.value \
                    and len(S.assigned_from(f, n.targets[0].id)) == 1 and n.targets[0].id not in mutated_names(f.node):
                same_members.add(n.targets[0].id)

    def table(part):
        out = {}
        for k, ink in classes:
            out[(k, ink)] = cond_truth(part.cond, k, {nm: ink for nm in same_members})
        return out

    def check_part(d, what, want, keyname):
        own = [p for p in d.parts if p.source == m]
        foreign = [p for p in d.parts if p.source != m]
        r.check(not foreign, '%s draws its entries from the constructed mapping only' % what, f.key(keyname + ':source'), f.loc(),
                '%s is filled from %s, not from the constructed mapping: __init__ receives arguments the document did not give '
                '(an omitted optional parameter arrives as None instead of taking its default)'
                % (what, ', '.join(p.source for p in foreign)[:80]))
        bad_kv = [p for p in own if p.key != '‹K›' or p.value != 'V']
        r.check(not bad_kv, '%s keeps each key with its own value' % what, f.key(keyname + ':entries'), f.loc(),
                '%s does not map each key to its constructed value (%s)' % (what, bad_kv[:1]))
        # union of the parts' conditions must be the wanted predicate; overlapping parts are harmless (same entry twice)
        for k, ink in classes:
            ts = [table(p)[(k, ink)] for p in own]
            if any(t is None for t in ts):
                got = None
            else:
                got = any(ts)
            w = want(k, ink)
            desc = 'key %r %s the parameter list' % (k if k != 'some_key' else '<any other>', 'in' if ink else 'not in')
            r.check(got is w, '%s: %s -> %s' % (what, desc, 'kept' if w else 'left out'), f.key('%s:%s:%s' % (keyname, k, ink)), f.loc(),
                    '%s: %s is %s, it should be %s' % (what, desc, 'undetermined' if got is None else ('kept' if got else 'left out'),
                                                       'kept' if w else 'left out'))

    # `self` names the receiver, not an attribute a document can give: a key of that name is an unknown key like any other
    # (C02 only: for C01 a rejected document is as good as a loaded one, and `self` in the arguments can only end in a rejection)
    not_attrs = ('_yatiml_extra', 'self') if ctx.prop == 'C02' else ('_yatiml_extra',)
    check_part(res, 'the mapping passed on to __init__', lambda k, ink: ink and k not in not_attrs, 'main')
    extra_consts = {k: v for k, v in res.consts.items()}
    r.check(set(extra_consts) == {'_yatiml_extra'}, 'the only added entry is "_yatiml_extra"', f.key('added-entries'), f.loc(),
            'entries added to the arguments under literal keys: %s (wanted exactly "_yatiml_extra")' % sorted(map(str, extra_consts)))
    ex = extra_consts.get('_yatiml_extra')
    if isinstance(ex, DictAbs):
        r.check(ex.kind == 'OrderedDict', 'the extras are an OrderedDict (the documented type of the parameter)', f.key('extras-type'),
                f.loc(), 'the value passed for _yatiml_extra is a plain %s, the parameter is documented and annotated as OrderedDict '
                '(move_to_end / popitem(last=..) / order-sensitive equality stop working)' % ex.kind)
        r.check(not ex.consts, 'the extras hold document entries only', f.key('extras-added'), f.loc(),
                'entries added to the extras under literal keys %s' % sorted(map(str, ex.consts)))
        check_part(ex, 'the extras', lambda k, ink: not (ink and k not in not_attrs), 'extras')
    elif ex is not None:
        r.fail(f.key('extras-type'), f.loc(), 'the value stored under "_yatiml_extra" is not a mapping built in this function (%s)' % str(ex)[:60])
    r.done()


def r02_19_tag_checks_read_the_document(ctx, rid='R02.19'):
    """The seq/map tag tests of __process_node judge the tag the document carries: the retag `node.tag = __type_to_tag(..)` (which for
    List/Dict types *writes* the plain seq/map tag) comes after them on every path, otherwise the test can never fail and
    `!!set [1, 2]`, `!!python/tuple [..]`, `!mytag {..}` load as plain lists and dicts."""
    P = ctx.P
    r = ctx.rule(rid, 'the plain-tag checks for sequences and mappings come before the node is retagged: no `node.tag = __type_to_tag(..)` '
                      'reaches a test of node.tag', floor=2)
    f = fn(P, S.PN)
    node = f.fi.params[1]
    tests = [b for b in f.cfg.nodes if b.kind == 'test' and any(isinstance(x, ast.Attribute) and x.attr == 'tag' and norm(x.value) == node
                                                                for x in ast.walk(b.ast))
             and any(isinstance(x, ast.Constant) and isinstance(x.value, str) and x.value.startswith('tag:yaml.org,2002:') for x in ast.walk(b.ast))]
    retags = [n for n in f.walk() if isinstance(n, ast.Assign) and any(norm(t) == '%s.tag' % node for t in n.targets)
              and '__type_to_tag(' in norm(n.value) and f.live(n)]
    if not tests:
        r.fail(f.key('no-tag-test'), f.loc(), '__process_node no longer tests the tag of sequence / mapping nodes')
    for t in tests:
        early = [s_ for s_ in retags if t.id in f.cfg.reachable(f.nid(s_)) and f.nid(s_) != t.id]
        r.check(not early, 'test `%s` reads the tag the document carries' % norm(t.ast)[:50], f.key('tag-test-after-retag:%s' % norm(t.ast)[:40]),
                f.loc(t.ast), 'the node is retagged (%s) before `%s` is evaluated: the test compares the tag that was just written, it can '
                'never fail, and collections with any explicit tag (!!set, !!python/tuple, !custom) are accepted as plain lists / dicts'
                % (norm(early[0])[:50] if early else '', norm(t.ast)[:50]))
    r.done()


def r16_8_conversion_errors(ctx, rid='R16.8'):
    """require_attribute_value / _not promise RecognitionError or a normal return. They compare with `Node.get_value()`, whose int and
    float arms hand the text to PyYAML's constructors: for an explicitly tagged scalar whose text is not a number (`x: !!int abc`)
    those raise ValueError. The comparison has to run under a handler that turns that into the documented outcome."""
    P = ctx.P
    r = ctx.rule(rid, 'a conversion error of get_value() in require_attribute_value / require_attribute_value_not is converted into '
                      'the documented outcome (RecognitionError / not equal)', floor=2)
    g = fn(P, H.NODE + 'get_value')
    raising = [c for c in g.walk() if isinstance(c, ast.Call) and call_name(c) in ('construct_yaml_int', 'construct_yaml_float', 'int', 'float')]
    protected_inside = all(any(t for t in g.cfg.enclosing_handlers(c)) for c in raising) if raising else True
    for name in ('require_attribute_value', 'require_attribute_value_not'):
        f = fn(P, H.UNK + name)
        calls = [c for c in f.walk() if isinstance(c, ast.Call) and isinstance(c.func, ast.Attribute) and c.func.attr == 'get_value' and f.live(c)]
        if not calls:
            r.ok('%s does not call get_value()' % name)
        for c in calls:
            ok = protected_inside
            for t in f.cfg.enclosing_handlers(c):
                for h in t.handlers:
                    names = f.cfg._handler_names(h)
                    if names is None or set(names) & {'ValueError', 'Exception', 'BaseException'}:
                        conv, _ = S.handler_converts(f, h)
                        ok = ok or conv or not any(isinstance(x, ast.Raise) and x.exc is None for x in ast.walk(h))
            r.check(ok, '%s: get_value() runs under a handler for ValueError' % name, f.key('get_value-conversion-error'), f.loc(c),
                    '%s compares with get_value(), which raises ValueError for an explicitly tagged scalar whose text is not a number '
                    '(`x: !!int abc`, `x: !!float abc`): the helper leaves with ValueError instead of RecognitionError / a normal return, '
                    'and from inside a _yatiml_recognize hook that ValueError escapes the load function' % name)
    r.done()


def r03_15_tag_class_direction(ctx, rid='R03.15'):
    """A class named by the document's tag may stand in for the expected type only if it *is a kind of* it.  Wherever the
    recogniser relates a tag-derived class to an expected / member type with issubclass, the tag-derived class is the first argument:
    the other way round a tag naming a *base* class of what is expected is accepted and an object of the base class is built."""
    P = ctx.P
    r = ctx.rule(rid, 'issubclass(<class named by the node\'s tag>, <expected type>) - never the other way round', floor=0)
    n = 0
    for fi in P.yatiml_functions():
        if fi.module.name not in ('yatiml.recognizer', 'yatiml.loader'):
            continue
        f = None
        for c in walk_function(fi.node):
            if not (isinstance(c, ast.Call) and isinstance(c.func, ast.Name) and c.func.id == 'issubclass' and len(c.args) == 2):
                continue
            f = f or fn_of(fi)

            def from_tag(e):
                t = f.alpha.text(e)
                if '.tag' in t and 'registered_classes' in t:
                    return True
                if isinstance(e, ast.Name):
                    return any('.tag' in norm(v) and 'registered_classes' in norm(v) for v in S.assigned_from(f, e.id))
                return False
            a, b = c.args
            if from_tag(a) or from_tag(b):
                n += 1
                reversed_ = from_tag(b) and not from_tag(a)
                if reversed_:
                    # asking the question the other way round is harmless where it only words a message; it matters where the
                    # answer "yes" lets the tagged class through (it is returned, or recognition continues with it)
                    def lets_through(x):
                        in_msg = set()
                        for m in ast.walk(x):
                            if isinstance(m, ast.JoinedStr) or (isinstance(m, ast.Call) and isinstance(m.func, ast.Attribute) and m.func.attr == 'format'):
                                in_msg |= {id(y) for y in ast.walk(m)}
                        return any(from_tag(y) and id(y) not in in_msg for y in ast.walk(x) if isinstance(y, (ast.Name, ast.Subscript)))
                    used = False
                    for st in f.walk():
                        if isinstance(st, ast.Return) and st.value is not None or (isinstance(st, ast.Call) and (call_name(st) or '').lstrip('_').startswith('recognize')):
                            if any(g is c and p_ for g, p_ in f.guards(st)) and lets_through(st.value if isinstance(st, ast.Return) else st):
                                used = True
                    if not used:
                        r.ok('%s: %s only words a message' % (fi.qual, norm(c)[:50]))
                        continue
                r.check(from_tag(a) and not from_tag(b), '%s: %s asks whether the tagged class is a kind of the expected one' % (fi.qual, norm(c)[:50]),
                        f.key('tag-class-direction:%s' % f.alpha.text(b)[:40]), f.loc(c),
                        '%s asks whether the *expected* type is a subclass of the class named by the tag: a tag that names a base class of '
                        'the expected type passes, and an object of the base class is constructed where the derived class was declared'
                        % norm(c)[:60])
    r.ok('%d comparisons of a tag-derived class with an expected type' % n)
    r.done()
