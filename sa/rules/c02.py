"""C02 - load accepts exactly what the documented pipeline admits (structural admission clauses only)."""
from . import shared as S
from . import roundtrip as R

META = {
    'claim_added': 'Also decided: extras are stripped (whole recursion) before construction; enum members by name, string-likes and Paths from the node text; requiredness arithmetic of class_subobjects and its agreement with defaulted_attributes. Round 3: the composed tree reaches recognition unmodified (R02.12); the dict built by construct_mapping is not written before __init__ receives it (R02.13); implicit raisers and user-code call sites of the load path are discharged as in C08 (R02.14/15). Round 6: the savorize step of the pipeline (R02.20-22 and R10.2/R10.4 run here too: bases first, every class that defines the hook, nothing returns before the bases had their turn); name lists handed to the checking methods are the signature\'s parameters (argument provenance from the call sites). Round 6 (E14): caches on the code this property is about are invisible - no value that lives in a memo cell (dict / lazily filled attribute / lru_cache) is modified by the code it is handed to, the key of a cell contains every input its value depends on, no mutable parameter default is modified or handed out; given that, the program is analysed as if every lookup missed. Round 12: R02.23 (= R01.16) - the constructors write no node of the processed tree.',
    'level': 'other',
    'technique': 'static: guard/dominance analysis of the admission rules (construct_mapping deep flag, attribute-set '
                 'agreement between introspection and constructor, per-kind accept guards via must-pass-through, key-kind and '
                 'extraneous-key checks before __init__, exact seq/map tag tests)',
    'claim': 'Decides six structural clauses of the admission rules that are necessary for C02 (each with a named input that '
             'breaks when the clause is broken): bottom-up construction (deep=True after the yield); one attribute set '
             '(names exempt from tag stripping = argspec.args minus exactly what class_subobjects skips); per-kind accept '
             'guards (Path/string-like on str scalars, enum on str|bool scalars, classes on mappings, exact-name-then-dashed '
             'alternatives, missing required attribute rejects); string-key check on every path to __init__; lists/dicts by '
             'exact node kind and plain tag; extraneous keys rejected unless _yatiml_extra. It does NOT decide the bulk of C02: '
             'equality of the constructed value with a reference semantics, requiredness arithmetic, defaults, order of extras '
             '- those are value-level and need a differential technique.',
    'note': 'Minority of the statement is decided; trusted: PyYAML construct_mapping semantics of the deep flag.',
    'explanation': 'Static decision of necessary structural admission clauses; the accept/reject language and the constructed '
                   'value are not decided.',
    'assumptions': ['PyYAML defers nested generator constructors unless deep=True (read from constructor.py)'],
}


def run(ctx):
    S.r02_1_deep(ctx)
    S.r02_2_attrset(ctx)
    S.r02_3_admission(ctx)
    S.r02_4_keys(ctx)
    S.r02_5_kinds(ctx)
    S.r02_6_extraneous(ctx)
    S.r04_7_strip_before_construct(ctx, 'R02.7')
    R.r05_3_pairs(ctx, 'R02.8')
    S.r02_9_requiredness(ctx)
    R.r05_7_defaults(ctx, 'R02.10')
    S.r04_5_strip_tags(ctx, 'R02.11', keep_core=True)
    from . import round3 as R3
    R3.r01_10_tree_untouched(ctx, 'R02.12')
    R3.r02_13_init_arguments(ctx)
    from . import errors as E
    E.r08_3_implicit(ctx, 'R02.14')
    E.r08_2_user_code(ctx, 'R02.15')
    R3.r04_10_key_test_table(ctx, 'R02.16')
    R3.r11_7_per_call_loader(ctx, 'R02.17')
    R3.r01_13_extras_partition(ctx, 'R02.18')
    R3.r02_19_tag_checks_read_the_document(ctx, 'R02.19')
    S.r01_3_recursion(ctx)
    # the savorize step of the pipeline: base classes first, each class that defines the hook, before the attributes are judged
    S.r10_hooks(ctx, ids=('R02.20', 'R02.21', 'R02.22'), only_hooks={'_yatiml_savorize'})
    from . import round3 as R3w
    R3w.r01_16_constructors_write_no_node(ctx, 'R02.23')
    from . import memo_rules as M
    M.memo_sound(ctx, 'R02.M')
