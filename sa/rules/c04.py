"""C04 - a document cannot cause construction of objects the type model does not call for."""
from . import shared as S

META = {
    'claim_added': 'Also decided: Node.get_attribute answers only for exactly one matching key (a repeated key cannot be checked on one occurrence and constructed from another); only effective removals count in the exempt-set extraction. Round 3: inside the pair loop neither the rejection of non-string keys nor the stripping stands under a foreign condition (merge keys skipped). Round 6 (E14): caches on the code this property is about are invisible - no value that lives in a memo cell (dict / lazily filled attribute / lru_cache) is modified by the code it is handed to, the key of a cell contains every input its value depends on, no mutable parameter default is modified or handed out; given that, the program is analysed as if every lookup missed. Round 12: R04.11 - signature introspection keeps no state (which positions are typed and which keys are extra does not depend on call history).',
    'level': 'other',
    'technique': 'static: class-hierarchy facts (MRO), who-may-register / who-may-call rules with resolved receivers, taint '
                 'of document-derived names into getattr/import/eval sinks, dominance (strip before construct, retag on every '
                 'exit), structural-recursion completeness of strip_tags',
    'claim': 'Decides, on every path of the code, the mechanisms that together make the document unable to select a '
             'constructor: Loader derives only from SafeLoader; every yaml.load passes a yatiml loader subclass; only yatiml '
             'constructor objects are registered, only under "!Name" tags on yatiml loader classes, no multi/path/implicit '
             'registration or table store; no eval/exec/import/pickle and no document-keyed getattr/dict lookup anywhere in the '
             'package (with positive controls); strip_tags is a complete recursion (seq/map tags forced unconditionally, every '
             'item and both pair components, non-core scalar tags re-resolved); Any is stripped and every processed node is '
             'retagged with the recognised type\'s tag on every exit; extras are stripped before construct_mapping with no '
             'exemption beyond the type-checked attribute names; the attribute set agrees between introspection and '
             'constructor; duplicate keys cannot be checked on one occurrence and built from another. Residual trust: '
             'PyYAML SafeConstructor for core tags.',
    'note': 'Observation, not a finding: scalars whose document tag already has the core prefix (!!binary, !!python/name:x) '
            'keep it below Any; SafeLoader then yields bytes or raises ConstructorError - nothing is imported or called.',
    'explanation': 'Static who-may-call / dominance / taint decision; see claim.',
    'assumptions': ['PyYAML SafeConstructor constructs only plain data for core tags'],
}


def run(ctx):
    # round 12: which positions of a class are typed (and therefore processed) and which keys are extra (and therefore stripped) is read
    # off the signature at each load; an introspection that keeps state - a parameter list remembered on the class and found again
    # through a subclass - makes that a function of call history: a tag below an `Any` parameter of the subclass is then never stripped
    from . import helpers_rules as H0
    H0.r16_1_purity(ctx, 'R04.11', roots=['yatiml.introspection:class_subobjects'], what='signature introspection (what is typed, what is extra)')
    S.r04_1_safe_base(ctx)
    S.r04_2_loader_sinks(ctx)
    S.r04_3_registrations(ctx)
    S.r04_4_no_dynamic_lookup(ctx)
    S.r04_5_strip_tags(ctx)
    S.r01_4_retag(ctx, 'R04.6')
    S.r04_7_strip_before_construct(ctx)
    S.r02_2_attrset(ctx, 'R04.8')
    S.r04_9_duplicate_keys(ctx)
    S.r01_3_recursion(ctx)
    from . import round3 as R3
    R3.r04_10_key_test_table(ctx)
    R3.r11_7_per_call_loader(ctx, 'R04.11')
    R3.r03_15_tag_class_direction(ctx, 'R04.12')
    from . import memo_rules as M
    M.memo_sound(ctx, 'R04.M')
