"""Rules over the load pipeline (loader / recognizer / constructors / util) shared by C01-C04, C13, C17, C18."""
import ast
from typing import Dict, List, Optional, Set, Tuple

from ..model import AnalysisError, Program, ClassInfo, FunctionInfo, walk_function, parent, dotted_name
from ..guards import (norm, card_admitted, name_subject, isinstance_atom, known_instance, tag_equalities,
                      call_name, const_str, kwarg, Copies, card_truth, canon_atom)
from ..facts import (Fn, verdict, reaching_defs, whole_collection_loop, enclosing_loops, enclosing_stmt, str_format_const,
                     assigned_from, CORE, MUTATORS, loop_exits)
from ..cfg import conj_atoms

PN = 'yatiml.loader:Loader.__process_node'
REC = 'yatiml.recognizer:Recognizer.'

def fn(P: Program, key: str) -> Fn:
    # the cache lives on the program object itself: a cache keyed by id(P) hands out facts of a dead program when a worker
    # process analyses several variants one after the other and the id is reused
    cache = P.__dict__.setdefault('_fn_cache', {})
    if key not in cache:
        cache[key] = fn_of(P.func(key))
    return cache[key]


def is_none_test(atoms, names: Set[str]) -> bool:
    """guards establish that one of `names` is None"""
    for g, pol in atoms:
        if isinstance(g, ast.Compare) and len(g.ops) == 1 and isinstance(g.left, ast.Name) and g.left.id in names \
                and isinstance(g.comparators[0], ast.Constant) and g.comparators[0].value is None:
            if (isinstance(g.ops[0], ast.Is) and pol) or (isinstance(g.ops[0], ast.IsNot) and not pol):
                return True
            if (isinstance(g.ops[0], ast.Eq) and pol) or (isinstance(g.ops[0], ast.NotEq) and not pol):
                return True
    return False


def raise_class(r: ast.Raise) -> Optional[str]:
    e = r.exc
    if e is None:
        return None
    if isinstance(e, ast.Call):
        e = e.func
    return dotted_name(e).split('.')[-1] if dotted_name(e) else None


# =====================================================================================================
# C01
# =====================================================================================================

def r01_1_entry(ctx):
    """R01.1: get_single_node returns __process_node(composed node, document_type) on every path"""
    P = ctx.P
    r = ctx.rule('R01.1', 'Loader.get_single_node hands every composed document to __process_node with the '
                          'document type and returns its result', floor=2)
    f = fn(P, 'yatiml.loader:Loader.get_single_node')
    calls = [c for c in f.calls('__process_node') if f.live(c)]
    ok_types = {'type(self).document_type', 'self.document_type', 'self.__class__.document_type'}
    if not calls:
        r.fail(f.key('no-process-node-call'), f.loc(), 'get_single_node never calls __process_node: documents are '
               'constructed without recognition/type checking')
    for c in calls:
        t = norm(c.args[1]) if len(c.args) > 1 else None
        r.check(t in ok_types, 'get_single_node processes with %s' % t, f.key('process-type:%s' % t), f.loc(c),
                '__process_node is called with %s instead of the loader\'s document_type' % t)
        a0 = c.args[0]
        srcs = [d.value for d in reaching_defs(f, c, a0.id)] if isinstance(a0, ast.Name) else [a0]
        src_ok = bool(srcs)
        for rhs in srcs:
            t = norm(rhs)
            if 'super().get_single_node()' in t:
                continue
            # the stand-in for an empty document: a null scalar, built only when PyYAML composed nothing
            if isinstance(rhs, ast.Call) and call_name(rhs) == 'ScalarNode' and rhs.args and const_str(rhs.args[0]) == CORE + 'null':
                continue
            src_ok = False
        r.check(src_ok, 'the processed node is the one composed by super().get_single_node() (or the null scalar standing for an '
                'empty document)', f.key('processed-node-source'), f.loc(c), 'the node given to __process_node is not the composed document')
    call_nids = {f.nid(c) for c in calls}
    for ret in f.returns():
        rn = f.nid(ret)
        if ret.value is None or (isinstance(ret.value, ast.Constant) and ret.value.value is None):
            r.fail(f.key('return-none'), f.loc(ret), 'get_single_node returns None without recognition: the load function returns '
                   'None whatever type it was created for')
            continue
        r.check(rn not in f.cfg.reachable(f.cfg.entry, avoid=set(call_nids)), 'the return at %s is reached only through __process_node '
                '(an empty document included)' % f.loc(ret), f.key('return-bypasses-process-node'), f.loc(ret),
                'a path returns without passing the document through __process_node: e.g. an empty document yields None for a '
                'load function created for int or for a class')
        # the returned value is the processed node
        if isinstance(ret.value, ast.Name):
            rhs = [norm(d.value) for d in reaching_defs(f, ret, ret.value.id)]
            r.check(bool(rhs) and all('__process_node' in x for x in rhs), 'returned name is bound to the result of __process_node',
                    f.key('returned-value'), f.loc(ret), 'the value returned is not the result of __process_node')
    if f.falls_off_end():
        r.fail(f.key('return-none'), f.loc(), 'get_single_node can end without returning the processed node')
    r.done()


def recognise_targets(f: Fn) -> Tuple[Optional[str], Optional[str], Optional[ast.Call]]:
    """(set var, error var, call) of `S, E = self.__recognizer.recognize(node, expected_type)` in f"""
    for n in f.walk():
        if isinstance(n, ast.Assign) and isinstance(n.value, ast.Call) and call_name(n.value) == 'recognize' \
                and len(n.targets) == 1 and isinstance(n.targets[0], ast.Tuple) and len(n.targets[0].elts) == 2 \
                and all(isinstance(e, ast.Name) for e in n.targets[0].elts):
            return n.targets[0].elts[0].id, n.targets[0].elts[1].id, n.value
    return None, None, None


def extraction_sites(f: Fn, S: str) -> List[ast.AST]:
    """expressions that pick one element out of the candidate set S"""
    out = []
    for n in f.walk():
        if isinstance(n, ast.Call) and call_name(n) == 'next' and n.args and isinstance(n.args[0], ast.Call) \
                and call_name(n.args[0]) == 'iter' and n.args[0].args and norm(n.args[0].args[0]) == S:
            out.append(n)
        elif isinstance(n, ast.Call) and isinstance(n.func, ast.Attribute) and n.func.attr == 'pop' \
                and norm(n.func.value) == S:
            out.append(n)
        elif isinstance(n, ast.Subscript) and isinstance(n.value, ast.Call) and call_name(n.value) in ('list', 'tuple', 'sorted') \
                and n.value.args and norm(n.value.args[0]) == S:
            out.append(n)
        elif isinstance(n, ast.Subscript) and norm(n.value) == S and isinstance(n.ctx, ast.Load):
            out.append(n)
        elif isinstance(n, ast.Assign) and isinstance(n.targets[0], (ast.Tuple, ast.List)) and norm(n.value) == S:
            out.append(n)
        elif isinstance(n, ast.For) and norm(n.iter) == S:
            out.append(n.iter)
    return out


def r01_2_gate(ctx):
    P = ctx.P
    r = ctx.rule('R01.2', 'in __process_node the recognised type is extracted only where exactly one candidate is '
                          'admitted; every other cardinality leaves via raise RecognitionError', floor=3)
    f = fn(P, PN)
    S, E, call = recognise_targets(f)
    if S is None:
        raise AnalysisError('anchor missing: `S, E = self.__recognizer.recognize(..)` in %s' % PN)
    a = [norm(x) for x in call.args]
    params = f.fi.params
    r.check(len(a) == 2 and a[0] == params[1] and a[1] == params[2],
            'recognition is asked for the processed node and the expected type',
            f.key('recognize-args'), f.loc(call), 'recognize() is called with %s, not (node, expected_type)' % a)
    sites = extraction_sites(f, S)
    if not sites:
        r.fail(f.key('no-extraction'), f.loc(), 'the recognised type is never taken from the candidate set')
    for s in sites:
        adm = f.card(s, S)
        r.check(adm == {1}, 'extraction %s admits len(%s) in %s' % (norm(s), S, sorted(adm)),
                f.key('gate:%s' % norm(s)), f.loc(s),
                'the recognised type is extracted where len(%s) may be %s (0 = nothing recognised, >=2 = ambiguous): '
                'the node would be constructed as an arbitrary candidate' % (S, sorted(adm)),
                {'guards': f.guard_texts(s)})
    # the paths cut off by the gate raise RecognitionError, and nothing returns before the gate
    for rs in f.raises():
        g = f.guards(rs)
        adm = card_admitted(g, name_subject(S))
        if adm != set((0, 1, 2, 3)) and 1 not in adm:
            r.check(raise_class(rs) == 'RecognitionError', 'gate raises RecognitionError',
                    f.key('gate-raise'), f.loc(rs), 'the uniqueness gate raises %s' % raise_class(rs))
    site_nids = {f.nid(s) for s in sites}
    for ret in f.returns():
        ok = any(f.cfg.dominates(sn, f.nid(ret)) for sn in site_nids if sn is not None)
        r.check(ok, 'return at %s is dominated by the uniqueness gate' % f.loc(ret), f.key('return-before-gate'),
                f.loc(ret), '__process_node returns on a path that did not pass the uniqueness gate')
    r.done()
    return S


def _extracted_var(f: Fn, S: str) -> Optional[str]:
    for n in f.walk():
        if isinstance(n, ast.Assign) and len(n.targets) == 1 and isinstance(n.targets[0], ast.Name):
            if any(x in extraction_sites(f, S) for x in ast.walk(n.value)):
                return n.targets[0].id
    return None


def _iter_var_over(e: ast.AST, coll_text: str) -> Optional[Tuple[ast.AST, ast.AST]]:
    """if expression `e` lies in a whole-collection iteration over `coll_text`, return (iteration construct, target)"""
    n = e
    p = parent(n)
    while p is not None and not isinstance(p, (ast.FunctionDef, ast.AsyncFunctionDef)):
        if isinstance(p, (ast.ListComp, ast.GeneratorExp)):
            for g in p.generators:
                if norm(g.iter) == coll_text and not g.ifs and len(p.generators) == 1:
                    return p, g.target
        if isinstance(p, ast.For) and any(n is s for s in p.body):
            it = p.iter
            if norm(it) == coll_text and whole_collection_loop(p):
                return p, p.target
            if isinstance(it, ast.Call) and call_name(it) == 'enumerate' and it.args and norm(it.args[0]) == coll_text \
                    and whole_collection_loop(p) and isinstance(p.target, ast.Tuple) and len(p.target.elts) == 2:
                return p, p.target.elts[1]
        n, p = p, parent(p)
    return None


def r01_3_recursion(ctx):
    P = ctx.P
    r = ctx.rule('R01.3', '__process_node recurses into every child with the matching element/attribute type and '
                          'stores the processed child back', floor=4)
    f = fn(P, PN)
    S, _, _ = recognise_targets(f)
    rt = _extracted_var(f, S) if S else None
    if rt is None:
        raise AnalysisError('anchor missing: recognised-type variable in %s' % PN)
    node = f.fi.params[1]
    calls = [c for c in f.calls('__process_node') if f.live(c)]
    seq_ok = map_k = map_v = cls_ok = False
    for c in calls:
        if len(c.args) != 2:
            continue
        a0, a1 = c.args
        g = f.guards(c)
        gt = {('' if p else 'not ') + norm(x) for x, p in g}
        # the only reason not to process the children of a collection is that their declared type is a built-in scalar (they were
        # recognised as exactly that already): any other test on an element type in front of the rebuild skips children
        if any(t in gt for t in ('is_generic_sequence(%s)' % rt, 'is_generic_mapping(%s)' % rt)):
            elem_types = {f.alpha.text(ast.parse('generic_type_args(%s)[%d]' % (rt, i_), mode='eval').body) for i_ in (0, 1)}
            for x_, p_ in g:
                parts_ = x_.values if isinstance(x_, ast.BoolOp) else [x_]
                for part in parts_:
                    if not isinstance(part, ast.Compare) or f.alpha.text(part.left) not in elem_types:
                        if any(f.alpha.text(n_) in elem_types for n_ in ast.walk(part) if isinstance(n_, (ast.Name, ast.Subscript))):
                            r.fail(f.key('children-skipped:%s' % f.alpha.text(part)[:50]), f.loc(c), 'children are processed only under `%s`'
                                   % norm(x_)[:80])
                        continue
                    okp = len(part.ops) == 1 and isinstance(part.ops[0], (ast.In, ast.NotIn)) and norm(part.comparators[0]) == 'scalar_type_to_tag'
                    r.check(okp, 'children are skipped only when their declared type is in scalar_type_to_tag', f.key(
                        'children-skipped:%s' % f.alpha.text(part)[:50]), f.loc(c), 'the children of the collection are not processed '
                        'when `%s`: they keep the tag and value the document gave them (only a built-in scalar type, looked up in '
                        'scalar_type_to_tag, makes processing a no-op)' % norm(x_)[:80])
        if 'is_generic_sequence(%s)' % rt in gt:
            it = _iter_var_over(c, '%s.value' % node)
            good = it is not None and isinstance(it[1], ast.Name) and norm(a0) == it[1].id \
                and f.alpha.text(a1) == f.alpha.text(ast.parse('generic_type_args(%s)[0]' % rt, mode='eval').body) and _stored_back(f, c, it[0], node)
            r.check(good, 'sequence arm: every item of %s.value is processed with generic_type_args(%s)[0] and stored back'
                    % (node, rt), f.key('seq-arm:%s' % norm(c)), f.loc(c),
                    'sequence arm does not process every item with the item type / does not store it back')
            seq_ok = seq_ok or good
        elif 'is_generic_mapping(%s)' % rt in gt:
            it = _iter_var_over(c, '%s.value' % node)
            if it is not None and isinstance(it[1], ast.Tuple) and len(it[1].elts) == 2 \
                    and all(isinstance(x, ast.Name) for x in it[1].elts) and _stored_back(f, c, it[0], node):
                kn, vn = it[1].elts[0].id, it[1].elts[1].id
                if norm(a0) == kn:
                    good = f.alpha.text(a1) == f.alpha.text(ast.parse('generic_type_args(%s)[0]' % rt, mode='eval').body) and _pair_position(c) == 0
                    r.check(good, 'mapping arm: every key is processed with the key type', f.key('map-arm-key'), f.loc(c),
                            'mapping key is processed with %s / stored in the wrong position' % norm(a1))
                    map_k = map_k or good
                    continue
                if norm(a0) == vn:
                    good = f.alpha.text(a1) == f.alpha.text(ast.parse('generic_type_args(%s)[1]' % rt, mode='eval').body) and _pair_position(c) == 1
                    r.check(good, 'mapping arm: every value is processed with the value type', f.key('map-arm-value'),
                            f.loc(c), 'mapping value is processed with %s / stored in the wrong position' % norm(a1))
                    map_v = map_v or good
                    continue
            r.fail(f.key('map-arm:%s' % norm(c)), f.loc(c), 'mapping arm recursion is not a whole-collection rebuild of '
                   '%s.value from processed (key, value) pairs' % node)
        elif any(t.startswith('%s in self._registered_classes' % rt) for t in gt):
            good = _class_arm_ok(f, c, rt, node)
            r.check(good, 'class arm: for every class_subobjects(%s) triple whose name is present the attribute node is '
                    'processed with the triple\'s type and stored back under the same name' % rt,
                    f.key('class-arm:%s' % norm(c)), f.loc(c),
                    'class arm does not process each present attribute with its declared type / does not store it back')
            cls_ok = cls_ok or good
            # an attribute that the loop itself brings into being under the parameter's name (a key renamed to it, a value set under
            # it) is present from then on: the processing of that attribute has to come after it in the same iteration
            for lo_ in [l_ for l_ in enclosing_loops(c, f.node) if isinstance(l_, ast.For)][:1]:
                name_vars = {x.id for x in ast.walk(lo_.target) if isinstance(x, ast.Name)}
                head = f.nid(lo_.iter)
                for w_ in [n_ for n_ in ast.walk(lo_) if isinstance(n_, ast.Call) and isinstance(n_.func, ast.Attribute)
                           and n_.func.attr in ('rename_attribute', 'set_attribute') and n_ is not parent(c)
                           and not any(x_ is c for x_ in ast.walk(n_))]:
                    made = w_.args[1] if w_.func.attr == 'rename_attribute' and len(w_.args) == 2 else w_.args[0] if w_.args else None
                    if not (isinstance(made, ast.Name) and made.id in name_vars) or f.nid(w_) is None:
                        continue
                    after = f.cfg.reachable(f.nid(w_), avoid={head} if head is not None else frozenset())
                    r.check(f.nid(c) in after, 'class arm: an attribute made present by %s is processed afterwards' % norm(w_)[:40],
                            f.key('class-arm:made-present-unprocessed:%s' % w_.func.attr), f.loc(w_),
                            '%s makes the attribute present, but within the same iteration the processing of that attribute cannot be '
                            'reached any more: the value is never recognised against the declared type nor retagged (a bool where an '
                            'int is declared reaches __init__)' % norm(w_)[:60])
        else:
            r.fail(f.key('unguarded-recursion:%s' % norm(c)), f.loc(c),
                   'recursive __process_node call outside the sequence/mapping/class arms (guards: %s)' % sorted(gt))
    for name, flag in (('sequence', seq_ok), ('mapping-key', map_k), ('mapping-value', map_v), ('class', cls_ok)):
        if not flag and not any(name.split('-')[0][:3] in x.construct for x in r.findings):
            r.fail(f.key('missing-arm:%s' % name), f.loc(), 'no recursion into %s children: they keep their document '
                   'tag and raw value' % name)
    r.done()
    return rt


def _settled_wrapper(c: ast.Call) -> ast.AST:
    """`x if T in scalar_type_to_tag else self.__process_node(x, T)`: a child whose declared type is a built-in scalar has been
    recognised as exactly that scalar already - processing it again would recognise it again and write the tag it has.  The
    conditional expression as a whole stands for the call (only with this very table and the call's own two arguments)."""
    p = parent(c)
    if isinstance(p, ast.IfExp) and p.orelse is c and len(c.args) == 2 and norm(p.body) == norm(c.args[0]) \
            and isinstance(p.test, ast.Compare) and len(p.test.ops) == 1 and isinstance(p.test.ops[0], ast.In) \
            and norm(p.test.left) == norm(c.args[1]) and norm(p.test.comparators[0]) == 'scalar_type_to_tag':
        return p
    if isinstance(p, ast.IfExp) and p.body is c and len(c.args) == 2 and norm(p.orelse) == norm(c.args[0]) \
            and isinstance(p.test, ast.Compare) and len(p.test.ops) == 1 and isinstance(p.test.ops[0], ast.NotIn) \
            and norm(p.test.left) == norm(c.args[1]) and norm(p.test.comparators[0]) == 'scalar_type_to_tag':
        return p
    return c


def _pair_position(c: ast.Call) -> Optional[int]:
    c = _settled_wrapper(c)
    p = parent(c)
    if isinstance(p, ast.Tuple) and len(p.elts) == 2:
        return 0 if p.elts[0] is c else 1
    return None


def _stored_back(f: Fn, c: ast.Call, construct: ast.AST, node: str) -> bool:
    """the rebuilt collection is assigned to node.value (comprehension form) or elements are stored in place"""
    if isinstance(construct, (ast.ListComp, ast.GeneratorExp)):
        # the comprehension's element is the call (or the pair containing it)
        elt = construct.elt
        c = _settled_wrapper(c)
        if isinstance(construct, ast.GeneratorExp):
            # a bare generator stored as node.value is consumed by the first pass over it (PyYAML's constructor, a second reference
            # through an alias, a later transform): it must be materialised
            p_ = parent(construct)
            if not (isinstance(p_, ast.Call) and call_name(p_) in ('list', 'tuple') and p_.args and p_.args[0] is construct):
                return False
        if not (elt is c or (isinstance(elt, ast.Tuple) and any(x is c for x in elt.elts))):
            return False
        st = enclosing_stmt(construct)
        v = st.value if isinstance(st, ast.Assign) else None
        if isinstance(v, ast.Call) and call_name(v) == 'list' and v.args and v.args[0] is construct:
            v = construct
        return isinstance(st, ast.Assign) and v is construct and any(norm(t) == '%s.value' % node for t in st.targets)
    if isinstance(construct, ast.For):
        # in-place store node.value[i] = <call or pair>, or append to a list later assigned to node.value
        st = enclosing_stmt(c)
        if isinstance(st, ast.Assign) and any(isinstance(t, ast.Subscript) and norm(t.value) == '%s.value' % node
                                              for t in st.targets):
            return True
        if isinstance(st, ast.Expr) and isinstance(st.value, ast.Call) and call_name(st.value) == 'append' \
                and isinstance(st.value.func, ast.Attribute) and isinstance(st.value.func.value, ast.Name):
            lst = st.value.func.value.id
            for n in f.walk():
                if isinstance(n, ast.Assign) and any(norm(t) == '%s.value' % node for t in n.targets) \
                        and norm(n.value) == lst:
                    return True
        if isinstance(st, ast.Assign) and len(st.targets) == 1 and isinstance(st.targets[0], ast.Name):
            # new_x = self.__process_node(...); later appended / stored
            v = st.targets[0].id
            for n in ast.walk(construct):
                if isinstance(n, ast.Call) and call_name(n) == 'append' and any(v in norm(a) for a in n.args):
                    return True
                if isinstance(n, ast.Assign) and any(isinstance(t, ast.Subscript) and norm(t.value) == '%s.value' % node
                                                     for t in n.targets) and v in norm(n.value):
                    return True
    return False


def _class_arm_ok(f: Fn, c: ast.Call, rt: str, node: str) -> bool:
    loops = [l for l in enclosing_loops(c, f.node) if isinstance(l, ast.For)]
    for l in loops:
        # the triples may have been materialised first (`attrs = list(class_subobjects(T))`): same elements, same order
        it_ = f.alpha.rewrite(l.iter) if isinstance(l.iter, ast.Name) else l.iter
        while isinstance(it_, ast.Call) and isinstance(it_.func, ast.Name) and it_.func.id in ('list', 'tuple') and len(it_.args) == 1 \
                and not it_.keywords:
            it_ = it_.args[0]
        if isinstance(it_, ast.Call) and call_name(it_) == 'class_subobjects' and it_.args \
                and f.alpha.text(it_.args[0]) == f.alpha.text(ast.Name(rt, ast.Load())) and whole_collection_loop(l) \
                and isinstance(l.target, ast.Tuple) and len(l.target.elts) == 3:
            name_v, type_v = norm(l.target.elts[0]), norm(l.target.elts[1])
            if norm(c.args[1]) != type_v:
                return False
            # arg0 = <sub>.yaml_node with sub = W.get_attribute(name_v), W = Node(node); guarded by W.has_attribute(name_v)
            a0 = f.copies.expand(c.args[0])
            txt = norm(a0)
            # loop-local single assignments are not propagated by Copies (inside a loop): resolve by hand
            sub = c.args[0]
            if isinstance(sub, ast.Attribute) and sub.attr == 'yaml_node' and isinstance(sub.value, ast.Name):
                subname = sub.value.id
                rhs = [x for x in assigned_from(f, subname)]
                getters = [x for x in rhs if isinstance(x, ast.Call) and call_name(x) == 'get_attribute'
                           and x.args and norm(x.args[0]) == name_v]
                if not getters:
                    return False
                w = norm(getters[0].func.value)
            elif isinstance(sub, ast.Attribute) and sub.attr == 'yaml_node' and isinstance(sub.value, ast.Call) \
                    and call_name(sub.value) == 'get_attribute' and norm(sub.value.args[0]) == name_v:
                w = norm(sub.value.func.value)
            else:
                return False
            wr = [norm(x) for x in assigned_from(f, w)] if w.isidentifier() else [w]
            if not any(x == 'Node(%s)' % node for x in wr):
                return False
            if not f.has_guard(c, '%s.has_attribute(%s)' % (w, name_v), True, expand=False):
                return False
            # ... and by nothing else inside the loop: every present attribute is processed, whatever its type
            cn = f.nid(c)
            extra = []
            for b in (f.cfg.guard_nodes(cn) if cn is not None else []):
                if isinstance(b.ast, ast.BoolOp) or not any(x is l for x in _ancestors_list(b.ast)):
                    continue
                t, pol = f.alpha.atom(b.ast, b.pol)
                if pol and (t.endswith('.has_attribute(%s)' % f.alpha.text(l.target.elts[0]))
                            or (t.startswith('isinstance(%s, ' % node) and 'MappingNode' in t)):
                    continue
                extra.append(('' if pol else 'not ') + t)
            if extra:
                f._class_arm_extra = extra
                return False
            # stored back
            st = enclosing_stmt(c)
            res = st.targets[0].id if isinstance(st, ast.Assign) and isinstance(st.targets[0], ast.Name) else None
            for n in ast.walk(l):
                if isinstance(n, ast.Call) and call_name(n) == 'set_attribute' and len(n.args) == 2 \
                        and norm(n.args[0]) == name_v and norm(n.func.value) == w \
                        and (norm(n.args[1]) == res or n.args[1] is c):
                    sn, cn = f.nid(n), f.nid(c)
                    if sn is not None and cn is not None and (f.cfg.dominates(cn, sn) or sn == cn):
                        return True
            return False
    return False


def type_to_tag_table(ctx, r=None) -> Dict[str, str]:
    """kind -> tag expression written by Loader.__type_to_tag, from its returns and their guards"""
    P = ctx.P
    f = fn(P, 'yatiml.loader:Loader.__type_to_tag')
    p = f.fi.params[1]
    want = {
        'scalar': ('%s in scalar_type_to_tag' % p, 'scalar_type_to_tag[%s]' % p),
        'sequence': ('is_generic_sequence(%s)' % p, repr(CORE + 'seq')),
        'mapping': ('is_generic_mapping(%s)' % p, repr(CORE + 'map')),
        'registered': ('%s in self._registered_classes.values()' % p, repr('!<%s.__name__>' % p)),
        'additional': ('%s in self._additional_classes' % p, 'self._additional_classes[%s]' % p),
    }
    table = {}
    for ret in f.returns():
        if ret.value is None:
            continue
        s = str_format_const(ret.value)
        val = repr(s) if s is not None else norm(ret.value)
        gts = {norm(g) for g, pol in f.guards(ret) if pol}
        for kind, (guard, _) in want.items():
            if guard in gts:
                table[kind] = val
    if r is not None:
        for kind, (guard, expect) in want.items():
            r.check(table.get(kind) == expect, '__type_to_tag: %s -> %s under %s' % (kind, expect, guard),
                    f.key('kind:%s' % kind), f.loc(),
                    '__type_to_tag maps a %s type to %s (expected %s under guard %s)' % (kind, table.get(kind), expect, guard))
        # what happens for a type of no supported kind is outside the property (model error): informational only
        if f.falls_off_end():
            ctx.notes.append('__type_to_tag can fall off its end for a type of no supported kind (tag None -> PyYAML ConstructorError)')
    return table


def r01_4_retag(ctx, rid='R01.4'):
    P = ctx.P
    r = ctx.rule(rid, 'every normal exit of __process_node passes strip_tags (type Any) or the store '
                      'node.tag = __type_to_tag(recognised type); __type_to_tag maps each kind to its tag', floor=8)
    f = fn(P, PN)
    S, _, _ = recognise_targets(f)
    rt = _extracted_var(f, S)
    node = f.fi.params[1]
    marks: Set[int] = set()
    n_strip = n_store = 0
    for n in f.walk():
        if isinstance(n, ast.Call) and call_name(n) == 'strip_tags' and len(n.args) == 2 and norm(n.args[1]) == node \
                and norm(n.args[0]) == 'self':
            if f.has_guard(n, '%s is Any' % rt) or f.has_guard(n, '%s == Any' % rt):
                marks.add(f.nid(n))
                n_strip += 1
        if isinstance(n, ast.Assign) and any(norm(t) == '%s.tag' % node for t in n.targets) \
                and norm(n.value) == 'self.__type_to_tag(%s)' % rt:
            marks.add(f.nid(n))
            n_store += 1
    r.check(n_strip >= 1, 'strip_tags(self, %s) under `%s is Any`' % (node, rt), f.key('strip-under-any'), f.loc(),
            'a node recognised as Any is not stripped of tags: tags below it would select constructors')
    r.check(n_store >= 1, '%s.tag = self.__type_to_tag(%s)' % (node, rt), f.key('retag-store'), f.loc(),
            'the node is never retagged with the tag of the recognised type')
    # the Any test must not be weakened: the store must not be skipped for non-Any types
    for ret in f.returns():
        rn = f.nid(ret)
        ok = f.cfg.must_pass(f.cfg.entry, rn, marks)
        r.check(ok, 'return at %s is preceded by strip/retag on every path' % f.loc(ret), f.key('exit-without-retag'),
                f.loc(ret), 'a path reaches `return` without retagging or stripping the node: it keeps its document tag')
        r.check(isinstance(ret.value, ast.Name) and ret.value.id == node, 'the processed node itself is returned',
                f.key('returns-node'), f.loc(ret), '__process_node returns %s, not the processed node'
                % (norm(ret.value) if ret.value else None))
    # stores to node.tag other than the retag (and the guarded tag checks) must not follow the retag
    for n in f.walk():
        if isinstance(n, ast.Assign) and any(norm(t) == '%s.tag' % node for t in n.targets) \
                and norm(n.value) != 'self.__type_to_tag(%s)' % rt:
            # an intermediate tag is harmless iff the retag (or strip) still follows on every path to an exit
            sn = f.nid(n)
            later = all(f.cfg.must_pass(sn, rn, marks - {sn}) for rn in f.cfg.returns() if rn in f.cfg.reachable(sn))
            r.check(later, 'intermediate tag store %s is overwritten by the retag before every exit' % norm(n.value),
                    f.key('foreign-tag-store:%s' % norm(n.value)), f.loc(n),
                    '__process_node writes %s to the node tag and can return without overwriting it with the tag of the '
                    'recognised type' % norm(n.value))
    type_to_tag_table(ctx, r)
    r.done()


def scalar_table(P: Program) -> Dict[str, str]:
    m = P.module('yatiml.util')
    if 'scalar_type_to_tag' not in m.constants or not isinstance(m.constants['scalar_type_to_tag'], ast.Dict):
        raise AnalysisError('anchor missing: dict literal yatiml.util.scalar_type_to_tag')
    d = m.constants['scalar_type_to_tag']
    out = {}
    for k, v in zip(d.keys, d.values):
        s = const_str(v)
        if s is None:
            raise AnalysisError('scalar_type_to_tag has a non-constant tag')
        out[norm(k)] = s
    return out


SCALAR_REFERENCE = {'str': 'str', 'int': 'int', 'float': 'float', 'bool': 'bool', 'bool_union_fix': 'bool',
                    'None': 'null', 'type(None)': 'null', 'date': 'timestamp'}


def safe_constructor_tags(P: Program) -> Dict[str, str]:
    m = P.module('yaml.constructor')
    out = {}
    for st in m.tree.body:
        if isinstance(st, ast.Expr) and isinstance(st.value, ast.Call) and call_name(st.value) == 'add_constructor' \
                and norm(st.value.func.value) == 'SafeConstructor' and len(st.value.args) == 2:
            t = const_str(st.value.args[0])
            out[t if t is not None else 'None'] = norm(st.value.args[1])
    if len(out) < 8:
        raise AnalysisError('SafeConstructor registrations not found in yaml/constructor.py')
    return out


def r01_5_scalar(ctx):
    P = ctx.P
    r = ctx.rule('R01.5', 'built-in scalars are recognised only on the exact tag of scalar_type_to_tag; the dispatch '
                          'tuple, the table and PyYAML\'s constructor table agree', floor=10)
    f = fn(P, REC + '__recognize_scalar')
    node, et = f.fi.params[1], f.fi.params[2]
    n_acc = 0
    for ret in f.returns():
        v = verdict(ret)
        if v is None:
            r.fail(f.key('return-shape'), f.loc(ret), 'unexpected return shape %s' % norm(ret))
            continue
        sk, s, ek, e = v
        if sk == 'EMPTY':
            continue
        n_acc += 1
        g = f.guards(ret)
        allowed, _ = tag_equalities(g, '%s.tag' % node, f.copies)
        ok = known_instance(g, node, {'ScalarNode'}) and allowed == {'scalar_type_to_tag[%s]' % et} \
            and sk == 'ONE' and norm(s.elts[0]) == et
        r.check(ok, 'ACCEPT {%s} only under isinstance(%s, ScalarNode) and %s.tag == scalar_type_to_tag[%s]'
                % (et, node, node, et), f.key('accept'), f.loc(ret),
                'scalar ACCEPT is not restricted to ScalarNode with the exact tag of the expected type '
                '(guards: %s)' % f.guard_texts(ret))
    if n_acc == 0:
        r.fail(f.key('no-accept'), f.loc(), '__recognize_scalar never accepts')
    # dispatch tuple == table keys
    table = scalar_table(P)
    rec = fn(P, REC + 'recognize')
    et2 = rec.fi.params[2]
    disp = None
    # the dispatch may go through a local (`recognize_as = self.__recognize_scalar` ... `recognize_as(node, t)`): the condition
    # under which the scalar recogniser is *selected* is what counts
    sel = [n for n in rec.walk() if isinstance(n, ast.Assign) and isinstance(n.value, ast.Attribute)
           and n.value.attr.endswith('__recognize_scalar')]
    for c in list(rec.calls('__recognize_scalar')) + sel:
        for g, pol in rec.guards(c):
            if pol and isinstance(g, ast.Compare) and len(g.ops) == 1 and isinstance(g.ops[0], ast.In) \
                    and norm(g.left) == et2 and isinstance(g.comparators[0], (ast.Tuple, ast.List, ast.Set)):
                disp = {norm(x) for x in g.comparators[0].elts}
            elif pol and isinstance(g, ast.Compare) and isinstance(g.ops[0], ast.In) and norm(g.left) == et2 \
                    and norm(g.comparators[0]) == 'scalar_type_to_tag':
                disp = set(table)
    if disp is None:
        r.fail(rec.key('scalar-dispatch'), rec.loc(), 'recognize() has no `expected_type in (...)` dispatch to '
               '__recognize_scalar')
    else:
        r.check(disp == set(table), 'dispatch tuple %s == keys(scalar_type_to_tag)' % sorted(disp),
                rec.key('scalar-dispatch-set'), rec.loc(),
                'scalar dispatch %s and scalar_type_to_tag keys %s differ: %s' % (
                    sorted(disp), sorted(table), sorted(disp ^ set(table))))
    ctors = safe_constructor_tags(P)
    for k, tag in sorted(table.items()):
        ref = SCALAR_REFERENCE.get(k)
        r.check(ref is not None and tag == CORE + ref and tag in ctors,
                'scalar_type_to_tag[%s] = %s (core schema; SafeConstructor has %s)' % (k, tag, ctors.get(tag)),
                'yatiml.util:scalar_type_to_tag:%s' % k, 'yatiml/util.py',
                'scalar_type_to_tag[%s] = %r, expected %r with a SafeConstructor registration' % (
                    k, tag, CORE + ref if ref else None))
    r.check(set(table) == set(SCALAR_REFERENCE), 'table covers exactly the supported scalar types',
            'yatiml.util:scalar_type_to_tag:keys', 'yatiml/util.py',
            'scalar_type_to_tag keys changed: %s' % sorted(set(table) ^ set(SCALAR_REFERENCE)))
    r.done()


# =====================================================================================================
# helpers for path-sensitive "arm" obligations
# =====================================================================================================

def branch_nodes(f: Fn, pred) -> Set[int]:
    """ids of live branch nodes whose conjunctive atoms satisfy pred(atoms)"""
    live = f.cfg.live()
    return {b.id for b in f.cfg.nodes if b.kind == 'branch' and b.id in live and pred(conj_atoms(b.ast, b.pol))}


def atom_is(atoms, text: str, pol: bool, copies: Optional[Copies] = None) -> bool:
    """is the condition `text` known to be `pol`?  Compared in canonical form: `x not in y` being False is `x in y` being True"""
    want = canon_atom(ast.parse(text, mode='eval').body, pol)
    for g, p in atoms:
        if canon_atom(g, p) == want or (copies is not None and canon_atom(copies.expand(g), p) == want):
            return True
    return False


def est_instance(node: str, classes: Set[str]):
    return lambda atoms: known_instance(atoms, node, classes)


def est_tag_within(node_tag: str, allowed: Set[str], copies=None):
    def p(atoms):
        a, _ = tag_equalities(atoms, node_tag, copies)
        return a is not None and a <= allowed and len(a) > 0
    return p


def innermost_loop(n: ast.AST, fn_node: ast.AST) -> Optional[ast.AST]:
    c = n
    p = parent(n)
    while p is not None and p is not fn_node:
        if isinstance(p, (ast.For, ast.While)) and any(c is s for s in p.body):
            return p
        c, p = p, parent(p)
    return None


def breaks_of(loop: ast.AST, fn_node: ast.AST) -> List[ast.AST]:
    return [n for st in loop.body for n in ast.walk(st)
            if isinstance(n, ast.Break) and innermost_loop(n, fn_node) is loop]


def accept_returns(f: Fn) -> List[Tuple[ast.Return, tuple]]:
    out = []
    for ret in f.returns():
        v = verdict(ret)
        if v is not None and v[0] != 'EMPTY':
            out.append((ret, v))
    return out


def nonempty_branches(f: Fn, var: str, exactly: bool = False) -> Set[int]:
    """branch nodes on which len(var) == 0 is excluded; exactly: ... and nothing else is (the branch is taken for *every* non-empty
    value: `if v:`, `len(v) > 0`, `len(v) != 0` - not `len(v) == 1`, which also excludes the ambiguous verdicts)"""
    out = set()
    live = f.cfg.live()
    for b in f.cfg.nodes:
        if b.kind != 'branch' or b.id not in live:
            continue
        t = card_truth(b.ast, name_subject(var))
        if t is None:
            continue
        adm = t if b.pol else (set((0, 1, 2, 3)) - t)
        if 0 not in adm and (not exactly or adm >= {1, 2, 3}):
            out.add(b.id)
    return out


def empty_branches(f: Fn, var: str) -> Set[int]:
    out = set()
    live = f.cfg.live()
    for b in f.cfg.nodes:
        if b.kind != 'branch' or b.id not in live:
            continue
        t = card_truth(b.ast, name_subject(var))
        if t is None:
            continue
        adm = t if b.pol else (set((0, 1, 2, 3)) - t)
        if adm == {0}:
            out.add(b.id)
    return out


# =====================================================================================================
# C02
# =====================================================================================================

CTOR = 'yatiml.constructors:Constructor.'


def r02_1_deep(ctx):
    P = ctx.P
    r = ctx.rule('R02.1', 'Constructor.__call__ builds the attribute mapping bottom-up: construct_mapping(node, deep=True) '
                          'after the yield', floor=2)
    f = fn(P, CTOR + '__call__')
    node = f.fi.params[2]
    calls = [c for c in f.calls('construct_mapping') if f.live(c)]
    if not calls:
        r.fail(f.key('no-construct-mapping'), f.loc(), 'Constructor.__call__ never calls construct_mapping')
    yields = [n for n in f.walk() if isinstance(n, (ast.Yield, ast.YieldFrom))]
    for c in calls:
        d = kwarg(c, 'deep')
        if d is None and len(c.args) > 1:
            d = c.args[1]
        r.check(isinstance(d, ast.Constant) and d.value is True and norm(c.args[0]) == node,
                'construct_mapping(%s, deep=True)' % node, f.key('construct_mapping-deep'), f.loc(c),
                'construct_mapping is called with deep=%s: nested objects are constructed lazily and __init__ receives '
                'empty lists / uninitialised sub-objects' % (norm(d) if d is not None else 'False (default)'))
        yn = [f.nid(y) for y in yields]
        r.check(any(y is not None and f.cfg.dominates(y, f.nid(c)) for y in yn),
                'the mapping is constructed after the incomplete object was yielded', f.key('yield-before-construct'),
                f.loc(c), 'construct_mapping does not follow the yield of the new object')
    r.done()


def _subobjects_fn(P: Program) -> Fn:
    """the function that yields the (name, type, required) triples: class_subobjects itself, or a helper of the same module that it
    delegates to (`yield from helper(class_)`, `list(helper(class_))`)"""
    f = fn(P, 'yatiml.introspection:class_subobjects')
    seen = set()
    while f.fi.key not in seen:
        seen.add(f.fi.key)
        if any(isinstance(n, ast.Yield) and isinstance(n.value, ast.Tuple) and len(n.value.elts) == 3 for n in f.walk()):
            return f
        nxt = None
        for c in f.walk():
            if isinstance(c, ast.Call) and isinstance(c.func, ast.Name) and c.func.id in f.fi.module.functions \
                    and c.func.id != f.fi.name:
                g = fn(P, 'yatiml.introspection:' + c.func.id)
                if any(isinstance(n, ast.Yield) for n in g.walk()):
                    nxt = g
        if nxt is None:
            break
        f = nxt
    raise AnalysisError('anchor missing: the generator of (name, type, required) triples behind class_subobjects')


def class_subobjects_skips(P: Program) -> Tuple[Optional[Set[str]], str]:
    """literal names that class_subobjects skips; None if a skip condition is not a literal equality"""
    f = _subobjects_fn(P)
    skips: Set[str] = set()
    ys = [n for n in f.walk() if isinstance(n, ast.Yield) and isinstance(n.value, ast.Tuple) and len(n.value.elts) == 3]
    loops = [lo for y in ys for lo in enclosing_loops(y, f.node) if isinstance(lo, ast.For)]
    loops = [lo for lo in loops if 'getfullargspec(' in f.alpha.text(lo.iter) and '.args' in f.alpha.text(lo.iter)]
    if not loops:
        raise AnalysisError('anchor missing: loop over argspec.args in class_subobjects')
    loop = loops[0]
    tgt = loop.target
    var = tgt.elts[1].id if isinstance(tgt, ast.Tuple) else tgt.id
    # form 2: the loop ranges over a filtered copy of the names: [n for n in ARGS if n not in ('self', ..)]
    it = loop.iter
    while isinstance(it, ast.Call) and isinstance(it.func, ast.Name) and it.func.id in ('enumerate', 'list', 'tuple') and it.args:
        it = it.args[0]
    srcs = [it]
    if isinstance(it, ast.Name):
        srcs = [d.value for d in reaching_defs(f, loop.iter, it.id)] or [it]
    for s_ in srcs:
        if isinstance(s_, (ast.ListComp, ast.GeneratorExp)) and len(s_.generators) == 1:
            g = s_.generators[0]
            if norm(s_.elt) != norm(g.target):
                return None, 'the names are transformed by %s' % norm(s_)[:60]
            for cond in g.ifs:
                a, ex = tag_equalities(conj_atoms(cond, True), norm(g.target))
                if ex and not a:
                    for x in ex:
                        try:
                            skips.add(ast.literal_eval(x))
                        except Exception:
                            return None, 'non-literal filter %s' % x
                else:
                    return None, 'filter `%s` is not an exclusion of literal names' % norm(cond)
    for n in ast.walk(loop):
        if isinstance(n, ast.Continue):
            # guards that arise inside the loop
            ok = False
            for b in f.cfg.guard_nodes(f.nid(n)):
                if not any(x is loop for x in _ancestors_list(b.ast)):
                    continue
                a, ex = tag_equalities(conj_atoms(b.ast, b.pol), var)
                if a:
                    for x in a:
                        try:
                            skips.add(ast.literal_eval(x))
                        except Exception:
                            return None, 'non-literal skip %s' % x
                    ok = True
                elif ex:
                    continue    # an earlier skip test that was not taken
                else:
                    return None, 'skip condition `%s` is not an equality with a literal name' % norm(b.ast)
            if not ok:
                return None, 'unconditional continue'
    # yields must be unconditional apart from the skips
    for n in ast.walk(loop):
        if isinstance(n, ast.Yield):
            for b in f.cfg.guard_nodes(f.nid(n)):
                if any(x is loop for x in _ancestors_list(b.ast)):
                    a, ex = tag_equalities(conj_atoms(b.ast, b.pol), var)
                    if not (ex and not a):
                        return None, 'yield is guarded by `%s`' % norm(b.ast)
                    # form 3: the yield sits under `name not in ('self', ..)` / `name != 'self'`: those names are skipped
                    for x in ex:
                        try:
                            skips.add(ast.literal_eval(x))
                        except Exception:
                            return None, 'non-literal exclusion %s' % x
    return skips, 'ok'


def r02_9_requiredness(ctx, rid='R02.9'):
    """required iff the parameter has no default: its position in the *full* argument list lies before len(args) - len(defaults)"""
    P = ctx.P
    r = ctx.rule(rid, 'class_subobjects reports a parameter as required iff it has no default: the index compared is the position in '
                      'the full __init__ argument list, the bound is len(that list) - number of defaults', floor=1)
    f = _subobjects_fn(P)
    ys = [n for n in f.walk() if isinstance(n, ast.Yield) and isinstance(n.value, ast.Tuple) and len(n.value.elts) == 3]
    for y in ys:
        c = f.alpha.rewrite(y.value.elts[2])
        ok = False
        why = 'the third component is %s' % norm(c)[:100]
        if isinstance(c, ast.Compare) and len(c.ops) == 1 and isinstance(c.ops[0], ast.Lt):
            left, right = norm(c.left), norm(c.comparators[0])
            if left.startswith('<each:enumerate(') and left.endswith(')>[0]'):
                X = left[len('<each:enumerate('):-len(')>[0]')]
                if X.endswith('.args') and 'getfullargspec(' in X and 'for ' not in X:
                    if ('len(%s)' % X) in right and '.defaults' in right and right.startswith('len(%s) - ' % X):
                        ok = True
                    else:
                        why = 'the bound %s is not len(<all arguments>) - <number of defaults>' % right[:100]
                else:
                    why = 'the index runs over %s, not over the full argument list: with a filtered list the defaults are counted ' \
                          'against the wrong positions (a defaulted _yatiml_extra makes the last required parameter optional)' % X[:80]
        r.check(ok, 'required = position in argspec.args < len(argspec.args) - len(defaults)', f.key('requiredness'), f.loc(y), why)
    if not ys:
        r.fail(f.key('requiredness'), f.loc(), 'no (name, type, required) triple is yielded')
    r.done()


def _ancestors_list(n):
    out = []
    p = parent(n)
    while p is not None:
        out.append(p)
        p = parent(p)
    return out


def _list_provenance(f: Fn, e: ast.AST, source: str, seen: Set[str]):
    """(constants removed, '') when the collection `e` is the parameter `source` minus some literal names, whatever the spelling:
    copies (list()/set()/tuple()/.copy()/[:]), filtering comprehensions, set difference, `.remove(c)` / `.discard(c)` executed
    whenever c is present.  (None, reason) otherwise."""
    from ..dictflow import cond_truth, K
    from ..dtable import subst
    if isinstance(e, ast.Name) and e.id == source:
        return set(), ''
    if not isinstance(e, ast.Name) and f.copies.xnorm(e) == source:
        return set(), ''
    if isinstance(e, ast.Name) and e.id not in f.fi.params and not assigned_from(f, e.id):
        pass
    elif isinstance(e, ast.Name) and f.copies.xnorm(e) == source and f.copies.xnorm(e) != e.id:
        return set(), ''
    if isinstance(e, ast.Call) and isinstance(e.func, ast.Name) and e.func.id in ('list', 'set', 'tuple', 'frozenset') and len(e.args) == 1 \
            and not e.keywords:
        return _list_provenance(f, e.args[0], source, seen)
    if isinstance(e, ast.Call) and isinstance(e.func, ast.Attribute) and e.func.attr == 'copy' and not e.args:
        return _list_provenance(f, e.func.value, source, seen)
    if isinstance(e, ast.Subscript) and isinstance(e.slice, ast.Slice) and e.slice.lower is None and e.slice.upper is None and e.slice.step is None:
        return _list_provenance(f, e.value, source, seen)
    if isinstance(e, (ast.ListComp, ast.SetComp, ast.GeneratorExp)) and len(e.generators) == 1 \
            and isinstance(e.generators[0].target, ast.Name) and norm(e.elt) == e.generators[0].target.id:
        g = e.generators[0]
        inner, why = _list_provenance(f, g.iter, source, seen)
        if inner is None:
            return None, why
        out = set(inner)
        for cond in g.ifs:
            c2 = subst(cond, {g.target.id: ast.Name(K, ast.Load())})
            consts = {x.value for x in ast.walk(c2) if isinstance(x, ast.Constant) and isinstance(x.value, str)}
            if cond_truth(c2, '\x00other', {}) is not True:
                return None, 'unsupported filter %s' % norm(cond)
            for c in consts:
                t = cond_truth(c2, c, {})
                if t is None:
                    return None, 'unsupported filter %s' % norm(cond)
                if t is False:
                    out.add(c)
        return out, ''
    if isinstance(e, ast.BinOp) and isinstance(e.op, ast.Sub) and isinstance(e.right, (ast.Set, ast.Tuple, ast.List)) \
            and all(const_str(x) is not None for x in e.right.elts):
        inner, why = _list_provenance(f, e.left, source, seen)
        return (None, why) if inner is None else (inner | {const_str(x) for x in e.right.elts}, '')
    if isinstance(e, ast.Name):
        name = e.id
        if name in seen:
            return None, 'circular definition of %s' % name
        srcs = assigned_from(f, name)
        if not srcs:
            return None, '%s is not bound in the function' % name
        out = None
        for s_ in srcs:
            got, why = _list_provenance(f, s_, source, seen | {name})
            if got is None:
                return None, why
            if out is not None and got != out:
                return None, '%s is bound to different collections' % name
            out = got
        for n in f.walk():
            if isinstance(n, ast.Call) and isinstance(n.func, ast.Attribute) and norm(n.func.value) == name:
                if n.func.attr in ('remove', 'discard') and n.args and const_str(n.args[0]) is not None:
                    # counts only when it is executed whenever the name is in the list: live, and guarded by nothing
                    # but the membership test for the same name (or an earlier raise for its absence)
                    c0 = const_str(n.args[0])
                    # a guard whose other branch always raises (`if 'self' not in L: raise ..`) does not make the removal conditional
                    gs = {canon_atom(x.ast, x.pol) for x in f.cfg.guard_nodes(f.nid(n)) if not _other_branch_raises(x.ast, x.pol)}
                    aliases = {name} | {norm(x) for x in srcs if isinstance(x, ast.Name)}
                    if f.live(n) and all(p and any(t == ("%r in %s" % (c0, al)) for al in aliases | _copies_of(f, name)) for t, p in gs):
                        out = out | {c0}
                    else:
                        return None, '%s happens only under %s' % (norm(n), sorted(t for t, _ in gs))
                elif n.func.attr in MUTATORS:
                    return None, 'known-keys list mutated by %s' % norm(n)
        return out, ''
    return None, 'known-keys collection built from %s' % norm(e)[:60]


def _always_raises(stmts) -> bool:
    if not stmts:
        return False
    last = stmts[-1]
    if isinstance(last, ast.Raise):
        return True
    if isinstance(last, ast.If):
        return _always_raises(last.body) and _always_raises(last.orelse)
    return False


def _other_branch_raises(test: ast.AST, pol: bool) -> bool:
    """the guard `test` (held with polarity pol) belongs to an `if` whose other branch ends in raise on every path"""
    cur, st = test, parent(test)
    while isinstance(st, ast.UnaryOp) and isinstance(st.op, ast.Not):
        pol = not pol
        cur, st = st, parent(st)
    if not isinstance(st, ast.If) or st.test is not cur:
        return False
    return _always_raises(st.orelse if pol else st.body)


def _copies_of(f: Fn, name: str) -> Set[str]:
    """names of collections that `name` is a plain copy of (a membership test on the original decides membership in the copy as
    long as nothing was removed in between - used only for the guard of the first removal)"""
    out = set()
    for s_ in assigned_from(f, name):
        x = s_
        while isinstance(x, ast.Call) and isinstance(x.func, ast.Name) and x.func.id in ('list', 'set', 'tuple') and len(x.args) == 1:
            x = x.args[0]
        if isinstance(x, ast.Name):
            out.add(x.id)
            out |= _copies_of(f, x.id) if x.id != name else set()
    return out


def strip_exempt_removed(P: Program) -> Tuple[Optional[Set[str]], str, Fn]:
    """names removed from the constructor-argument list before it is used as the set exempt from tag stripping"""
    f = fn(P, CTOR + '__strip_extra_attributes')
    if len(f.fi.params) < 3:
        raise AnalysisError('anchor changed: Constructor.__strip_extra_attributes(node, known_attrs) takes %s' % f.fi.params)
    known_param = f.fi.params[2]
    # the list variable consulted by the strip guard
    strips = [c for c in f.calls('strip_tags') if f.live(c)]
    if not strips:
        return None, 'no strip_tags call', f
    removed: Set[str] = set()
    for c in strips:
        lst = None
        for g, pol in f.guards(c):
            if isinstance(g, ast.Compare) and len(g.ops) == 1 and isinstance(g.ops[0], (ast.NotIn, ast.In)) \
                    and (isinstance(g.ops[0], ast.NotIn) == pol):
                lst = g.comparators[0]
                key = g.left
        if lst is None:
            return None, 'strip_tags is not guarded by `key not in <known>`', f
        if not (isinstance(key, ast.Attribute) and key.attr == 'value'):
            return None, 'strip guard does not test the key node\'s value', f
        got, why = _list_provenance(f, lst, known_param, set())
        if got is None:
            return None, why, f
        removed |= got
    return removed, 'ok', f


def r02_2_attrset(ctx, rid='R02.2'):
    P = ctx.P
    r = ctx.rule(rid, 'one attribute set: the names exempt from tag stripping are argspec.args minus exactly what '
                      'class_subobjects skips', floor=3)
    skips, why = class_subobjects_skips(P)
    r.check(skips is not None, 'class_subobjects skips the literal names %s' % (sorted(skips) if skips else skips),
            'yatiml.introspection:class_subobjects:skip-set', 'yatiml/introspection.py',
            'class_subobjects skips parameters by a non-literal condition (%s): parameters it skips are neither '
            'recognised nor retagged, but the constructor still treats them as known and leaves their tags' % why)
    removed, why2, f = strip_exempt_removed(P)
    r.check(removed is not None, '__strip_extra_attributes exempts <what it is given> minus %s' % (sorted(removed) if removed else removed),
            f.key('exempt-set'), f.loc(), 'cannot establish the set exempt from stripping: %s' % why2)
    # the caller passes argspec.args of the class's __init__ - possibly already without some of the names (the filtering may live
    # on either side of the call): what is exempt in the end is argspec.args minus both removals
    c = fn(P, CTOR + '__call__')
    calls = [x for x in c.calls('__strip_extra_attributes') if c.live(x)]
    good = bool(calls)
    for x in calls:
        got, why3 = (None, 'wrong arity')
        # (further arguments - the loader handed in instead of being parked on self - do not concern the name list)
        if len(x.args) >= 2 and all(norm(a_) == c.fi.params[1] for a_ in x.args[2:]):
            got, why3 = _list_provenance(c, x.args[1], 'inspect.getfullargspec(self.class_.__init__).args', set())
        if got is None:
            good = False
        elif removed is not None:
            removed = removed | got
    r.check(good, '__strip_extra_attributes(node, <getfullargspec(class_.__init__).args, possibly filtered>)', c.key('strip-call-args'), c.loc(),
            'the strip step is not given the constructor\'s argument names')
    if skips is not None and removed is not None:
        r.check(skips == removed, 'skip set == removed set == %s' % sorted(skips), f.key('exempt-vs-subobjects'), f.loc(),
                'a key named %s is exempt from tag stripping but is not a type-checked attribute: its value reaches '
                'construction with document tags intact' % sorted(skips ^ removed), {'skips': sorted(skips), 'removed': sorted(removed)})
    r.done()


def _recognizer_arms(f: Fn):
    """(custom_false, enum_true, strlike_true, auto) branch node ids of __recognize_user_class"""
    et = f.fi.params[2]
    enum_t = branch_nodes(f, lambda a: atom_is(a, 'issubclass(%s, enum.Enum)' % et, True)
                          or atom_is(a, 'issubclass(%s, Enum)' % et, True))
    enum_f = branch_nodes(f, lambda a: atom_is(a, 'issubclass(%s, enum.Enum)' % et, False)
                          or atom_is(a, 'issubclass(%s, Enum)' % et, False))
    str_t = branch_nodes(f, lambda a: atom_is(a, 'is_string_like(%s)' % et, True))
    str_f = branch_nodes(f, lambda a: atom_is(a, 'is_string_like(%s)' % et, False))
    if not enum_t or not str_t or not str_f:
        raise AnalysisError('anchor missing: enum / string-like / auto arms in Recognizer.__recognize_user_class')
    return enum_t, enum_f, str_t, str_f


def r02_3_admission(ctx, rid='R02.3'):
    P = ctx.P
    r = ctx.rule(rid, 'per-kind admission: Path and string-like on str-tagged scalars, enum on str|bool scalars, '
                      'auto-recognised classes on mappings', floor=7)
    STR, BOOL = repr(CORE + 'str'), repr(CORE + 'bool')
    # Path
    f = fn(P, REC + '__recognize_additional')
    node, et = f.fi.params[1], f.fi.params[2]
    acc = accept_returns(f)
    if not acc:
        r.fail(f.key('no-accept'), f.loc(), '__recognize_additional never accepts')
    for ret, v in acc:
        g = f.guards(ret)
        a, _ = tag_equalities(g, '%s.tag' % node, f.copies)
        r.check(known_instance(g, node, {'ScalarNode'}) and a == {STR}, 'Path ACCEPT under ScalarNode and tag == str',
                f.key('accept'), f.loc(ret), 'an additional type (Path) is accepted on a node that is not a str-tagged '
                'scalar (guards: %s)' % f.guard_texts(ret))
    # user class arms
    f = fn(P, REC + '__recognize_user_class')
    node, et = f.fi.params[1], f.fi.params[2]
    enum_t, enum_f, str_t, str_f = _recognizer_arms(f)
    finals = [(ret, v) for ret, v in accept_returns(f) if not f.cfg.enclosing_handlers(ret)]
    if not finals:
        r.fail(f.key('no-accept'), f.loc(), '__recognize_user_class has no ACCEPT return outside the custom recogniser')
    sc = branch_nodes(f, est_instance(node, {'ScalarNode'}))
    mp = branch_nodes(f, est_instance(node, {'MappingNode'}))
    t_enum = branch_nodes(f, est_tag_within('%s.tag' % node, {STR, BOOL}, f.copies))
    t_str = branch_nodes(f, est_tag_within('%s.tag' % node, {STR}, f.copies))
    for ret, v in finals:
        rn = f.nid(ret)
        for a in enum_t:
            if rn in f.cfg.reachable(a):
                r.check(f.cfg.must_pass(a, rn, sc) and f.cfg.must_pass(a, rn, t_enum),
                        'enum arm: ACCEPT only for a ScalarNode tagged str or bool', f.key('enum-arm-accept'), f.loc(ret),
                        'an enum class is accepted for a node that is not a str/bool-tagged scalar')
        for a in str_t:
            if rn in f.cfg.reachable(a):
                r.check(f.cfg.must_pass(a, rn, sc) and f.cfg.must_pass(a, rn, t_str),
                        'string-like arm: ACCEPT only for a ScalarNode tagged str', f.key('stringlike-arm-accept'),
                        f.loc(ret), 'a string-like class is accepted for a node that is not a str-tagged scalar')
        for a in str_f:
            if rn in f.cfg.reachable(a) and any(f.cfg.dominates(x, a) for x in enum_f):
                r.check(f.cfg.must_pass(a, rn, mp), 'auto arm: ACCEPT only for a MappingNode', f.key('auto-arm-accept'),
                        f.loc(ret), 'an auto-recognised class is accepted for a node that is not a mapping')
        r.check(v[0] == 'ONE' and norm(v[1].elts[0]) == et, 'ACCEPT returns exactly {%s}' % et, f.key('accept-set'),
                f.loc(ret), 'ACCEPT returns %s instead of {%s}' % (norm(v[1]), et))
    # attribute loop: alternatives are exactly [name, name.replace('_', '-')], exact name first; for-else rejects when required
    outer = [n for n in f.walk() if isinstance(n, ast.For) and isinstance(n.iter, ast.Call)
             and call_name(n.iter) == 'class_subobjects' and norm(n.iter.args[0]) == et]
    if not outer:
        r.fail(f.key('no-attribute-loop'), f.loc(), 'auto arm does not iterate over class_subobjects(%s)' % et)
    for lo in outer:
        if not (isinstance(lo.target, ast.Tuple) and len(lo.target.elts) == 3):
            r.fail(f.key('attribute-loop-target'), f.loc(lo), 'unexpected loop target')
            continue
        an, tn, rq = (norm(x) for x in lo.target.elts)
        r.check(not breaks_of(lo, f.node), 'every constructor parameter is considered', f.key('attribute-loop-break'),
                f.loc(lo), 'the attribute loop can be left early: later parameters are not checked')
        inner = [n for n in lo.body if isinstance(n, ast.For)]
        want = "(%s, %s.replace('_', '-'))" % (an, an)
        alt_ok = [n for n in inner if norm(n.iter) == want]
        r.check(bool(alt_ok), 'alternatives tried: %s' % want, f.key('alternatives'), f.loc(lo),
                'the key alternatives tried for a parameter are %s, expected %s (exact name, then dashes)'
                % ([norm(n.iter) for n in inner], want))
        for il in alt_ok:
            rej = [n for st in il.orelse for n in ast.walk(st) if isinstance(n, ast.Return)]
            okrej = False
            for x in rej:
                vv = verdict(x)
                if vv and vv[0] == 'EMPTY' and vv[2] == 'ERR':
                    gts = [norm(g) for g, p in f.guards(x) if p]
                    neg = [norm(g) for g, p in f.guards(x) if not p]
                    if rq in gts and not [t for t in gts if t != rq and il is not None and _in_tree(il, f, x, t)]:
                        okrej = True
            r.check(okrej, 'for...else: a required parameter without a matching key REJECTs', f.key('missing-required'),
                    f.loc(il), 'a missing required attribute does not reject the class candidate')
    r.done()


def _in_tree(loop, f: Fn, ret, text) -> bool:
    """a positive guard of `ret` with source `text` that arises inside `loop` (other than the required flag)"""
    for b in f.cfg.guard_nodes(f.nid(ret)):
        if b.pol and norm(b.ast) == text and any(x is loop for x in _ancestors_list(b.ast)):
            return True
    return False


def init_sites(P: Program) -> List[Tuple[Fn, ast.Call, ast.Call]]:
    """(function holding the call, the `X.__init__(...)` call of the user class, the statement-level site in Constructor.__call__):
    the call may have been moved into a private helper method of Constructor that __call__ invokes"""
    top = fn(P, CTOR + '__call__')
    out = [(top, c, c) for c in top.calls('__init__') if top.live(c)]
    if out:
        return out
    cls = P.cls('yatiml.constructors:Constructor')
    for name, m in cls.methods.items():
        if name in ('__call__', '__init__'):
            continue
        g = fn(P, m.key)
        inner = [c for c in g.calls('__init__') if g.live(c)]
        if not inner:
            continue
        for site in top.calls(name):
            if top.live(site):
                out += [(g, c, site) for c in inner]
    return out


def r02_4_keys(ctx):
    P = ctx.P
    r = ctx.rule('R02.4', 'no path in Constructor.__call__ reaches __init__ without a check that rejects non-string keys',
                 floor=2)
    f = fn(P, CTOR + '__call__')
    cls = P.cls('yatiml.constructors:Constructor')
    checkers = set()
    for name, m in cls.methods.items():
        g = fn(P, m.key)
        for rs in g.raises():
            if raise_class(rs) != 'RecognitionError':
                continue
            atoms = g.guards(rs)
            for a, pol in atoms:
                ia = isinstance_atom(a)
                if ia and not pol and (ia[1] <= {'ScalarNode'} or ia[1] <= {'str'}):
                    loops = [l for l in enclosing_loops(rs, g.node) if isinstance(l, ast.For)]
                    if loops and not breaks_of(loops[0], g.node):
                        checkers.add(name)
    r.check(bool(checkers), 'key-kind checks found in %s' % sorted(checkers), 'yatiml.constructors:Constructor:key-checks',
            'yatiml/constructors.py', 'no method of Constructor rejects mapping keys that are not string scalars')
    inits_all = init_sites(P)
    inits = [site for _, _, site in inits_all]
    through = set()
    for name in checkers:
        for c in f.calls(name):
            if f.live(c):
                through.add(f.nid(c))
    if not inits:
        r.fail(f.key('no-init-call'), f.loc(), 'Constructor.__call__ never calls __init__')
    for c in inits:
        r.check(f.cfg.must_pass(f.cfg.entry, f.nid(c), through), '%s is preceded by a key-kind check on every path' % norm(c)[:40],
                f.key('init-without-key-check'), f.loc(c),
                '__init__ can be reached without any check of the mapping keys\' kind: a class taking _yatiml_extra '
                'would silently accept non-string keys')
    for g_, c, _ in inits_all:
        r.check(not c.args and all(k.arg is None for k in c.keywords), '__init__ is called with ** keywords only',
                g_.key('init-by-name'), g_.loc(c), '__init__ receives positional arguments: attributes are matched by position')
    r.done()


def _deep_arm(f: Fn, r, arm: str, pred: str, obj: str, typ: str, container: str, parts: List[Tuple[str, str, bool]]):
    """One container arm of Constructor.__type_matches.  `parts` = [(what, index into generic_type_args, recursive?)]: every
    element (key/value/item) must be checked - recursively where `recursive` - before the arm can answer True."""
    FAMILY = {'is_generic_sequence': {'list', 'Sequence', 'MutableSequence'}, 'is_generic_mapping': {'dict', 'Mapping', 'MutableMapping'},
              'is_generic_union': {'Union'}}

    def origin_like(x):
        t_ = f.alpha.text(x)
        return '__origin__' in t_ or 'get_origin(' in t_ or (isinstance(x, ast.Name) and any(
            '__origin__' in norm(v) or 'get_origin(' in norm(v) for v in assigned_from(f, x.id)))

    def arm_guard(g) -> bool:
        """the arm is selected by the util predicate, or by comparing the type's origin with exactly the predicate's family"""
        if isinstance(g, ast.Call) and call_name(g) == pred:
            return True
        if isinstance(g, ast.Compare) and len(g.ops) == 1 and isinstance(g.ops[0], (ast.In, ast.Is, ast.Eq)) and origin_like(g.left):
            o = g.comparators[0]
            els = o.elts if isinstance(o, (ast.Tuple, ast.List, ast.Set)) else [o]
            return {(dotted_name(x) or norm(x)).split('.')[-1] for x in els} == FAMILY.get(pred, set())
        return False
    region = [n for n in f.walk() if isinstance(n, (ast.Return,)) and any(p and arm_guard(g) for g, p in f.guards(n))]
    # how the element types may be spelt: generic_type_args(T)[i], or X[i] with X bound to T.__args__
    arg_vars = {n_.targets[0].id for n_ in f.walk() if isinstance(n_, ast.Assign) and len(n_.targets) == 1 and isinstance(n_.targets[0], ast.Name)
                and norm(n_.value) in ('%s.__args__' % typ, 'get_args(%s)' % typ, 'generic_type_args(%s)' % typ)}
    # ... or unpacked: `key_type, value_type = <the arguments>`
    unpacked = {}
    for n_ in f.walk():
        if isinstance(n_, ast.Assign) and len(n_.targets) == 1 and isinstance(n_.targets[0], ast.Tuple) \
                and all(isinstance(x, ast.Name) for x in n_.targets[0].elts) \
                and (norm(n_.value) in ('%s.__args__' % typ, 'get_args(%s)' % typ, 'generic_type_args(%s)' % typ)
                     or (isinstance(n_.value, ast.Name) and n_.value.id in arg_vars)):
            for i_, x in enumerate(n_.targets[0].elts):
                unpacked[x.id] = i_

    def elem_type_in(txt: str, idx: int) -> bool:
        import re as _re
        return 'generic_type_args(%s)[%d]' % (typ, idx) in txt or '%s.__args__[%d]' % (typ, idx) in txt \
            or 'get_args(%s)[%d]' % (typ, idx) in txt or any('%s[%d]' % (v_, idx) in txt for v_ in arg_vars) \
            or any(i_ == idx and _re.search(r'\b%s\b' % _re.escape(nm), txt) for nm, i_ in unpacked.items())
    key = f.key('deep-check:%s' % arm)
    if not region:
        r.fail(key, f.loc(), '__type_matches has no arm for generic %s types: a constructed %s is accepted without looking at its '
               'elements' % (arm, container))
        return
    trues = [x for x in region if x.value is not None and not (isinstance(x.value, ast.Constant) and x.value.value is False)]
    ok = bool(trues)
    why = 'no accepting return'
    for ret in trues:
        v = ret.value
        # form A: return isinstance(obj, K) and all(self.__type_matches(x, args[i]) for x in obj)
        txt = f.alpha.text(v)
        if not (isinstance(v, ast.Constant) and v.value is True):
            # the container test is part of the answer, or was already made on the way here
            inst_here = 'isinstance(%s, %s)' % (obj, container) in txt and isinstance(v, ast.BoolOp) and isinstance(v.op, ast.And)
            inst_before = known_instance(f.guards(ret), obj, {container})
            good = 'all(' in txt and (inst_here or inst_before)
            for what, idx, rec in parts:
                if rec and not (elem_type_in(txt, idx) or elem_type_in(norm(v), idx)):
                    good = False
            if not good:
                ok, why = False, 'the %s arm answers `%s`' % (arm, txt[:70])
            continue
        # form B: loops with `return False` on a failing element, `return True` after them
        if not known_instance(f.guards(ret), obj, {container}):
            ok, why = False, 'the %s arm can answer True for an object that is not a %s' % (arm, container)
            continue
        from .. import guards as G_
        if (obj, False) in {G_.canon_atom(gg, p) for gg, p in f.guards(ret)}:
            continue        # an empty container: there is no element to check (the loops would not run either)
        loops = [n for n in f.walk() if isinstance(n, ast.For) and f.alpha.text(n.iter) in (obj, '%s.items()' % obj, '%s.values()' % obj, '%s.keys()' % obj)
                 and any(p and arm_guard(gg) for gg, p in f.guards(n.iter))
                 and f.cfg.dominates(f.nid(n.iter), f.nid(ret)) and not any(x is n for x in _ancestors_list(ret))]
        if not loops:
            ok, why = False, 'the %s arm answers True without a loop over the elements of %s' % (arm, obj)
            continue
        for what, idx, rec in parts:
            found = False
            for lo in loops:
                for x in ast.walk(lo):
                    if isinstance(x, ast.Return) and isinstance(x.value, ast.Constant) and x.value.value is False:
                        for a, p in f.guards(x):
                            t = f.alpha.text(a)
                            if not p and elem_type_in(t, idx) and (
                                    ('__type_matches(' in t) if rec else ('isinstance(' in t or '__type_matches(' in t)) \
                                    and '<each:' in t:
                                found = True
                if any(isinstance(x, (ast.Break, ast.Continue)) for x in ast.walk(lo)) or any(
                        isinstance(x, ast.Return) and not (isinstance(x.value, ast.Constant) and x.value.value is False)
                        for x in ast.walk(lo)):
                    found = False
            if not found:
                ok, why = False, 'the %s arm does not reject a %s whose %s fails the check against generic_type_args(%s)[%d]' % (
                    arm, container, what, typ, idx)
    r.check(ok, '__type_matches, %s arm: every %s is checked before the arm answers True' % (arm, '/'.join(w for w, _, _ in parts)),
            key, f.loc(trues[0]) if trues else f.loc(), why + ': with an alias shared by two differently typed attributes the second '
            'retag wins and __init__ receives elements of the other type')


def r01_6_deep_recheck(ctx, rid='R01.6'):
    P = ctx.P
    r = ctx.rule(rid, 'what PyYAML constructed is re-checked against the annotations, element by element, on every path to __init__ '
                      '(the last line of defence when an alias makes two differently typed positions share one node)', floor=4)
    f = fn(P, CTOR + '__call__')
    cls = P.cls('yatiml.constructors:Constructor')
    checkers = set()
    for name, m in cls.methods.items():
        g = fn(P, m.key)
        if name in ('__call__', '__type_matches'):
            continue
        tm = [c for c in g.calls('__type_matches') if g.live(c)]
        if tm and any(raise_class(x) == 'RecognitionError' and any('__type_matches(' in norm(a) and not p for a, p in g.guards(x))
                      for x in g.raises()):
            checkers.add(name)
    r.check(bool(checkers), 'methods that reject an attribute failing __type_matches: %s' % sorted(checkers),
            'yatiml.constructors:Constructor:type-checkers', 'yatiml/constructors.py',
            'no method of Constructor rejects a constructed attribute that fails __type_matches')
    inits = [site for _, _, site in init_sites(P)]
    through = {f.nid(c) for name in checkers for c in f.calls(name) if f.live(c)}
    for c in inits:
        r.check(bool(through) and f.cfg.must_pass(f.cfg.entry, f.nid(c), through), '%s is preceded by the attribute type check on every path'
                % norm(c)[:40], f.key('init-without-type-check'), f.loc(c), '__init__ can be reached without the constructed '
                'attributes having been checked against the annotations')
    tm = fn(P, CTOR + '__type_matches')
    obj, typ = tm.fi.params[1], tm.fi.params[2]
    _deep_arm(tm, r, 'sequence', 'is_generic_sequence', obj, typ, 'list', [('item', 0, True)])
    _deep_arm(tm, r, 'mapping', 'is_generic_mapping', obj, typ, 'dict', [('key', 0, False), ('value', 1, True)])
    # union arm: True only through a member that matches
    def _union_guard(g):
        if isinstance(g, ast.Call) and call_name(g) == 'is_generic_union':
            return True
        if isinstance(g, ast.Compare) and len(g.ops) == 1 and isinstance(g.ops[0], (ast.Is, ast.Eq)) and norm(g.comparators[0]).split('.')[-1] == 'Union':
            l_ = g.left
            return '__origin__' in tm.alpha.text(l_) or 'get_origin(' in tm.alpha.text(l_) or (isinstance(l_, ast.Name) and any(
                '__origin__' in norm(v_) or 'get_origin(' in norm(v_) for v_ in assigned_from(tm, l_.id)))
        return False
    ur = [n for n in tm.returns() if any(p and _union_guard(g) for g, p in tm.guards(n))]
    okU = bool(ur)
    for ret in ur:
        v = ret.value
        if isinstance(v, ast.Constant) and v.value is True:
            if not any(p and '__type_matches(' in norm(a) for a, p in tm.guards(ret)):
                okU = False
        elif isinstance(v, ast.Constant) and v.value is False:
            pass
        elif not ('any(' in norm(v) and '__type_matches(' in norm(v)):
            okU = False
    r.check(okU, '__type_matches, union arm: True only under a member that matches', tm.key('deep-check:union'), tm.loc(),
            'the union arm of __type_matches answers True without a matching member')
    r.done()


def r02_5_kinds(ctx):
    P = ctx.P
    r = ctx.rule('R02.5', 'lists and dicts are admitted by exact YAML kind (SequenceNode/MappingNode, plain seq/map tag)',
                 floor=4)
    f = fn(P, PN)
    S, _, _ = recognise_targets(f)
    rt = _extracted_var(f, S)
    node = f.fi.params[1]
    for kind, pred, tag in (('sequence', 'is_generic_sequence(%s)' % rt, repr(CORE + 'seq')),
                            ('mapping', 'is_generic_mapping(%s)' % rt, repr(CORE + 'map'))):
        calls = [c for c in f.calls('__process_node') if f.live(c) and f.has_guard(c, pred)]
        if not calls:
            r.fail(f.key('no-%s-recursion' % kind), f.loc(), 'no recursion in the %s arm' % kind)
        for c in calls:
            a, _ = tag_equalities(f.guards(c), '%s.tag' % node, f.copies)
            r.check(a == {tag}, '%s recursion only for a node tagged %s' % (kind, tag), f.key('%s-tag-check' % kind), f.loc(c),
                    'a %s type is processed although the node\'s tag is not the plain %s tag (!!set, !!python/tuple, '
                    '!Registered would be admitted)' % (kind, tag))
    for name, cls_ in (('__recognize_list', 'SequenceNode'), ('__recognize_dict', 'MappingNode')):
        g = fn(P, REC + name)
        nd = g.fi.params[1]
        acc = accept_returns(g)
        if not acc:
            r.fail(g.key('no-accept'), g.loc(), '%s never accepts' % name)
        for ret, v in acc:
            r.check(known_instance(g.guards(ret), nd, {cls_}), '%s ACCEPT under isinstance(%s, %s)' % (name, nd, cls_),
                    g.key('accept-kind'), g.loc(ret), '%s accepts a node that is not a %s' % (name, cls_))
    r.done()


def _const_concat(e: ast.AST) -> Optional[str]:
    """a string constant, or a concatenation of string constants"""
    v = const_str(e)
    if v is not None:
        return v
    if isinstance(e, ast.BinOp) and isinstance(e.op, ast.Add):
        a, b = _const_concat(e.left), _const_concat(e.right)
        return None if a is None or b is None else a + b
    return None


def fresh_scalar_assignments(f: Fn, name: str) -> Set[int]:
    """cfg nodes of `name = yaml.ScalarNode(..)`: from there on the variable holds a node made here, which contains nothing"""
    out = set()
    for n in f.walk():
        if isinstance(n, ast.Assign) and len(n.targets) == 1 and norm(n.targets[0]) == name and isinstance(n.value, ast.Call) \
                and norm(n.value.func) in ('yaml.ScalarNode', 'ScalarNode') and f.nid(n) is not None:
            out.add(f.nid(n))
    return out


def _param_sources(P: Program, g: Fn, pname: str):
    """[(caller facts, source expression)] for what the callers of method g pass for its parameter pname"""
    out = []
    idx = g.fi.params.index(pname)
    short = g.fi.name
    for cf in P.yatiml_functions():
        if cf.cls is not g.fi.cls or cf is g.fi:
            continue
        for c_ in walk_function(cf.node):
            if isinstance(c_, ast.Call) and isinstance(c_.func, ast.Attribute) and (c_.func.attr == short or c_.func.attr.endswith(short)):
                pos = idx - 1 if g.fi.params and g.fi.params[0] in ('self', 'cls') else idx
                arg = c_.args[pos] if 0 <= pos < len(c_.args) else next((k_.value for k_ in c_.keywords if k_.arg == pname), None)
                if arg is None:
                    continue
                cfn = fn_of(cf)
                for src_ in _flow_sources(cfn, arg):
                    if isinstance(src_, ast.Name) and src_.id not in cfn.fi.params and assigned_from(cfn, src_.id):
                        continue        # a local on the way: its definitions are in the list too
                    out.append((cfn, src_))
    return out


def r02_6_extraneous(ctx):
    P = ctx.P
    r = ctx.rule('R02.6', 'a key that is not a positional constructor parameter is rejected unless the class takes '
                          '_yatiml_extra (no other exemption)', floor=2)
    cls = P.cls('yatiml.constructors:Constructor')
    found = False
    for name, m in cls.methods.items():
        g = fn(P, m.key)
        for rs in g.raises():
            if raise_class(rs) != 'RecognitionError':
                continue
            loops = [l for l in enclosing_loops(rs, g.node) if isinstance(l, ast.For)]
            if not loops:
                continue
            lo = loops[0]
            kv = lo.target.elts[0].id if isinstance(lo.target, ast.Tuple) else norm(lo.target)
            member = None
            for x, p_ in g.guards(rs):
                if isinstance(x, ast.Compare) and len(x.ops) == 1 and norm(x.left) == kv \
                        and isinstance(x.ops[0], (ast.NotIn, ast.In)) and (isinstance(x.ops[0], ast.NotIn) == p_):
                    member = x.comparators[0]
            if member is None or not norm(lo.iter).endswith('.items()'):
                continue
            found = True
            mtxt = g.copies.xnorm(member)
            sigp = [p_ for p_ in g.fi.params if g.fi.param_annotation(p_) is not None and 'FullArgSpec' in norm(g.fi.param_annotation(p_))]
            ARGS = '%s.args' % (sigp[0] if sigp else 'argspec')
            ok_set = mtxt == ARGS
            if not ok_set and isinstance(member, ast.Name) and member.id in g.fi.params:
                # the list is handed in: what every caller passes is the signature's parameter names, possibly without `self`
                # and `_yatiml_extra` (neither names an attribute a document can give)
                srcs = _param_sources(P, g, member.id)
                def names_list(e_, cf_):
                    if cf_.copies.xnorm(e_).endswith('.args') and 'getfullargspec(' in cf_.alpha.text(e_):
                        return True
                    if isinstance(e_, ast.ListComp) and len(e_.generators) == 1 and isinstance(e_.elt, ast.Name) \
                            and isinstance(e_.generators[0].target, ast.Name) and e_.elt.id == e_.generators[0].target.id \
                            and cf_.copies.xnorm(e_.generators[0].iter).endswith('.args') and 'getfullargspec(' in cf_.alpha.text(e_.generators[0].iter):
                        from ..dictflow import cond_truth, _kname, _and, TRUE
                        cnd = TRUE
                        for i_ in e_.generators[0].ifs:
                            cnd = _and(cnd, _kname(i_, e_.elt.id))
                        return cond_truth(cnd, 'some_name', {}) is True
                    return False
                ok_set = bool(srcs) and all(names_list(e_, cf_) for cf_, e_ in srcs)
            r.check(ok_set, 'keys are checked against argspec.args',
                    g.key('extraneous-key-allowed-set'), g.loc(rs),
                    'keys are accepted when they are in %s rather than in argspec.args: such keys are never recognised or '
                    'type-checked but reach __init__' % mtxt)
            inside = [(g.copies.xnorm(b.ast), b.pol) for b in g.cfg.guard_nodes(g.nid(rs))
                      if any(x is lo for x in _ancestors_list(b.ast)) and not isinstance(b.ast, ast.BoolOp)]
            allowed = {('%s not in %s' % (kv, ARGS), True), ('%s in %s' % (kv, ARGS), False),
                       ('%s not in %s' % (kv, mtxt), True), ('%s in %s' % (kv, mtxt), False),
                       ("'_yatiml_extra' not in %s" % ARGS, True), ("'_yatiml_extra' in %s" % ARGS, False),
                       ('isinstance(%s, str)' % kv, True)}
            extra = [x for x in inside if x not in allowed]
            r.check(not extra, 'raise under `%s not in argspec.args and "_yatiml_extra" not in argspec.args` only' % kv,
                    g.key('extraneous-key-condition'), g.loc(rs),
                    'the extraneous-key rejection is narrowed by %s: such keys reach __init__ unchecked' % extra)
            r.check(not breaks_of(lo, g.node) and norm(lo.iter).endswith('.items()'), 'every key of the mapping is checked',
                    g.key('extraneous-loop'), g.loc(lo), 'not every key is checked for being extraneous')
            # the check runs before __init__
            c = fn(P, CTOR + '__call__')
            sites = {c.nid(x) for x in c.calls(name) if c.live(x)}
            for ic in [site for _, _, site in init_sites(P)]:
                if c.live(ic):
                    r.check(c.cfg.must_pass(c.cfg.entry, c.nid(ic), sites), '__init__ is preceded by the extraneous-key check',
                            c.key('init-without-extraneous-check'), c.loc(ic),
                            '__init__ can be reached without the extraneous-key check')
    if not found:
        r.fail('yatiml.constructors:Constructor:no-extraneous-check', 'yatiml/constructors.py',
               'no check rejects keys that are not constructor parameters')
    r.done()


# =====================================================================================================
# C03
# =====================================================================================================

def r03_1_abstract(ctx):
    P = ctx.P
    r = ctx.rule('R03.1', 'abstract classes are never candidates: the own-class attempt is under `not is_abstract`, and '
                          'is_abstract is true for isabstract(t) and for ABC in t.__bases__', floor=4)
    f = fn(P, REC + '__recognize_user_classes')
    et = f.fi.params[2]
    calls = [c for c in f.calls('__recognize_user_class') if f.live(c)]
    if not calls:
        r.fail(f.key('no-own-class-attempt'), f.loc(), 'a class itself is never tried (only subclasses)')
    for c in calls:
        r.check(f.has_guard(c, 'is_abstract(%s)' % et, False) and len(c.args) == 2 and norm(c.args[1]) == et,
                'own-class attempt %s under not is_abstract(%s)' % (norm(c)[:50], et), f.key('own-class-under-not-abstract'),
                f.loc(c), 'a class is tried as a candidate without excluding abstract classes '
                '(guards: %s)' % f.guard_texts(c))
    # who may call the own-class judgement: nobody else (a shortcut from recognize() for a node tagged with exactly the expected
    # class went around the abstract gate and the descent into subclasses)
    for fi in P.yatiml_functions():
        if fi.key == f.fi.key or not fi.module.name.startswith('yatiml'):
            continue
        h = fn_of(fi)
        for c in h.calls('__recognize_user_class'):
            if not h.live(c) or call_name(c) != '__recognize_user_class':
                continue
            ok = len(c.args) == 2 and h.has_guard(c, 'is_abstract(%s)' % norm(c.args[1]), False)
            r.check(ok, '%s judges a class itself only under not is_abstract' % fi.name, h.key('own-class-under-not-abstract'), h.loc(c),
                    '%s calls __recognize_user_class(%s) without going through the abstract-class gate of __recognize_user_classes: '
                    'an abstract class can be recognised (and instantiated)' % (fi.key, ', '.join(norm(a) for a in c.args)))
    g = fn(P, 'yatiml.util:is_abstract')
    p = g.fi.params[0]
    from ..dtable import truth_table, Unsupported
    abc_atom = 'ABC in %s.__bases__' % p
    if ('abc.ABC in %s.__bases__' % p) in norm(g.node):
        abc_atom = 'abc.ABC in %s.__bases__' % p
    cls_atom = 'inspect.isclass(%s)' % p if ('inspect.isclass(%s)' % p) in norm(g.node) else 'isclass(%s)' % p
    isab = 'inspect.isabstract(%s)' % p if ('inspect.isabstract(%s)' % p) in norm(g.node) else 'isabstract(%s)' % p
    try:
        tt = truth_table(g.node, [cls_atom, isab, abc_atom])
    except Unsupported as e:
        raise AnalysisError('is_abstract is outside the decidable subset: %s' % e)
    # the decision table of the function, whatever its control flow: abstract iff a class with abstract methods or ABC as a base
    r.check(tt[(True, True, False)] is True and tt[(True, True, True)] is True, 'is_abstract(t) is True when inspect.isabstract(t)',
            g.key('isabstract-arm'), g.loc(), 'is_abstract no longer reports classes with abstract methods as abstract')
    r.check(tt[(True, False, True)] is True, 'is_abstract(t) is True when ABC is among t.__bases__ (any position)', g.key('abc-base-arm'),
            g.loc(), 'is_abstract no longer reports direct subclasses of abc.ABC as abstract (e.g. class X(Mixin, ABC))')
    r.check(tt[(True, False, False)] is False, 'a concrete class is not abstract', g.key('concrete'), g.loc(),
            'is_abstract answers %s for a class without abstract methods that does not derive directly from ABC: concrete classes '
            'are never candidates' % tt[(True, False, False)])
    # what it answers for something that is not a class is not constrained: it is only asked about registered classes
    r.done()


def r03_2_registered_only(ctx):
    P = ctx.P
    r = ctx.rule('R03.2', 'candidates are the registered direct subclasses of the expected class only (no __subclasses__())',
                 floor=2)
    f = fn(P, REC + '__recognize_user_classes')
    et = f.fi.params[2]
    rec_calls = [c for c in f.calls('__recognize_user_classes') if f.live(c)]
    if not rec_calls:
        r.fail(f.key('no-descent'), f.loc(), 'registered subclasses are never tried')
    for c in rec_calls:
        loops = [l for l in enclosing_loops(c, f.node) if isinstance(l, ast.For)]
        ok = False
        if loops:
            lo = loops[0]
            it = norm(lo.iter)
            if it in ('self.__registered_classes.values()',) and isinstance(lo.target, ast.Name):
                ov = lo.target.id
                ok = len(c.args) >= 2 and norm(c.args[1]) == ov and norm(c.args[0]) == f.fi.params[1] \
                    and f.has_guard(c, '%s in %s.__bases__' % (et, ov), True, expand=False)
        r.check(ok, 'descent into registered classes whose __bases__ contain the expected class',
                f.key('descent-source'), f.loc(c), 'subclass candidates are not drawn from '
                'self.__registered_classes.values() filtered by `expected in other.__bases__`')
        if ok:
            # ... and into *every* such class: any further condition inside the loop (a visited set, a name filter) takes candidates
            # away. A class below two registered classes (diamond) must be tried below each of them - the parent that is not allowed
            # to see it match falls back to itself, and the position becomes ambiguous where the class alone is the answer.
            from .helpers_rules import _inloop_atoms
            want = f.alpha.atom(ast.parse('%s in %s.__bases__' % (et, ov), mode='eval').body, True)
            extra = sorted(a for a in _inloop_atoms(f, c, lo) if a != want)
            r.check(not extra, 'the descent is restricted by the __bases__ test only (no visited set: a class below two registered '
                    'classes is tried below each)', f.key('descent-every-subclass'), f.loc(c),
                    'the descent into a registered subclass also depends on %s: a subclass that is skipped (already visited through '
                    'another parent of a diamond, filtered by name ...) does not shadow this parent, which then matches itself - the '
                    'position is reported ambiguous or resolved to the less derived class' % extra)
    bad = []
    for fi in P.yatiml_functions():
        for n in walk_function(fi.node):
            if isinstance(n, ast.Attribute) and n.attr == '__subclasses__':
                bad.append((fi, n))
    r.check(not bad, 'no use of __subclasses__() anywhere in the package (control: the matcher finds it in a snippet)',
            'yatiml:__subclasses__', bad[0][0].loc(bad[0][1]) if bad else 'yatiml/',
            'candidate classes are drawn from __subclasses__(): unregistered classes would be considered')
    ctl = ast.parse('x.__subclasses__()')
    if not any(isinstance(n, ast.Attribute) and n.attr == '__subclasses__' for n in ast.walk(ctl)):
        raise AnalysisError('positive control for __subclasses__ failed')
    r.done()


def _accumulates(loop: ast.For, f: Fn, acc: str, verdict_var: str) -> Optional[ast.AST]:
    for st in loop.body:
        for n in ast.walk(st):
            if isinstance(n, ast.AugAssign) and isinstance(n.op, ast.BitOr) and norm(n.target) == acc \
                    and norm(n.value) == verdict_var:
                return n
            if isinstance(n, ast.Call) and isinstance(n.func, ast.Attribute) and n.func.attr == 'update' \
                    and norm(n.func.value) == acc and n.args and norm(n.args[0]) == verdict_var:
                return n
            if isinstance(n, ast.Assign) and norm(n.targets[0]) == acc and norm(n.value) in (
                    '%s | %s' % (acc, verdict_var), '%s.union(%s)' % (acc, verdict_var), '%s | %s' % (verdict_var, acc)):
                return n
    return None


def r03_3_order_independence(ctx):
    P = ctx.P
    r = ctx.rule('R03.3', 'candidate loops visit every candidate and accumulate verdicts in a set: no first match, no '
                          'early exit, no indexing of a candidate set', floor=5)
    # union
    f = fn(P, REC + '__recognize_union')
    et = f.fi.params[2]
    loops = []
    for n in f.walk():
        if isinstance(n, ast.For):
            it = f.copies.xnorm(n.iter)
            if it in ('generic_type_args(%s)' % et, 'enumerate(generic_type_args(%s))' % et):
                loops.append(n)
    # E13: whatever the spelling (one accumulating loop, or comprehensions over the materialised member verdicts), the set that is
    # returned must be the union of recognize(node, m)[0] over all members m, unconditionally
    from ..accflow import AccFlow, X as _X
    A = AccFlow(f.fi.node, f.alpha)
    want = ('union', 'self.recognize(%s, %s)[0]' % (f.fi.params[1], _X), f.alpha.text(ast.parse('generic_type_args(%s)' % et, mode='eval').body), None, True)
    union_accs = [name for name, cs in A.acc.items() if cs is not None and len(cs) == 1 and cs[0].key() == want]
    if union_accs:
        r.ok('the Union verdict %s is UNION recognize(node, m)[0] for every member m of generic_type_args(%s) (E13)' % (union_accs[0], et))
        r.ok('every member verdict is merged into the accumulator unconditionally')
        ctx.extra.setdefault('_union_acc', union_accs[0])
        loops = []
    elif not loops:
        r.fail(f.key('no-member-loop'), f.loc(), '__recognize_union does not iterate over the Union members')
    for lo in loops:
        r.check(whole_collection_loop(lo), 'Union member loop has no break/return/continue', f.key('member-loop-exit'),
                f.loc(lo), 'the Union member loop can stop before all members were tried: the result depends on the '
                'order of the Union members')
        rc = [c for st in lo.body for c in ast.walk(st) if isinstance(c, ast.Call) and call_name(c) == 'recognize']
        tv = lo.target.elts[1].id if isinstance(lo.target, ast.Tuple) else norm(lo.target)
        ok = False
        for c in rc:
            st = enclosing_stmt(c)
            if isinstance(st, ast.Assign) and isinstance(st.targets[0], ast.Tuple) and len(c.args) == 2 \
                    and norm(c.args[0]) == f.fi.params[1] and norm(c.args[1]) == tv:
                vv = norm(st.targets[0].elts[0])
                acc_stmt = None
                for accname in {norm(x.targets[0]) for x in f.walk() if isinstance(x, ast.Assign)
                                and norm(x.value) in ('set()', 'set([])')}:
                    a = _accumulates(lo, f, accname, vv)
                    if a is not None:
                        acc_stmt = (accname, a)
                if acc_stmt:
                    an = f.nid(acc_stmt[1])
                    # unconditional within the iteration: dominated by no branch that arises inside the loop
                    inner = [b for b in f.cfg.guard_nodes(an) if any(x is lo for x in _ancestors_list(b.ast))]
                    inner = [b for b in inner if b.id not in nonempty_branches(f, vv, exactly=True)]
                    ok = not inner
                    ctx.extra.setdefault('_union_acc', acc_stmt[0])
        r.check(ok, 'every member verdict is merged into the accumulator unconditionally', f.key('member-accumulate'),
                f.loc(lo), 'a Union member\'s verdict is not always merged into the result set')
    # user classes
    g = fn(P, REC + '__recognize_user_classes')
    for lo in [n for n in g.walk() if isinstance(n, ast.For) and 'registered_classes' in norm(n.iter)]:
        r.check(whole_collection_loop(lo, allow_continue=True), 'registered-class loop has no break/return',
                g.key('class-loop-exit'), g.loc(lo), 'the registered-class loop can stop early: the result depends on '
                'registration order')
        rc = [c for st in lo.body for c in ast.walk(st) if isinstance(c, ast.Call) and call_name(c) == '__recognize_user_classes']
        ok = False
        for c in rc:
            st = enclosing_stmt(c)
            if isinstance(st, ast.Assign) and isinstance(st.targets[0], ast.Tuple):
                vv = norm(st.targets[0].elts[0])
                for accname in {norm(x.targets[0]) for x in g.walk() if isinstance(x, ast.Assign)
                                and norm(x.value) in ('set()', 'set([])')}:
                    a = _accumulates(lo, g, accname, vv)
                    if a is not None:
                        an, cn = g.nid(a), g.nid(c)
                        inner = [b for b in g.cfg.guard_nodes(an) if b.id not in {x.id for x in g.cfg.guard_nodes(cn)}
                                 and b.id not in nonempty_branches(g, vv, exactly=True)]
                        ok = not inner
        r.check(ok, 'every subclass verdict is merged into the accumulator', g.key('class-accumulate'), g.loc(lo),
                'a subclass verdict is not always merged into the result set')
    # no first-match extraction from candidate sets anywhere in the recogniser
    m = P.module('yatiml.recognizer')
    n_sites = 0
    for fi in m.functions.values():
        for n in walk_function(fi.node):
            if isinstance(n, ast.Call) and call_name(n) == 'next' and n.args and isinstance(n.args[0], ast.Call) \
                    and call_name(n.args[0]) == 'iter':
                r.fail('%s:first-match:%s' % (fi.key, norm(n)), fi.loc(n), 'a candidate is picked with next(iter(..)) '
                       'inside the recogniser')
                n_sites += 1
            if isinstance(n, ast.Call) and isinstance(n.func, ast.Attribute) and n.func.attr == 'pop' and not n.args \
                    and 'recogni' in norm(n.func.value):
                r.fail('%s:first-match:%s' % (fi.key, norm(n)), fi.loc(n), 'a candidate is popped from a candidate set')
    r.ok('no next(iter(..)) / .pop() on candidate sets in yatiml/recognizer.py (%d functions scanned)' % len(m.functions))
    r.done()


def r03_4_most_derived(ctx):
    P = ctx.P
    r = ctx.rule('R03.4', 'a class is considered only when no registered subclass matched (most-derived first)', floor=1)
    f = fn(P, REC + '__recognize_user_classes')
    accs = {norm(x.targets[0]) for x in f.walk() if isinstance(x, ast.Assign) and norm(x.value) in ('set()',)}
    for c in [c for c in f.calls('__recognize_user_class') if f.live(c)]:
        ok = any(f.card(c, a) == {0} for a in accs)
        r.check(ok, 'own-class attempt under len(subclass matches) == 0', f.key('own-class-after-subclasses'), f.loc(c),
                'the class itself is tried although a registered subclass already matched: the base would compete with '
                'its own subclass')
        # and the descent loop dominates it
        loops = [n for n in f.walk() if isinstance(n, ast.For) and 'registered_classes' in norm(n.iter)]
        r.check(bool(loops) and all(f.cfg.dominates(f.nid(l.iter), f.nid(c)) for l in loops),
                'subclass descent precedes the own-class attempt', f.key('descent-before-own'), f.loc(c),
                'the own-class attempt is not preceded by the descent into subclasses')
    r.done()


def r03_6_foreign_tags(ctx):
    P = ctx.P
    r = ctx.rule('R03.6', 'a non-core tag is accepted only if it names a registered class among the recognised ones; '
                          'ambiguity returns the candidate set with an error', floor=3)
    f = fn(P, REC + '__recognize_user_classes')
    node = f.fi.params[1]
    finals = []
    for ret, v in accept_returns(f):
        if v[2] == 'OK' and v[0] == 'VAR':
            finals.append(ret)
    if not finals:
        r.fail(f.key('no-final-accept'), f.loc(), 'no ACCEPT return of the recognised subclass set')
    core_t = branch_nodes(f, lambda a: atom_is(a, "%s.tag.startswith('tag:yaml.org,2002')" % node, True)
                          or atom_is(a, "%s.tag.startswith('tag:yaml.org,2002:')" % node, True))
    core_f = branch_nodes(f, lambda a: atom_is(a, "%s.tag.startswith('tag:yaml.org,2002')" % node, False)
                          or atom_is(a, "%s.tag.startswith('tag:yaml.org,2002:')" % node, False))
    reg_t = branch_nodes(f, lambda a: atom_is(a, '%s.tag in self.__registered_classes' % node, True))
    def _member(a):
        for g, p in a:
            g2 = f.copies.expand(g)
            t, pol = canon_atom(g2, p)
            want = 'self.__registered_classes[%s.tag]' % node
            # `recognised == {the tag's class}` says more than membership: the tag's class is the one recognised class
            if pol and isinstance(g2, ast.Compare) and len(g2.ops) == 1 and isinstance(g2.ops[0], (ast.Eq, ast.NotEq)):
                for side in (g2.left, g2.comparators[0]):
                    if isinstance(side, ast.Set) and len(side.elts) == 1:
                        el = side.elts[0]
                        if norm(el) == want:
                            return True
                        if isinstance(el, ast.Name):
                            go = g.left if isinstance(g, ast.Compare) else None
                            ds = reaching_defs(f, g, el.id)
                            if ds and all(isinstance(d, ast.Assign) and norm(d.value) == want for d in ds):
                                return True
            if pol and isinstance(g2, ast.Compare) and len(g2.ops) == 1 and isinstance(g2.ops[0], (ast.In, ast.NotIn)):
                if norm(g2.left) == want:
                    return True
                # a local bound in several places (once per branch): what reaches this test
                if isinstance(g2.left, ast.Name) and isinstance(g, ast.Compare) and isinstance(g.left, ast.Name):
                    ds = reaching_defs(f, g, g.left.id)
                    if ds and all(isinstance(d, ast.Assign) and norm(d.value) == want for d in ds):
                        return True
        return False
    mem = branch_nodes(f, _member)
    for ret in finals:
        rn = f.nid(ret)
        var = norm(ret.value.elts[0])
        r.check(f.cfg.must_pass(f.cfg.entry, rn, core_t | core_f), 'final ACCEPT is preceded by the core-tag test',
                f.key('accept-without-tag-test'), f.loc(ret), 'classes are accepted without looking at the node\'s tag: a '
                'conflicting or unknown !Tag would be ignored')
        for a in core_f:
            if rn in f.cfg.reachable(a):
                r.check(f.cfg.must_pass(a, rn, reg_t) and f.cfg.must_pass(a, rn, mem),
                        'with a non-core tag, ACCEPT requires the tag to name a registered class that is among the '
                        'recognised ones', f.key('foreign-tag-accept'), f.loc(ret),
                        'a node with a non-core tag is accepted although the tag is unknown or names a class that was not '
                        'recognised')
        adm = f.card(ret, var)
        r.check(adm == {1}, 'final ACCEPT returns a singleton (len in %s)' % sorted(adm), f.key('final-accept-card'),
                f.loc(ret), 'the final ACCEPT may return %s candidates with REC_OK' % sorted(adm))
    # ambiguity region: returns of the multi-set carry an error
    for ret, v in accept_returns(f):
        if v[0] == 'VAR' and v[2] != 'OK':
            adm = f.card(ret, norm(v[1]))
            r.check(0 not in adm and v[2] == 'ERR', 'ambiguous candidates are returned with an error message',
                    f.key('ambiguity-return'), f.loc(ret), 'ambiguity return is malformed')
    r.done()


def r03_7_union(ctx):
    P = ctx.P
    r = ctx.rule('R03.7', 'a Union\'s verdict is the union of its members\' verdicts, minus bool_union_fix when bool is '
                          'present; 0 or >= 2 members carry an error', floor=3)
    f = fn(P, REC + '__recognize_union')
    accs = {norm(x.targets[0]) for x in f.walk() if isinstance(x, ast.Assign) and norm(x.value) in ('set()',)}
    # ... or a set that E13 shows to be the union of the member verdicts, however it is spelt
    from ..accflow import AccFlow
    A = AccFlow(f.fi.node, f.alpha)
    accs |= {name for name, cs in A.acc.items() if cs is not None and len(cs) == 1 and cs[0].kind == 'union' and cs[0].whole
             and cs[0].cond is None and 'self.recognize(' in cs[0].elem}
    acc = None
    for ret in f.returns():
        v = verdict(ret)
        if v and v[0] == 'VAR' and norm(v[1]) in accs:
            acc = norm(v[1])
    if acc is None:
        r.fail(f.key('no-accumulator-return'), f.loc(), 'the accumulated member verdicts are not what is returned')
        r.done()
        return
    for ret in f.returns():
        v = verdict(ret)
        if v is None:
            r.fail(f.key('return-shape'), f.loc(ret), 'unexpected return %s' % norm(ret))
            continue
        r.check(v[0] == 'VAR' and norm(v[1]) == acc, 'return of the accumulator %s' % acc, f.key('returns-accumulator'),
                f.loc(ret), '__recognize_union returns %s instead of the accumulated member verdicts' % norm(v[1]))
        adm = f.card(ret, acc)
        if v[2] == 'OK':
            r.check(adm == {1}, 'REC_OK only with exactly one member type', f.key('ok-card'), f.loc(ret),
                    'a Union verdict with %s members is returned with REC_OK' % sorted(adm))
        else:
            r.check(1 not in adm, 'error returns only for 0 or >= 2 member types', f.key('err-card'), f.loc(ret),
                    'a unique Union match is returned as an error')
    # removals from the accumulator
    removals = [n for n in f.walk() if isinstance(n, ast.Call) and isinstance(n.func, ast.Attribute)
                and n.func.attr in ('remove', 'discard', 'pop', 'clear', 'difference_update', 'intersection_update')
                and norm(n.func.value) == acc]
    removals += [n for n in f.walk() if isinstance(n, ast.AugAssign) and norm(n.target) == acc
                 and isinstance(n.op, (ast.Sub, ast.BitAnd, ast.BitXor))]
    fix_ok = False
    for n in removals:
        if isinstance(n, ast.Call) and n.func.attr in ('remove', 'discard') and n.args and norm(n.args[0]) == 'bool_union_fix' \
                and f.has_guard(n, 'bool in %s' % acc) and (f.has_guard(n, 'bool_union_fix in %s' % acc) or n.func.attr == 'discard'):
            fix_ok = True
        else:
            r.fail(f.key('accumulator-narrowed:%s' % norm(n)), f.loc(n), 'member verdicts are removed from the Union '
                   'result by %s' % norm(n))
    r.check(fix_ok, 'bool_union_fix is removed when bool is also present', f.key('bool-union-fix-collapse'), f.loc(),
            'Union[bool, bool_union_fix, ...] stays ambiguous: bool_union_fix is not collapsed into bool')
    r.done()


def _child_checks(r, f: Fn, call: ast.Call, child_expr_ok: bool, what: str, accepts: List[ast.Return], loop: ast.AST):
    st = enclosing_stmt(call)
    if not (isinstance(st, ast.Assign) and isinstance(st.targets[0], ast.Tuple) and len(st.targets[0].elts) == 2):
        r.fail(f.key('%s-verdict-unbound' % what), f.loc(call), 'the child verdict of %s is not bound' % what)
        return
    vv = norm(st.targets[0].elts[0])
    ne = nonempty_branches(f, vv)
    cn = f.nid(call)
    ok = child_expr_ok
    for ret in accepts:
        if not f.cfg.must_pass(cn, f.nid(ret), ne):
            ok = False
    head = f.nid(loop.iter) if isinstance(loop, ast.For) else None
    if head is not None and not f.cfg.must_pass(cn, head, ne):
        ok = False
    r.check(ok, '%s: every path from the child recognition to ACCEPT or to the next iteration passes the "verdict not '
            'empty" side of a test' % what, f.key('child-judged:%s' % what), f.loc(call),
            'the %s child is not judged (or its empty verdict does not reject): a candidate is accepted without its '
            'children matching' % what)


def r03_8_whole_node(ctx, rid='R03.8'):
    P = ctx.P
    r = ctx.rule(rid, 'a candidate is judged on the whole node: every item / key and value / present attribute is '
                      'recognised with its type and an empty verdict rejects', floor=4)
    # list
    f = fn(P, REC + '__recognize_list')
    node, et = f.fi.params[1], f.fi.params[2]
    acc = [ret for ret, v in accept_returns(f) if v[2] == 'OK']
    loops = [n for n in f.walk() if isinstance(n, ast.For) and norm(n.iter) == '%s.value' % node]
    if not loops or breaks_of(loops[0], f.node):
        r.fail(f.key('item-loop'), f.loc(), 'list recognition does not visit every item')
    for lo in loops[:1]:
        tv = norm(lo.target)
        calls = [c for st in lo.body for c in ast.walk(st) if isinstance(c, ast.Call) and call_name(c) == 'recognize']
        good = [c for c in calls if len(c.args) == 2 and norm(c.args[0]) == tv
                and f.copies.xnorm(c.args[1]) == 'generic_type_args(%s)[0]' % et]
        if not good:
            r.fail(f.key('item-recognition'), f.loc(lo), 'items are not recognised with the list\'s item type')
        for c in good:
            _child_checks(r, f, c, True, 'list item', acc, lo)
        for ret in acc:
            r.check(f.cfg.dominates(f.nid(lo.iter), f.nid(ret)), 'ACCEPT follows the item loop', f.key('accept-after-loop'),
                    f.loc(ret), 'a list is accepted before its items were looked at')
    # dict
    f = fn(P, REC + '__recognize_dict')
    node, et = f.fi.params[1], f.fi.params[2]
    acc = [ret for ret, v in accept_returns(f) if v[2] == 'OK']
    loops = [n for n in f.walk() if isinstance(n, ast.For) and norm(n.iter) == '%s.value' % node]
    if not loops or breaks_of(loops[0], f.node):
        r.fail(f.key('pair-loop'), f.loc(), 'dict recognition does not visit every pair')
    for lo in loops[:1]:
        if not (isinstance(lo.target, ast.Tuple) and len(lo.target.elts) == 2):
            r.fail(f.key('pair-loop-target'), f.loc(lo), 'unexpected loop target')
            continue
        kv, vv = norm(lo.target.elts[0]), norm(lo.target.elts[1])
        calls = [c for st in lo.body for c in ast.walk(st) if isinstance(c, ast.Call) and call_name(c) == 'recognize']
        kc = [c for c in calls if len(c.args) == 2 and norm(c.args[0]) == kv
              and f.copies.xnorm(c.args[1]) == 'generic_type_args(%s)[0]' % et]
        vc = [c for c in calls if len(c.args) == 2 and norm(c.args[0]) == vv
              and f.copies.xnorm(c.args[1]) == 'generic_type_args(%s)[1]' % et]
        if not kc:
            r.fail(f.key('key-recognition'), f.loc(lo), 'dict keys are not recognised with the key type')
        if not vc:
            r.fail(f.key('value-recognition'), f.loc(lo), 'dict values are not recognised with the value type')
        for c in kc:
            _child_checks(r, f, c, True, 'dict key', acc, lo)
        for c in vc:
            _child_checks(r, f, c, True, 'dict value', acc, lo)
        for ret in acc:
            r.check(f.cfg.dominates(f.nid(lo.iter), f.nid(ret)), 'ACCEPT follows the pair loop', f.key('accept-after-loop'),
                    f.loc(ret), 'a dict is accepted before its pairs were looked at')
    # class, auto arm
    f = fn(P, REC + '__recognize_user_class')
    node, et = f.fi.params[1], f.fi.params[2]
    acc = [ret for ret, v in accept_returns(f) if v[2] == 'OK' and not f.cfg.enclosing_handlers(ret)]
    outer = [n for n in f.walk() if isinstance(n, ast.For) and isinstance(n.iter, ast.Call)
             and call_name(n.iter) == 'class_subobjects' and norm(n.iter.args[0]) == et]
    for lo in outer[:1]:
        if not (isinstance(lo.target, ast.Tuple) and len(lo.target.elts) == 3):
            continue
        tn = norm(lo.target.elts[1])
        calls = [c for st in lo.body for c in ast.walk(st) if isinstance(c, ast.Call) and call_name(c) == 'recognize']
        good = []
        for c in calls:
            if len(c.args) != 2 or norm(c.args[1]) != tn:
                continue
            a0 = c.args[0]
            # <sub>.yaml_node with sub = W.get_attribute(name) under W.has_attribute(name), W = Node(node)
            if isinstance(a0, ast.Attribute) and a0.attr == 'yaml_node':
                sub = a0.value
                getter = None
                if isinstance(sub, ast.Name):
                    for x in assigned_from(f, sub.id):
                        if isinstance(x, ast.Call) and call_name(x) == 'get_attribute':
                            getter = x
                elif isinstance(sub, ast.Call) and call_name(sub) == 'get_attribute':
                    getter = sub
                if getter is not None and getter.args:
                    w = norm(getter.func.value)
                    nm = norm(getter.args[0])
                    wr = [norm(x) for x in assigned_from(f, w)] if w.isidentifier() else [w]
                    if any(x == 'Node(%s)' % node for x in wr) and f.has_guard(c, '%s.has_attribute(%s)' % (w, nm), True, expand=False):
                        good.append(c)
        if not good:
            r.fail(f.key('attribute-recognition'), f.loc(lo), 'present attributes are not recognised with their declared type')
        for c in good:
            _child_checks(r, f, c, True, 'class attribute', acc, lo)
    r.done()


def r17_4_no_silent_reject(ctx, rid='R17.4'):
    P = ctx.P
    r = ctx.rule(rid, 'no recogniser path returns a verdict whose cardinality may differ from 1 together with REC_OK',
                 floor=8)
    m = P.module('yatiml.recognizer')
    for q, fi in sorted(m.functions.items()):
        if not q.startswith('Recognizer.') or q.endswith('__init__'):
            continue
        f = fn(P, fi.key)
        for ret in f.returns():
            v = verdict(ret)
            if v is None:
                continue
            sk, s, ek, e = v
            if ek == 'OK':
                if sk == 'ONE':
                    r.ok('%s: singleton with REC_OK' % q)
                elif sk == 'VAR' and isinstance(s, ast.Name):
                    adm = f.card(ret, s.id)
                    r.check(adm == {1}, '%s: %s with REC_OK admits only len 1' % (q, s.id), f.key('ok-with-card:%s' % s.id),
                            f.loc(ret), 'a verdict with %s candidates is returned with REC_OK: a failing load would print an '
                            'empty error message' % sorted(adm))
                else:
                    r.fail(f.key('ok-with:%s' % norm(s)), f.loc(ret), 'REC_OK is returned with %s' % norm(s))
            elif ek == 'ERR' and sk == 'ONE':
                r.fail(f.key('accept-with-error'), f.loc(ret), 'a unique match is returned with an error')
        # every exit hands back a (verdict, error) pair: callers unpack it
        if q.split('.')[-1].startswith(('__recognize', 'recognize')):
            bare = [x for x in f.returns() if x.value is None or (isinstance(x.value, ast.Constant) and x.value.value is None)]
            r.check(not f.falls_off_end() and not bare, '%s: every exit returns a verdict pair' % q, f.key('no-verdict-exit'),
                    f.loc(bare[0]) if bare else f.loc(), '%s can end without returning a (types, error) pair: the caller\'s tuple '
                    'unpacking raises TypeError instead of the load reporting a RecognitionError' % q)
    r.done()


# =====================================================================================================
# C04
# =====================================================================================================

UNSAFE_LOADERS = {'Loader', 'FullLoader', 'UnsafeLoader', 'CLoader', 'CFullLoader', 'CUnsafeLoader', 'BaseLoader',
                  'CSafeLoader', 'CBaseLoader'}


def r04_1_safe_base(ctx):
    P = ctx.P
    r = ctx.rule('R04.1', 'yatiml.Loader derives from yaml.SafeLoader only; PyYAML\'s safe constructor registers no '
                          'multi-constructor and maps unknown tags to construct_undefined', floor=4)
    lo = P.cls('yatiml.loader:Loader')
    mro = P.mro(lo)
    keys = [k.key for k in mro]
    r.check('yaml.loader:SafeLoader' in keys, 'Loader MRO contains yaml.loader.SafeLoader', 'yatiml.loader:Loader:bases',
            'yatiml/loader.py', 'yatiml.Loader does not derive from yaml.SafeLoader (MRO: %s)' % keys[:4])
    bad = [k.key for k in mro if k.module.name == 'yaml.loader' and k.name != 'SafeLoader'] + \
          [k.key for k in mro if k.module.name == 'yaml.constructor' and k.name not in ('SafeConstructor', 'BaseConstructor')]
    ext = [b for b in P.external_bases(lo) if b.split('.')[-1] in UNSAFE_LOADERS or 'cyaml' in b]
    r.check(not bad and not ext, 'no unsafe loader/constructor class in the MRO', 'yatiml.loader:Loader:unsafe-base',
            'yatiml/loader.py', 'yatiml.Loader inherits from %s: arbitrary python objects can be constructed' % (bad + ext))
    # nested UserLoader classes derive from Loader
    n_user = 0
    for c in P.module('yatiml.loader').classes.values():
        if c.parent_func is not None and c.name == 'UserLoader':
            n_user += 1
            r.check(P.is_subclass(c, 'yatiml.loader:Loader') and len(c.base_exprs) == 1,
                    '%s derives from yatiml.Loader only' % c.key, c.key + ':bases', 'yatiml/loader.py',
                    '%s does not derive (only) from yatiml.loader.Loader' % c.key)
    if n_user == 0:
        r.fail('yatiml.loader:load_function:no-UserLoader', 'yatiml/loader.py', 'load_function defines no UserLoader class')
    ym = P.module('yaml.constructor')
    multi = [st for st in ym.tree.body if isinstance(st, ast.Expr) and isinstance(st.value, ast.Call)
             and call_name(st.value) == 'add_multi_constructor' and norm(st.value.func.value) in ('SafeConstructor', 'BaseConstructor')]
    tags = safe_constructor_tags(P)
    r.check(not multi and tags.get('None') == 'SafeConstructor.construct_undefined',
            'SafeConstructor: no multi-constructor; None -> construct_undefined', 'yaml.constructor:SafeConstructor:registrations',
            'site-packages/yaml/constructor.py', 'PyYAML\'s SafeConstructor no longer rejects unknown tags')
    r.done()


def _value_classes(P: Program, fi: FunctionInfo, e: ast.AST, depth=3) -> List[ClassInfo]:
    """classes an expression may denote: a class name, a closure variable, or self.<field> set from a constructor
    argument at the (unique) instantiation site of the enclosing class"""
    r = P.resolve_expr(fi.module, e, fi)
    if isinstance(r, ClassInfo):
        return [r]
    if depth == 0:
        return []
    # a class made on the spot from one base, `type(name, (B,), {..})`: whatever B may be (it is a subclass of it, made by this call)
    if isinstance(e, ast.Call) and isinstance(e.func, ast.Name) and e.func.id == 'type' and len(e.args) == 3 \
            and isinstance(e.args[1], ast.Tuple) and len(e.args[1].elts) == 1:
        return _value_classes(P, fi, e.args[1].elts[0], depth)
    # a local that was bound, on its different paths, to expressions that all denote classes
    if isinstance(e, ast.Name) and e.id not in fi.params:
        srcs = assigned_from(fn_of(fi), e.id)
        if srcs and not any(isinstance(x, ast.Name) and x.id == e.id for x in srcs):
            out = []
            for x in srcs:
                got = _value_classes(P, fi, x, depth - 1)
                if not got:
                    return []
                out += got
            return out
    if isinstance(e, ast.Attribute) and isinstance(e.value, ast.Name) and e.value.id == 'self' and fi.cls is not None:
        out = []
        init = fi.cls.methods.get('__init__')
        if init is None:
            return []
        for n in walk_function(init.node):
            if isinstance(n, ast.Assign) and any(norm(t) == 'self.%s' % e.attr for t in n.targets) \
                    and isinstance(n.value, ast.Name) and n.value.id in init.params:
                idx = init.params.index(n.value.id) - 1
                # instantiation sites of the class in its defining scope
                scope = fi.cls.parent_func
                if scope is not None:
                    for c in ast.walk(scope.node):
                        if isinstance(c, ast.Call) and isinstance(c.func, ast.Name) and c.func.id == fi.cls.name \
                                and len(c.args) > idx:
                            out += _value_classes(P, scope, c.args[idx], depth - 1)
                else:
                    # a module-level class: every function of the module that instantiates it
                    sites = 0
                    for g_ in fi.module.functions.values():
                        for c in walk_function(g_.node):
                            if isinstance(c, ast.Call) and isinstance(c.func, ast.Name) and c.func.id == fi.cls.name and len(c.args) > idx:
                                got = _value_classes(P, g_, c.args[idx], depth - 1)
                                sites += 1
                                if not got:
                                    return []
                                out += got
                    if not sites:
                        return []
        return out
    return []


def r04_2_loader_sinks(ctx):
    P = ctx.P
    r = ctx.rule('R04.2', 'every call into yaml.load*/compose* passes Loader= a subclass of yatiml.Loader; unsafe entry '
                          'points are not used', floor=2)
    forbidden = {'unsafe_load', 'unsafe_load_all', 'full_load', 'full_load_all'}
    n = 0
    for fi in P.yatiml_functions():
        for c in walk_function(fi.node):
            if not isinstance(c, ast.Call) or not isinstance(c.func, ast.Attribute):
                continue
            if not (isinstance(c.func.value, ast.Name) and fi.module.imports.get(c.func.value.id) == 'yaml'):
                continue
            name = c.func.attr
            if name in forbidden:
                r.fail('%s:forbidden:%s' % (fi.key, name), fi.loc(c), 'yaml.%s is used' % name)
            elif name in ('load', 'load_all', 'compose', 'compose_all', 'parse', 'scan'):
                n += 1
                le = kwarg(c, 'Loader')
                if le is None and len(c.args) > 1:
                    le = c.args[1]
                cl = _value_classes(P, fi, le) if le is not None else []
                ok = bool(cl) and all(P.is_subclass(k, 'yatiml.loader:Loader') for k in cl)
                r.check(ok, 'yaml.%s(.., Loader=%s) -> %s' % (name, norm(le) if le is not None else None, [k.key for k in cl]),
                        '%s:yaml.%s:Loader' % (fi.key, name), fi.loc(c),
                        'yaml.%s is called with Loader=%s which is not (provably) a subclass of yatiml.Loader'
                        % (name, norm(le) if le is not None else 'nothing'))
            elif name in ('safe_load', 'safe_load_all'):
                r.fail('%s:bypass:%s' % (fi.key, name), fi.loc(c), 'yaml.%s bypasses the yatiml Loader (no type check)' % name)
    ctl = ast.parse('yaml.unsafe_load(x)').body[0].value
    if ctl.func.attr not in forbidden:
        raise AnalysisError('positive control failed')
    r.done()


def r04_3_registrations(ctx):
    P = ctx.P
    r = ctx.rule('R04.3', 'constructors are registered only on yatiml loader classes, only yatiml constructor objects, only '
                          'under "!<ClassName>" tags; no multi/path/implicit registration, no direct table stores', floor=4)
    ctor_classes = {c.name for c in P.module('yatiml.constructors').classes.values()}
    # (add_multi_representer is a dump-side registration: who it is registered *on* is R11.3's business, it constructs nothing)
    banned = {'add_multi_constructor', 'add_path_resolver', 'add_implicit_resolver'}
    tables = {'yaml_constructors', 'yaml_multi_constructors'}
    for fi in P.yatiml_functions():
        f = None
        for n in walk_function(fi.node):
            if isinstance(n, ast.Call) and isinstance(n.func, ast.Attribute):
                if n.func.attr in banned:
                    r.fail('%s:%s' % (fi.key, n.func.attr), fi.loc(n), '%s is used' % n.func.attr)
                if n.func.attr == 'add_constructor':
                    recv = n.func.value
                    recv_ok = False
                    rc = P.resolve_expr(fi.module, recv, fi)
                    if isinstance(rc, ClassInfo) and P.is_subclass(rc, 'yatiml.loader:Loader'):
                        recv_ok = True
                    elif isinstance(recv, ast.Name) and recv.id in fi.params:
                        recv_ok = True      # a class handed in by the caller (add_to_loader's loader_cls)
                    tag = n.args[0] if n.args else None
                    ctor = n.args[1] if len(n.args) > 1 else None
                    f = f or Fn(fi)
                    ts = str_format_const(f.copies.expand(tag)) if tag is not None else None
                    if ts is None and isinstance(tag, ast.Name):
                        rhs = [str_format_const(x) for x in assigned_from(f, tag.id)]
                        ts = rhs[0] if len(rhs) == 1 else None
                    tag_ok = ts is not None and ts.startswith('!') and not ts.startswith('!!') and 'tag:yaml.org' not in ts
                    ctor_ok = isinstance(ctor, ast.Call) and isinstance(ctor.func, ast.Name) and ctor.func.id in ctor_classes
                    r.check(recv_ok and tag_ok and ctor_ok, '%s.add_constructor(%s, %s)' % (norm(recv), ts, norm(ctor)[:40] if ctor else None),
                            '%s:add_constructor:%s' % (fi.key, norm(ctor)[:40] if ctor else ''), fi.loc(n),
                            'add_constructor(%s, %s) on %s: receiver must be a yatiml loader class, the tag a "!Name" tag, '
                            'the callable a yatiml constructor' % (ts or (norm(tag) if tag else None), norm(ctor) if ctor else None, norm(recv)))
            if isinstance(n, (ast.Subscript, ast.Attribute)) and isinstance(getattr(n, 'ctx', None), (ast.Store, ast.Del)):
                base = n.value if isinstance(n, ast.Subscript) else n
                if isinstance(base, ast.Attribute) and base.attr in tables:
                    r.fail('%s:table-store:%s' % (fi.key, base.attr), fi.loc(n), 'direct write to %s' % base.attr)
    # module level registrations
    for m in P.yatiml_modules():
        for st in m.tree.body:
            for n in ast.walk(st) if not isinstance(st, (ast.FunctionDef, ast.ClassDef)) else []:
                if isinstance(n, ast.Call) and isinstance(n.func, ast.Attribute) and (
                        n.func.attr in banned or n.func.attr == 'add_constructor'):
                    r.fail('%s:module-level:%s' % (m.name, n.func.attr), '%s:%d' % (m.path, n.lineno),
                           'module-level %s' % n.func.attr)
    r.done()


FORBIDDEN_CALLS = {'eval', 'exec', 'compile', '__import__', 'import_module', 'system', 'popen', 'Popen', 'run_path',
                   'run_module', 'loads', 'load_module', 'find_class', 'locate'}
FORBIDDEN_MODULES = {'importlib', 'pickle', 'subprocess', 'marshal', 'shelve', 'pydoc', 'runpy', 'ctypes'}


def _tainted(f: Fn, e: ast.AST, depth=2) -> bool:
    """the expression (transitively through one level of local assignments) reads .value or .tag of something"""
    for n in ast.walk(e):
        if isinstance(n, ast.Attribute) and n.attr in ('value', 'tag') and isinstance(n.ctx, ast.Load):
            return True
        if isinstance(n, ast.Name) and depth > 0:
            for rhs in assigned_from(f, n.id):
                if _tainted(f, rhs, depth - 1):
                    return True
            # loop targets over node values
            for x in f.walk():
                if isinstance(x, (ast.For, ast.comprehension)) and any(isinstance(t, ast.Name) and t.id == n.id
                                                                       for t in ast.walk(x.target)):
                    if _tainted(f, x.iter, depth - 1):
                        return True
    return False


def r04_4_no_dynamic_lookup(ctx):
    P = ctx.P
    r = ctx.rule('R04.4', 'nothing named by the document is imported, evaluated or looked up by name', floor=3)
    n_fn = 0
    for fi in P.yatiml_functions():
        n_fn += 1
        f = None
        for n in walk_function(fi.node):
            if isinstance(n, ast.Call):
                nm = call_name(n)
                d = dotted_name(n.func) or ''
                head = d.split('.')[0]
                if (isinstance(n.func, ast.Name) and nm in ('eval', 'exec', 'compile', '__import__')) or \
                        (head in FORBIDDEN_MODULES) or (head == 'os' and nm in ('system', 'popen', 'execv', 'spawnl')):
                    r.fail('%s:forbidden-call:%s' % (fi.key, d or nm), fi.loc(n), 'call of %s' % (d or nm))
                if isinstance(n.func, ast.Name) and nm in ('getattr', 'setattr', 'delattr', 'hasattr') and len(n.args) >= 2:
                    f = f or Fn(fi)
                    if not isinstance(n.args[1], ast.Constant) and _tainted(f, n.args[1]):
                        r.fail('%s:tainted-%s:%s' % (fi.key, nm, norm(n.args[1])), fi.loc(n),
                               '%s with a name taken from the document (%s): the document selects which attribute of a '
                               'python object is read' % (nm, norm(n)))
                    else:
                        r.ok('%s: %s with a name that does not come from the document' % (fi.qual, norm(n)[:50]))
            if isinstance(n, ast.Subscript) and isinstance(n.value, ast.Call) and call_name(n.value) in ('globals', 'locals', 'vars'):
                r.fail('%s:namespace-lookup' % fi.key, fi.loc(n), 'lookup in %s()' % call_name(n.value))
            if isinstance(n, ast.Subscript) and isinstance(n.value, ast.Attribute) and n.value.attr in ('__dict__', 'modules'):
                f = f or Fn(fi)
                if _tainted(f, n.slice):
                    r.fail('%s:tainted-dict-lookup:%s' % (fi.key, norm(n)), fi.loc(n), 'document-keyed lookup %s' % norm(n))
        for n in walk_function(fi.node):
            if isinstance(n, (ast.Import, ast.ImportFrom)):
                r.fail('%s:local-import' % fi.key, fi.loc(n), 'import inside a function')
    for m in P.yatiml_modules():
        for alias in m.imports.values():
            if alias.split('.')[0] in FORBIDDEN_MODULES:
                r.fail('%s:imports:%s' % (m.name, alias), m.path, 'module imports %s' % alias)
    r.ok('%d functions scanned for eval/exec/import/pickle/subprocess and document-keyed getattr (control below)' % n_fn)
    ctl = ast.parse('getattr(self.class_, node.value)').body[0].value
    cf = Fn(P.func('yatiml.constructors:EnumConstructor.__call__'))
    if not _tainted(cf, ctl.args[1]):
        raise AnalysisError('positive control for tainted getattr failed')
    r.ok('positive control: getattr(self.class_, node.value) is recognised as document-keyed')
    # the one document-keyed member lookup is a subscription on the registered enum
    ec = fn(P, 'yatiml.constructors:EnumConstructor.__call__')
    subs = [n for n in ec.walk() if isinstance(n, ast.Subscript) and norm(n.value) == 'self.class_' and isinstance(n.ctx, ast.Load)]
    r.check(len(subs) >= 1, 'EnumConstructor looks members up by subscription self.class_[name] (member names only)',
            ec.key('member-lookup'), ec.loc(), 'EnumConstructor does not look the member up by name through Enum.__getitem__')
    r.done()


def _children_collection(f: Fn, c: ast.Call, node_param: str):
    """The recursion runs over a collection of children gathered first (`children = list(node.value)` for a sequence, the flattened
    pairs for a mapping, nothing otherwise): (sequence items covered, keys covered, values covered), or None if `c` is not of
    that form."""
    loops = [l for l in enclosing_loops(c, f.node) if isinstance(l, ast.For)]
    if not loops:
        return None
    lo = loops[0]
    if not (isinstance(lo.iter, ast.Name) and isinstance(lo.target, ast.Name) and whole_collection_loop(lo)
            and any(isinstance(a, ast.Name) and a.id == lo.target.id for a in c.args)):
        return None
    if [b for b in f.cfg.guard_nodes(f.nid(c)) if any(x is lo for x in _ancestors_list(b.ast))]:
        return None
    defs = reaching_defs(f, lo.iter, lo.iter.id)
    if not defs:
        return None
    val_txt = '%s.value' % node_param
    seq = key = val = False
    for d in defs:
        if not isinstance(d, ast.Assign):
            return None
        v = d.value
        while isinstance(v, ast.Call) and isinstance(v.func, ast.Name) and v.func.id in ('list', 'tuple', 'iter') and len(v.args) == 1 \
                and not v.keywords:
            v = v.args[0]
        g = f.guards(d)
        if (isinstance(v, (ast.List, ast.Tuple)) and not v.elts) or (isinstance(v, ast.Call) and isinstance(v.func, ast.Name)
                                                                      and v.func.id in ('list', 'tuple') and not v.args):
            continue
        if norm(v) == val_txt and known_instance(g, node_param, {'SequenceNode'}):
            seq = True
            continue
        if known_instance(g, node_param, {'MappingNode'}):
            if isinstance(v, (ast.ListComp, ast.GeneratorExp)) and len(v.generators) == 2 and not any(x.ifs for x in v.generators) \
                    and norm(v.generators[0].iter) == val_txt and isinstance(v.elt, ast.Name) \
                    and isinstance(v.generators[1].target, ast.Name) and v.generators[1].target.id == v.elt.id:
                g0, g1 = v.generators
                if isinstance(g0.target, ast.Name) and norm(g1.iter) == g0.target.id:
                    key = val = True            # every component of every pair
                    continue
                if isinstance(g0.target, ast.Tuple) and len(g0.target.elts) == 2 and isinstance(g1.iter, (ast.Tuple, ast.List)):
                    names = [norm(x) for x in g1.iter.elts]
                    key = key or norm(g0.target.elts[0]) in names
                    val = val or norm(g0.target.elts[1]) in names
                    continue
            if isinstance(v, ast.Call) and norm(v.func).endswith('chain.from_iterable') and len(v.args) == 1 and norm(v.args[0]) == val_txt:
                key = val = True
                continue
        return None
    # ... or filled step by step: children.extend(node.value) in the sequence arm, children.append(key) / .append(value) (or
    # .extend((key, value))) in a whole loop over the pairs in the mapping arm
    lname = lo.iter.id
    for m in f.walk():
        if not (isinstance(m, ast.Call) and isinstance(m.func, ast.Attribute) and isinstance(m.func.value, ast.Name) and m.func.value.id == lname
                and m.func.attr in ('append', 'extend') and len(m.args) == 1 and f.live(m)):
            continue
        g = f.guards(m)
        a0 = m.args[0]
        mloops = [l for l in enclosing_loops(m, f.node) if isinstance(l, ast.For)]
        if m.func.attr == 'extend' and norm(a0) in (val_txt, 'list(%s)' % val_txt) and not mloops and known_instance(g, node_param, {'SequenceNode'}):
            seq = True
            continue
        if mloops and norm(mloops[0].iter) == val_txt and whole_collection_loop(mloops[0]) and known_instance(g, node_param, {'MappingNode'}) \
                and not [b for b in f.cfg.guard_nodes(f.nid(m)) if any(x is mloops[0] for x in _ancestors_list(b.ast))]:
            t = mloops[0].target
            if isinstance(t, ast.Tuple) and len(t.elts) == 2:
                names = [norm(a0)] if m.func.attr == 'append' else ([norm(x) for x in a0.elts] if isinstance(a0, (ast.Tuple, ast.List)) else [])
                key = key or norm(t.elts[0]) in names
                val = val or norm(t.elts[1]) in names
                continue
            if isinstance(t, ast.Name) and m.func.attr == 'extend' and norm(a0) == t.id:
                key = val = True
                continue
        if mloops and norm(mloops[0].iter) == val_txt and whole_collection_loop(mloops[0]) and known_instance(g, node_param, {'SequenceNode'}) \
                and m.func.attr == 'append' and norm(a0) == norm(mloops[0].target):
            seq = True
            continue
        return None
    return seq, key, val


def _structural_recursion(r, f: Fn, what: str, node_param: str, self_call_pred, need_tag_store: bool):
    """sequence arm re-applies the function to every element of node.value; mapping arm to both components of every pair"""
    seq_ok = key_ok = val_ok = False
    for c in [n for n in f.walk() if isinstance(n, ast.Call) and self_call_pred(n)]:
        g = f.guards(c)
        it = _iter_var_over(c, '%s.value' % node_param)
        arg = None
        for a in c.args:
            if isinstance(a, ast.Name) and it is not None and any(isinstance(t, ast.Name) and t.id == a.id
                                                                 for t in ast.walk(it[1])):
                arg = a.id
        if it is not None and arg is None and isinstance(it[1], ast.Name) and known_instance(g, node_param, {'MappingNode'}):
            # for pair in node.value: for child in pair: rec(child) - every component of every pair
            inner = [l for l in enclosing_loops(c, f.node) if isinstance(l, ast.For) and isinstance(l.iter, ast.Name)
                     and l.iter.id == it[1].id and isinstance(l.target, ast.Name) and whole_collection_loop(l)
                     and any(isinstance(a, ast.Name) and a.id == l.target.id for a in c.args)]
            filt = [b for b in f.cfg.guard_nodes(f.nid(c)) if any(x is it[0] for x in _ancestors_list(b.ast))]
            if inner and not filt:
                key_ok = val_ok = True
                continue
        if it is None or arg is None:
            got = _children_collection(f, c, node_param)
            if got is not None:
                seq_ok, key_ok, val_ok = seq_ok or got[0], key_ok or got[1], val_ok or got[2]
                continue
            r.fail(f.key('recursion-not-over-children:%s' % norm(c)), f.loc(c), '%s: recursive call is not applied to each '
                   'element of a whole iteration over %s.value' % (what, node_param))
            continue
        inner = [b for b in f.cfg.guard_nodes(f.nid(c)) if any(x is it[0] for x in _ancestors_list(b.ast))]
        if inner:
            r.fail(f.key('recursion-filtered:%s' % norm(c)), f.loc(c), '%s: the recursion into children is conditional on %s'
                   % (what, [norm(b.ast) for b in inner]))
            continue
        if known_instance(g, node_param, {'SequenceNode'}) and isinstance(it[1], ast.Name):
            seq_ok = True
        elif known_instance(g, node_param, {'MappingNode'}) and isinstance(it[1], ast.Tuple) and len(it[1].elts) == 2:
            if norm(it[1].elts[0]) == arg:
                key_ok = True
            if norm(it[1].elts[1]) == arg:
                val_ok = True
    r.check(seq_ok, '%s: sequence arm recurses into every item' % what, f.key('seq-recursion'), f.loc(),
            '%s does not descend into every item of a sequence' % what)
    r.check(key_ok, '%s: mapping arm recurses into every key' % what, f.key('map-key-recursion'), f.loc(),
            '%s does not descend into the keys of a mapping' % what)
    r.check(val_ok, '%s: mapping arm recurses into every value' % what, f.key('map-value-recursion'), f.loc(),
            '%s does not descend into the values of a mapping' % what)


def r04_5_strip_tags(ctx, rid='R04.5', keep_core=False):
    """keep_core: additionally require that a scalar which already carries a core tag keeps it (a quoted '1' under Any is a
    string; re-resolving every scalar would be safe for C04 - nothing is constructed - but changes the value that is built)"""
    P = ctx.P
    r = ctx.rule(rid, 'strip_tags is a complete structural recursion: seq/map tags forced, every element and both pair '
                      'components re-stripped, non-core scalar tags re-resolved', floor=6)
    f = fn(P, 'yatiml.util:strip_tags')
    res, node = f.fi.params[0], f.fi.params[1]
    _structural_recursion(r, f, 'strip_tags', node, lambda n: isinstance(n.func, ast.Name) and n.func.id == 'strip_tags', True)
    seq_store = map_store = sc_store = False
    for n in f.walk():
        if isinstance(n, ast.Assign) and any(norm(t) == '%s.tag' % node for t in n.targets):
            g = f.guards(n)
            v = const_str(n.value)
            inner_loop = enclosing_loops(n, f.node)
            if v is None and isinstance(n.value, ast.Name) and not inner_loop:
                # the plain tag was chosen per arm and is stored once: one definition per arm, each a constant under its kind test
                ds = reaching_defs(f, n, n.value.id)
                handled = bool(ds)
                for d in ds:
                    dv = _const_concat(d.value) if isinstance(d, ast.Assign) else None
                    dg = f.guards(d)
                    extra = [x for x in f.guard_texts(d) + f.guard_texts(n) if 'isinstance' not in x]
                    if dv == CORE + 'seq' and known_instance(dg, node, {'SequenceNode'}) and not extra:
                        seq_store = True
                    elif dv == CORE + 'map' and known_instance(dg, node, {'MappingNode'}) and not extra:
                        map_store = True
                    else:
                        handled = False
                if handled:
                    continue
            if known_instance(g, node, {'SequenceNode'}) and v == CORE + 'seq' and not inner_loop:
                extra = [x for x in f.guard_texts(n) if 'isinstance' not in x]
                seq_store = not extra
            elif known_instance(g, node, {'MappingNode'}) and v == CORE + 'map' and not inner_loop:
                extra = [x for x in f.guard_texts(n) if 'isinstance' not in x]
                map_store = not extra
            elif known_instance(g, node, {'ScalarNode'}) and norm(n.value) == '%s.resolve(yaml.ScalarNode, %s.value, (True, False))' % (res, node):
                pos = [x for x in f.guard_texts(n) if 'isinstance' not in x]
                sc_store = pos in (["not %s.tag.startswith('tag:yaml.org,2002:')" % node], [])
                if keep_core:
                    r.check(pos == ["not %s.tag.startswith('tag:yaml.org,2002:')" % node], 'a scalar that carries a core tag keeps it',
                            f.key('core-scalar-tag-kept'), f.loc(n), 'strip_tags re-resolves every scalar as if it were plain (guards: %s): a '
                            'quoted or explicitly tagged scalar below Any / among the extra attributes changes its type - the string '
                            '\'1\' becomes the int 1, \'true\' a bool, \'null\' None' % pos)
            else:
                r.fail(f.key('tag-store:%s' % norm(n.value)), f.loc(n), 'strip_tags writes %s to a node tag' % norm(n.value))
    r.check(seq_store, 'sequence tag forced to the plain seq tag, unconditionally', f.key('seq-tag'), f.loc(),
            'strip_tags leaves a sequence\'s tag (e.g. !Registered or !!python/tuple) in place')
    r.check(map_store, 'mapping tag forced to the plain map tag, unconditionally', f.key('map-tag'), f.loc(),
            'strip_tags leaves a mapping\'s tag (e.g. !Registered, !!python/object) in place')
    r.check(sc_store, 'a scalar tag outside the core schema is replaced by the implicitly resolved tag', f.key('scalar-tag'),
            f.loc(), 'strip_tags leaves non-core scalar tags in place or resolves them differently')
    r.done()


def r04_7_strip_before_construct(ctx, rid='R04.7'):
    P = ctx.P
    r = ctx.rule(rid, 'extra attributes are stripped of tags before anything is constructed, for every pair, with no '
                      'exemption other than the type-checked attribute names', floor=4)
    f = fn(P, CTOR + '__call__')
    node = f.fi.params[2]
    strips = [c for c in f.calls('__strip_extra_attributes') if f.live(c) and c.args and norm(c.args[0]) == node]
    cons = [c for c in f.calls('construct_mapping') if f.live(c)]
    news = [n for n in f.walk() if isinstance(n, (ast.Yield,))]
    r.check(bool(strips), '__strip_extra_attributes(%s, ..) is called' % node, f.key('strip-call'), f.loc(),
            'extra attributes are never stripped of tags')
    for c in cons:
        r.check(any(f.cfg.dominates(f.nid(s), f.nid(c)) for s in strips), 'strip dominates construct_mapping',
                f.key('strip-before-construct'), f.loc(c), 'construct_mapping can run before/without the extra '
                'attributes being stripped of tags: tagged nodes below them would be constructed as objects')
    g = fn(P, CTOR + '__strip_extra_attributes')
    gnode = g.fi.params[1]
    for c in [c for c in g.calls('strip_tags') if g.live(c)]:
        it = _iter_var_over(c, '%s.value' % gnode)
        # the resolver: the loader of this call - parked on self by __call__, or handed in as a parameter by every caller
        res_ok = len(c.args) == 2 and norm(c.args[0]) == 'self.__loader'
        if len(c.args) == 2 and isinstance(c.args[0], ast.Name) and c.args[0].id in g.fi.params[1:]:
            srcs_ = _param_sources(P, g, c.args[0].id)
            res_ok = bool(srcs_) and all(isinstance(e_, ast.Name) and e_.id == cf_.fi.params[1] and cf_.fi.qual == 'Constructor.__call__'
                                         for cf_, e_ in srcs_)
        ok = it is not None and isinstance(it[1], ast.Tuple) and len(c.args) == 2 and norm(c.args[1]) == norm(it[1].elts[1]) \
            and res_ok
        r.check(ok, 'strip_tags(self.__loader, value) for the value of every pair of %s.value' % gnode,
                g.key('strip-loop'), g.loc(c), 'not every extra attribute value is stripped (loop over %s.value with early '
                'exit, or wrong operand)' % gnode)
        if it is not None:
            inner = [(norm(b.ast), b.pol) for b in g.cfg.guard_nodes(g.nid(c)) if any(x is it[0] for x in _ancestors_list(b.ast))
                     and not isinstance(b.ast, ast.BoolOp)]
            allowed_neg = {"isinstance(key_node, yaml.ScalarNode)", "key_node.tag != 'tag:yaml.org,2002:str'"}
            extra = []
            for t, pol in inner:
                if ' not in ' in t and pol and '.value' in t:
                    continue
                if t.startswith('isinstance(') and pol:
                    continue
                if "tag != 'tag:yaml.org,2002:str'" in t and not pol:
                    continue
                if "tag == 'tag:yaml.org,2002:str'" in t and pol:
                    continue
                extra.append((t, pol))
            r.check(not extra, 'the only condition on stripping is "key is not a constructor parameter"', g.key('strip-condition'),
                    g.loc(c), 'stripping of an extra attribute is additionally conditional on %s: tags below such values survive'
                    % extra)
    # every pair is looked at: inside the loop, neither the "key is a string" test nor the stripping stands under a condition
    # about anything else (seeded: merge keys `<<` skipped with `continue`, so that everything merged in escaped the stripping)
    loops = [l for l in g.walk() if isinstance(l, ast.For) and norm(l.iter) == '%s.value' % gnode]
    for l in loops:
        kv = g.alpha.text(l.target.elts[0]) if isinstance(l.target, ast.Tuple) and l.target.elts else '?'
        sites = [x for x in ast.walk(l) if isinstance(x, ast.Raise)] + [c for c in g.calls('strip_tags') if any(y is c for y in ast.walk(l))]
        for x in sites:
            xn = g.nid(x)
            foreign = []
            for b in (g.cfg.guard_nodes(xn) if xn is not None else []):
                if not any(y is l for y in _ancestors_list(b.ast)):
                    continue
                for a in ast.walk(b.ast):
                    if isinstance(a, (ast.Compare, ast.Call)) and not any(isinstance(p_, (ast.Compare, ast.Call)) and p_ is not a
                                                                          for p_ in _ancestors_list(a) if any(z is p_ for z in ast.walk(b.ast))):
                        t = g.alpha.atom(a, True)[0]
                        if t.startswith('isinstance(%s, ' % kv) and 'ScalarNode' in t:
                            continue
                        if t == "%s.tag == 'tag:yaml.org,2002:str'" % kv:
                            continue
                        if t.startswith('%s.value in ' % kv):
                            continue
                        foreign.append(t)
            r.check(not foreign, 'inside the pair loop the %s depends only on "key is a string scalar" / "key is a parameter"'
                    % ('rejection' if isinstance(x, ast.Raise) else 'stripping'), g.key('pair-loop-condition:%s' % (
                        'raise' if isinstance(x, ast.Raise) else 'strip')), g.loc(x),
                    'inside the loop over the pairs the %s is conditional on %s: such pairs are neither rejected nor stripped, whatever '
                    'they carry is constructed' % ('rejection of non-string keys' if isinstance(x, ast.Raise) else 'stripping', foreign))
    # no normal exit of the strip step bypasses the loop over the pairs
    for rn in g.cfg.returns():
        r.check(bool(loops) and all(g.cfg.dominates(g.nid(l.iter), rn) for l in loops),
                'every normal exit of __strip_extra_attributes has gone through the loop over the pairs', g.key('early-exit'),
                g.loc(g.cfg.nodes[rn].ast) if g.cfg.nodes[rn].ast is not None else g.loc(),
                '__strip_extra_attributes can return before looking at the pairs (early exit): tagged values under extra keys keep '
                'their tags')
    # self.__loader is the loader of this call
    st = [n for n in f.walk() if isinstance(n, ast.Assign) and any(norm(t) == 'self.__loader' for t in n.targets)]
    handed = not st and all(any(norm(a_) == f.fi.params[1] for a_ in s.args[1:]) for s in strips) and bool(strips)
    r.check(handed or (bool(st) and all(norm(n.value) == f.fi.params[1] for n in st)
                       and all(any(f.cfg.dominates(f.nid(n), f.nid(s)) for n in st) for s in strips)),
            'self.__loader is set to this call\'s loader before stripping', f.key('loader-field'), f.loc(),
            'the resolver used for stripping is not the loader of this call')
    r.done()


def r04_9_duplicate_keys(ctx, rid='R04.9'):
    P = ctx.P
    r = ctx.rule(rid, 'Node.get_attribute returns a value only when exactly one key matches (a repeated key cannot be '
                      'type-checked on one occurrence and constructed from another)', floor=1)
    f = fn(P, 'yatiml.helpers:Node.get_attribute')
    rets = f.returns()
    comp = None
    for n in f.walk():
        if isinstance(n, ast.Assign) and isinstance(n.value, ast.ListComp) and isinstance(n.targets[0], ast.Name):
            comp = n.targets[0].id
    for ret in rets:
        ok = False
        if comp is not None and comp in norm(ret.value):
            ok = f.card(ret, comp) == {1}
        r.check(ok, 'get_attribute returns under len(matches) == 1', f.key('return-cardinality'), f.loc(ret),
                'get_attribute returns a value although the key may be absent or repeated (first/last match): with a '
                'repeated key one occurrence is recognised and retagged, another one is constructed')
    if f.falls_off_end():
        r.fail(f.key('returns-none'), f.loc(), 'get_attribute can return None')
    r.done()


# =====================================================================================================
# C10 (hooks) and the converting-handler discipline shared with C08
# =====================================================================================================

HOOK_SITES = [
    ('yatiml.loader:Loader.__savorize', '_yatiml_savorize'),
    ('yatiml.recognizer:Recognizer.__recognize_user_class', '_yatiml_recognize'),
    ('yatiml.representers:Representer.__sweeten', '_yatiml_sweeten'),
    ('yatiml.representers:EnumRepresenter.__call__', '_yatiml_sweeten'),
    ('yatiml.representers:UserStringRepresenter.__call__', '_yatiml_sweeten'),
]


def hook_calls(f: Fn, hook: str) -> List[ast.Call]:
    return [n for n in f.walk() if isinstance(n, ast.Call) and isinstance(n.func, ast.Attribute) and n.func.attr == hook]


def handler_for(f: Fn, a: ast.AST, exc: Set[str]) -> Optional[ast.ExceptHandler]:
    """innermost handler (of a try whose body contains `a`) that catches one of `exc` (or a superclass in CATCHES)"""
    for t in f.cfg.enclosing_handlers(a):
        for h in t.handlers:
            names = f.cfg._handler_names(h)
            if names is None or set(names) & exc:
                return h
    return None


def handler_converts(f: Fn, h: ast.ExceptHandler) -> Tuple[bool, str]:
    """every path through the handler body ends in `raise RecognitionError(..)` or a REJECT return"""
    ends = []

    def walk(stmts):
        """returns True if control can fall off the end of stmts"""
        for st in stmts:
            if isinstance(st, ast.Raise):
                ends.append(st)
                return False
            if isinstance(st, ast.Return):
                ends.append(st)
                return False
            if isinstance(st, ast.If):
                a = walk(st.body)
                b = walk(st.orelse) if st.orelse else True
                if not a and not b:
                    return False
            elif isinstance(st, (ast.For, ast.While, ast.Try, ast.With)):
                return True
        return True
    falls = walk(h.body)
    if falls:
        return False, 'handler can complete normally'
    for e in ends:
        if isinstance(e, ast.Raise):
            if raise_class(e) != 'RecognitionError':
                return False, 'handler raises %s' % (raise_class(e) or 're-raises')
        else:
            v = verdict(e)
            if not v or v[0] != 'EMPTY':
                return False, 'handler returns %s' % norm(e)
    # the handler itself must not fail on the way: format strings are literals, e.args[k] is read under `if e.args`
    for st in h.body:
        for n in ast.walk(st):
            if isinstance(n, ast.Call) and isinstance(n.func, ast.Attribute) and n.func.attr == 'format':
                recv = n.func.value
                srcs = assigned_from(f, recv.id) if isinstance(recv, ast.Name) else [recv]
                if not srcs or any(const_str(x) is None for x in srcs):
                    return False, 'the handler formats with a format string built at run time (%s): a brace in the caught ' \
                                  'message makes format() raise inside the handler' % norm(recv)[:50]
            if isinstance(n, ast.Subscript) and isinstance(n.slice, ast.Constant) and isinstance(n.value, ast.Attribute) \
                    and n.value.attr == 'args' and isinstance(n.ctx, ast.Load):
                if not any(norm(g) == norm(n.value) and p for g, p in f.guards(n)):
                    return False, 'the handler reads %s without `if %s`' % (norm(n), norm(n.value))
    return True, 'ok'


def r10_hooks(ctx, ids=('R10.0', 'R10.1', 'R10.3'), only_hooks=None):
    P = ctx.P
    fl = 5 if only_hooks is None else 1
    r0 = ctx.rule(ids[0], 'each hook is called on every path on which its class defines it', floor=fl)
    r1 = ctx.rule(ids[1], 'a hook is called only under the guard "<hook>" in X.__dict__ for the very class X it is called on '
                           '(hasattr/getattr also see inherited and mix-in definitions)', floor=fl)
    r3 = ctx.rule(ids[2], 'a hook call site is not inside a loop, and the seasoning entry points have exactly one external '
                           'caller, outside any loop', floor=fl)
    for key, hook in HOOK_SITES:
        if only_hooks is not None and hook not in only_hooks:
            continue
        f = fn(P, key)
        calls = hook_calls(f, hook)
        if not calls:
            r0.fail(f.key('no-%s-call' % hook), f.loc(), '%s is never called in %s' % (hook, f.fi.qual))
            continue
        for c in calls:
            X = norm(c.func.value)
            own = "'%s' in %s.__dict__" % (hook, X)
            guarded = f.has_guard(c, own, True, expand=False)
            r1.check(guarded, '%s: %s(..) under %s' % (f.fi.qual, norm(c.func), own), f.key('own-dict-guard:%s' % hook), f.loc(c),
                     '%s.%s is called without the guard %s (guards: %s): an inherited or mixed-in hook would run for a class '
                     'that does not define it' % (X, hook, own, f.guard_texts(c)))
            r3.check(not enclosing_loops(c, f.node), '%s: hook call is not in a loop' % f.fi.qual, f.key('hook-in-loop:%s' % hook),
                     f.loc(c), '%s is called inside a loop: it may run more than once per node' % hook)
            # R10.0: every normal exit passes the call or the "not defined" side
            notdef = branch_nodes(f, lambda a, own=own, X=X, hook=hook: atom_is(a, own, False)
                                  or atom_is(a, "hasattr(%s, '%s')" % (X, hook), False))
            cn = f.nid(c)
            ok = True
            # alternative spellings of the one call (`hook(node, obj)` / `hook(node)` chosen by the hook's signature) count together
            same_recv = {f.nid(c2) for c2 in calls if norm(c2.func) == norm(c.func) and f.nid(c2) is not None}
            for ret in f.cfg.returns():
                if not f.cfg.must_pass(f.cfg.entry, ret, notdef | {cn} | same_recv):
                    # exits inside an except handler that converts are fine
                    node_ast = f.cfg.nodes[ret].ast
                    if node_ast is not None and any(isinstance(a, ast.ExceptHandler) for a in _ancestors_list(node_ast)):
                        continue
                    # REJECT returns ahead of the hook (not for this hook's arm) are fine only in the recogniser
                    ok = False
            if hook == '_yatiml_recognize':
                ok = True
                arm = branch_nodes(f, lambda a, own=own: atom_is(a, own, True))
                r0.check(bool(arm) and all(cn in f.cfg.reachable(b) for b in arm), '%s: the custom recogniser is consulted when '
                         'defined' % f.fi.qual, f.key('hook-called:%s' % hook), f.loc(c), '_yatiml_recognize is not consulted')
                # arguments: UnknownNode(self, node)
                a0 = f.copies.expand(c.args[0]) if c.args else None
                r0.check(a0 is not None and norm(a0) == 'UnknownNode(self, %s)' % f.fi.params[1],
                         'the recogniser receives UnknownNode(self, node)', f.key('hook-arg:%s' % hook), f.loc(c),
                         '_yatiml_recognize receives %s' % (norm(a0) if a0 is not None else None))
            else:
                r0.check(ok, '%s: every normal exit passes the %s call or the not-defined side' % (f.fi.qual, hook),
                         f.key('hook-called:%s' % hook), f.loc(c), 'a path through %s skips %s although the class defines it'
                         % (f.fi.qual, hook))
    # external callers
    for key, name, caller_key in (('yatiml.loader:Loader.__savorize', '__savorize', PN),
                                  ('yatiml.representers:Representer.__sweeten', '__sweeten',
                                   'yatiml.representers:Representer.__call__')):
        ext = []
        for fi in P.yatiml_functions():
            if fi.key == key:
                continue
            for n in walk_function(fi.node):
                if isinstance(n, ast.Call) and call_name(n) == name:
                    ext.append((fi, n))
        ok = len(ext) == 1 and ext[0][0].key == caller_key and not enclosing_loops(ext[0][1], ext[0][0].node)
        r3.check(ok, '%s has exactly one external caller (%s), outside any loop' % (name, caller_key), key + ':external-callers',
                 ext[0][0].loc(ext[0][1]) if ext else key, '%s is called from %s' % (name, [(a.key, a.loc(b)) for a, b in ext]))
    r0.done()
    r1.done()
    r3.done()

    r2 = ctx.rule('R10.2', 'ancestors first, registered only: a loop over X.__bases__ recursing under the registry guard '
                           'dominates the own hook call', floor=3)
    for key, hook, name, reg in (
            ('yatiml.loader:Loader.__savorize', '_yatiml_savorize', '__savorize', ['self._registered_classes.values()']),
            ('yatiml.representers:Representer.__sweeten', '_yatiml_sweeten', '__sweeten', ['{p1}.yaml_representers'])):
        f = fn(P, key)
        reg = [x.format(p1=f.fi.params[1]) for x in reg]
        calls = hook_calls(f, hook)
        rec = [c for c in f.calls(name) if f.live(c)]
        if not calls:
            continue
        X = norm(calls[0].func.value)
        good = False
        why = 'no recursion into the base classes'
        for c in rec:
            loops = [l for l in enclosing_loops(c, f.node) if isinstance(l, ast.For)]
            if not loops:
                why = 'the recursive call is not in a loop over the bases'
                continue
            lo = loops[0]
            if norm(lo.iter) != '%s.__bases__' % X:
                why = 'the ancestor loop iterates over %s instead of %s.__bases__' % (norm(lo.iter), X)
                continue
            bv = norm(lo.target)
            if not any(norm(a) == bv for a in c.args):
                why = 'the recursive call is not given the base class'
                continue
            if not any(f.has_guard(c, '%s in %s' % (bv, rg), True, expand=False) for rg in reg):
                why = 'the recursion is not restricted to registered classes (%s)' % reg
                continue
            if breaks_of(lo, f.node) or [x for x in loop_exits(lo) if isinstance(x, ast.Return)]:
                why = 'the ancestor loop can be left early'
                continue
            if not all(f.cfg.dominates(f.nid(lo.iter), f.nid(h)) for h in calls):
                why = 'the own hook is called before the ancestors\' hooks'
                continue
            # nothing leaves before the ancestors had their turn - a class without a hook of its own still inherits the seasoning
            # of its bases (the only early exit there may be is "this class was visited already")
            early = [x for x in f.returns() if not f.cfg.dominates(f.nid(lo.iter), f.nid(x))
                     and not any(p_ and isinstance(g_, ast.Compare) and len(g_.ops) == 1 and isinstance(g_.ops[0], ast.In)
                                 and norm(g_.left) == X and norm(g_.comparators[0]) in f.fi.params for g_, p_ in f.guards(x))]
            if early:
                why = 'the function returns before the loop over the bases (under %s): a class that has no hook of its own does not get ' \
                      'its base classes\' hooks applied' % [t for t in f.guard_texts(early[0])][:2]
                continue
            if name == '__savorize':
                st = enclosing_stmt(c)
                nodev = f.fi.params[1]
                if not (isinstance(st, ast.Assign) and norm(st.targets[0]) == nodev and any(norm(a) == nodev for a in c.args)):
                    why = 'the node returned by the ancestors\' savorize is not the one passed on'
                    continue
            good = True
        r2.check(good, '%s: loop over %s.__bases__, recursion under the registry guard, before the own hook' % (f.fi.qual, X),
                 f.key('ancestors-first'), f.loc(), '%s: %s' % (f.fi.qual, why))
        # own hook operates on the node that comes out of the ancestors
        if name == '__savorize':
            c = calls[0]
            a0 = c.args[0] if c.args else None
            wrap = [norm(x) for x in assigned_from(f, a0.id)] if isinstance(a0, ast.Name) else []
            rets = f.returns()
            back = [n for n in f.walk() if isinstance(n, ast.Assign) and norm(n.targets[0]) == f.fi.params[1]
                    and isinstance(a0, ast.Name) and norm(n.value) == '%s.yaml_node' % a0.id]
            ok = ('Node(%s)' % f.fi.params[1]) in wrap and all(f.cfg.dominates(f.nid(c), f.nid(b)) for b in back)
            after_hook = f.cfg.reachable(f.nid(c))
            seen_after = False
            for x in rets:
                if f.nid(x) in after_hook:
                    # what comes out of the hook: the wrapper's yaml_node, directly or through the node variable
                    seen_after = True
                    direct = isinstance(a0, ast.Name) and x.value is not None and norm(x.value) == '%s.yaml_node' % a0.id
                    via = isinstance(x.value, ast.Name) and x.value.id == f.fi.params[1] and bool(back) \
                        and f.cfg.must_pass(f.nid(c), f.nid(x), {f.nid(b) for b in back})
                    ok = ok and (direct or via)
                else:
                    ok = ok and isinstance(x.value, ast.Name) and x.value.id == f.fi.params[1]
            ok = ok and seen_after
            r2.check(ok, '__savorize wraps the node, calls the hook, and returns the (possibly replaced) yaml_node',
                     f.key('savorize-dataflow'), f.loc(c), 'the node a savorize hook produced is not what __savorize returns')
    r2.done()

    r4 = ctx.rule('R10.4', 'placement: savorize after recognition and before recursion into children; sweeten after the '
                           'mapping was represented and before it is returned; the replaced node continues', floor=4)
    f = fn(P, PN)
    S, _, _ = recognise_targets(f)
    rt = _extracted_var(f, S)
    node = f.fi.params[1]
    sav = [c for c in f.calls('__savorize') if f.live(c)]
    sites = [f.nid(s) for s in extraction_sites(f, S)]
    for c in sav:
        st = enclosing_stmt(c)
        r4.check(isinstance(st, ast.Assign) and norm(st.targets[0]) == node and len(c.args) == 2 and norm(c.args[0]) == node
                 and norm(c.args[1]) == rt, '%s = self.__savorize(%s, %s)' % (node, node, rt), f.key('savorize-call-shape'),
                 f.loc(c), 'savorize is not applied to (node, recognised type) with its result continuing as the node')
        r4.check(any(f.cfg.dominates(s, f.nid(c)) for s in sites if s is not None), 'savorize follows the uniqueness gate',
                 f.key('savorize-after-recognition'), f.loc(c), 'savorize runs before recognition has decided the type')
        r4.check(any(t.startswith('%s in self._registered_classes' % rt) for t in f.guard_texts(c)),
                 'savorize only for registered classes', f.key('savorize-registered-only'), f.loc(c),
                 'savorize is attempted for types that are not registered classes')
        for rc in [x for x in f.calls('__process_node') if f.live(x)] + \
                [x for x in f.calls('class_subobjects') if f.live(x)]:
            r4.check(must_pass_feasible(f, rc, {f.nid(c)}) or
                     not any(t.startswith('%s in self._registered_classes' % rt) for t in f.guard_texts(rc)),
                     'recursion at %s follows savorize' % f.loc(rc), f.key('savorize-before-children'), f.loc(rc),
                     'attributes are processed before the node was savorized')
    if not sav:
        r4.fail(f.key('no-savorize'), f.loc(), '__process_node never savorizes')
    g = fn(P, 'yatiml.representers:Representer.__call__')
    sw = [c for c in g.calls('__sweeten') if g.live(c)]
    rm = [c for c in g.calls('represent_mapping') if g.live(c)]
    # which argument of __sweeten is the class and which the node: by what the callee does with its parameters (the class is the
    # receiver of the hook call, the node is what the hook is given), not by position
    sweet = fn(P, 'yatiml.representers:Representer.__sweeten')
    hook_calls_ = [x for x in sweet.walk() if isinstance(x, ast.Call) and isinstance(x.func, ast.Attribute) and x.func.attr == '_yatiml_sweeten']
    cls_par = norm(hook_calls_[0].func.value) if hook_calls_ else None
    node_par = norm(hook_calls_[0].args[0]) if hook_calls_ and hook_calls_[0].args else None
    sp = sweet.fi.params[1:]
    for c in sw:
        r4.check(bool(rm) and all(g.cfg.dominates(g.nid(m_), g.nid(c)) for m_ in rm), 'sweeten follows represent_mapping',
                 g.key('sweeten-after-represent'), g.loc(c), 'sweeten runs before the attribute mapping was represented')
        byname = {pn: a for pn, a in zip(sp, c.args)}
        byname.update({k_.arg: k_.value for k_ in c.keywords if k_.arg})
        r4.check(cls_par in byname and norm(byname[cls_par]) == 'self.class_', 'sweeten starts at the represented object\'s class',
                 g.key('sweeten-class'), g.loc(c), 'sweeten is started with %s' % [norm(a) for a in c.args])
        w = byname.get(node_par)
        for ret in g.returns():
            val = g.copies.expand(ret.value) if ret.value is not None else None
            txt = norm(val) if val is not None else ''
            okv = isinstance(w, ast.Name) and ('%s.yaml_node' % w.id) in [norm(x) for x in
                                                                         _flow_sources(g, ret.value)]
            # the walk over the hierarchy may be skipped when it has nothing to apply: `hasattr(<the class>, '_yatiml_sweeten')` is
            # false exactly when no class on the way up defines the hook (attribute lookup goes through the same bases)
            cls_txt = norm(byname[cls_par]) if cls_par in byname else None
            extra = [t for t in g.guard_texts(c) if t not in g.guard_texts(ret)]
            skip_ok = bool(extra) and cls_txt is not None and all(
                t == "hasattr(%s, '_yatiml_sweeten')" % cls_txt for t in extra)
            r4.check((g.cfg.dominates(g.nid(c), g.nid(ret)) or skip_ok) and okv,
                     'the sweetened node (%s.yaml_node) is what is returned, after sweetening' % (w.id if isinstance(w, ast.Name) else w),
                     g.key('sweetened-node-returned'), g.loc(ret), 'Representer.__call__ returns %s, not the sweetened node' % txt)
    if not sw:
        r4.fail(g.key('no-sweeten'), g.loc(), 'Representer.__call__ never sweetens')
    # enum / string-like representers: the node the hook was given (and may have replaced) is what is returned
    for key in ('yatiml.representers:EnumRepresenter.__call__', 'yatiml.representers:UserStringRepresenter.__call__'):
        g = fn(P, key)
        for c in hook_calls(g, '_yatiml_sweeten'):
            if not g.live(c):
                continue
            w = c.args[0] if c.args else None
            okw = isinstance(w, ast.Name) and any(isinstance(x, ast.Call) and call_name(x) == 'Node' for x in assigned_from(g, w.id))
            backs = {g.nid(n) for n in g.walk() if isinstance(n, ast.Assign) and isinstance(w, ast.Name)
                     and norm(n.value) == '%s.yaml_node' % w.id and isinstance(n.targets[0], ast.Name)}
            okr = True
            for ret in g.returns():
                if g.nid(ret) not in g.cfg.reachable(g.nid(c)):
                    continue
                direct = isinstance(w, ast.Name) and ret.value is not None and norm(ret.value) == '%s.yaml_node' % w.id
                via = isinstance(ret.value, ast.Name) and bool(backs) and g.cfg.must_pass(g.nid(c), g.nid(ret), backs) and all(
                    norm(g.cfg.nodes[b].ast.targets[0]) == ret.value.id for b in backs)
                if not (direct or via):
                    okr = False
            r4.check(okw and okr, '%s: the sweetened node (%s.yaml_node) is what is returned' % (g.fi.qual, norm(w) if w is not None else '?'),
                     g.key('sweetened-node-returned'), g.loc(c), '%s: a node replaced by _yatiml_sweeten (Node.set_value installs a new '
                     'node) is dropped: the un-sweetened scalar is dumped' % g.fi.qual)
    r4.done()

    r5 = ctx.rule('R10.5', 'a SeasoningError raised while savourising is converted to RecognitionError', floor=1)
    sv = fn(P, 'yatiml.loader:Loader.__savorize')
    inner = [handler_for(sv, c, {'SeasoningError', 'Exception', 'RuntimeError', 'BaseException'}) for c in hook_calls(sv, '_yatiml_savorize')]
    inner_ok = bool(inner) and all(h is not None and handler_converts(sv, h)[0] for h in inner)
    for c in sav:
        h = handler_for(f, c, {'SeasoningError', 'Exception', 'RuntimeError', 'BaseException'})
        if h is None and inner_ok:
            r5.ok('the _yatiml_savorize call itself sits in a converting handler (inside __savorize)')
        elif h is None:
            r5.fail(f.key('savorize-unhandled'), f.loc(c), 'the savorize call is not inside a handler for SeasoningError')
        else:
            ok, why = handler_converts(f, h)
            r5.check(ok, 'except %s around savorize raises RecognitionError' % norm(h.type) if h.type else 'bare except',
                     f.key('savorize-handler'), f.loc(h), 'the handler around savorize does not convert to RecognitionError: %s' % why)
    r5.done()


def must_pass_feasible(f: Fn, target: ast.AST, through: Set[int]) -> bool:
    """every *feasible* path entry ->* target crosses `through`: paths that take the opposite side of a condition which
    is a (still valid) guard of the target are infeasible and are cut"""
    tn = f.nid(target)
    contra = set()
    for g, pol in f.guards(target):
        txt = norm(g)
        names = {x.id for x in ast.walk(g) if isinstance(x, ast.Name)} - {'self'}
        if any(len(f.changes_of(v)) > 1 for v in names):
            continue
        for b in f.cfg.nodes:
            if b.kind == 'branch' and b.pol != pol and norm(b.ast) == txt and not f.cfg.dominates(b.id, tn):
                contra.add(b.id)
    return f.cfg.must_pass(f.cfg.entry, tn, set(through) | contra)


def _flow_sources(f: Fn, e: ast.AST, depth=3) -> List[ast.AST]:
    """expressions that may flow into `e` through local assignments and casts"""
    out = [e]
    if depth == 0 or e is None:
        return out
    if isinstance(e, ast.Call) and call_name(e) == 'cast' and len(e.args) == 2:
        out += _flow_sources(f, e.args[1], depth - 1)
    if isinstance(e, ast.Name):
        for rhs in assigned_from(f, e.id):
            out += _flow_sources(f, rhs, depth - 1)
    return out


# =====================================================================================================
# dump side: C06, C07 (options), C11, C12
# =====================================================================================================
from ..effects import world, call_closure, direct_writes

DUMP_FACTORIES = ['dumps_function', 'dump_function', 'dumps_json_function', 'dump_json_function']
REPRESENTER_ROOTS = ['yatiml.representers:Representer.__call__', 'yatiml.representers:EnumRepresenter.__call__',
                     'yatiml.representers:UserStringRepresenter.__call__', 'yatiml.representers:PathRepresenter.__call__',
                     'yatiml.dumper:Dumper.represent_ordereddict', 'yatiml.dumper:Dumper.__init__', 'yatiml.dumper:Dumper.emit']


def yaml_calls(P: Program, attr: str) -> List[Tuple[FunctionInfo, ast.Call]]:
    out = []
    for fi in P.yatiml_functions():
        for c in walk_function(fi.node):
            if isinstance(c, ast.Call) and isinstance(c.func, ast.Attribute) and c.func.attr == attr \
                    and isinstance(c.func.value, ast.Name) and fi.module.imports.get(c.func.value.id) == 'yaml':
                out.append((fi, c))
    return out


def factory_of(fi: FunctionInfo) -> Optional[FunctionInfo]:
    p = fi
    while p.parent is not None:
        p = p.parent
    return p


def r06_5_dumper_sinks(ctx, rid='R06.5'):
    P = ctx.P
    r = ctx.rule(rid, 'every yaml.dump call passes Dumper= the UserDumper class created by its own factory (a subclass of '
                      'yatiml.Dumper)', floor=4)
    for fi, c in yaml_calls(P, 'dump') + yaml_calls(P, 'dump_all') + yaml_calls(P, 'safe_dump') + yaml_calls(P, 'serialize'):
        if c.func.attr in ('safe_dump', 'serialize'):
            r.fail('%s:%s' % (fi.key, c.func.attr), fi.loc(c), 'yaml.%s bypasses the yatiml Dumper' % c.func.attr)
            continue
        de = kwarg(c, 'Dumper')
        cl = _value_classes(P, fi, de) if de is not None else []
        fac = factory_of(fi)
        # the callable may be a module-level class that is handed the factory's class: then the class must still be one that a
        # factory function made for this call (not a dumper shared at module level)
        module_level = fi.cls is not None and fi.cls.parent_func is None
        ok = bool(cl) and all(P.is_subclass(k, 'yatiml.dumper:Dumper') and (k.parent_func is fac or (module_level and k.parent_func is not None))
                              for k in cl)
        sink = 'stream' if len(c.args) > 1 else 'string'
        r.check(ok, '%s: yaml.dump(.., Dumper=%s) -> %s' % (fi.qual, norm(de) if de is not None else None, [k.qual for k in cl]),
                '%s:yaml.dump:Dumper:%s' % (fi.key, _site_tag(fi, c)), fi.loc(c),
                'yaml.dump (%s sink) is called with Dumper=%s: PyYAML\'s default Dumper would emit !!python/object tags and '
                'ignore the registered representers' % (sink, norm(de) if de is not None else 'nothing'))
    r.done()


def _site_tag(fi: FunctionInfo, c: ast.Call) -> str:
    """stable name of a yaml.dump call site: which sink branch it serves"""
    f = fn_of(fi)
    gs = f.guard_texts(c)
    if any('isinstance(sink, Path)' == g for g in gs):
        return 'path-sink'
    if any('not isinstance(sink, Path)' == g for g in gs):
        return 'stream-sink'
    return 'string' if len(c.args) <= 1 else 'sink'


def fn_of(fi: FunctionInfo) -> Fn:
    f = fi.__dict__.get('_fn_facts')
    if f is None:
        f = fi.__dict__['_fn_facts'] = Fn(fi)
    return f


def r12_sinks(ctx):
    P = ctx.P
    dumps = yaml_calls(P, 'dump')
    by_factory: Dict[str, List[Tuple[FunctionInfo, ast.Call]]] = {}
    for fi, c in dumps:
        by_factory.setdefault(factory_of(fi).name, []).append((fi, c))

    def kwset(c, fi=None):
        """the options a yaml.dump site passes; options handed over as `**d`, with d a local dict filled by `if C: d[k] = v`
        statements, are written out as the conditional value they amount to (absent = PyYAML's default for that option)"""
        out = {}
        for k in c.keywords:
            if k.arg == 'Dumper':
                continue
            if k.arg is not None:
                out[k.arg] = norm(k.value)
                continue
            eff = _star_options(fi, c, k.value) if fi is not None else None
            if eff is None:
                out[None] = norm(k.value)
            else:
                out.update(eff)
        return out

    def _star_options(fi, c, e):
        if not isinstance(e, ast.Name):
            return None
        f_ = fn_of(fi)
        name = e.id
        inits = [n for n in f_.walk() if isinstance(n, ast.Assign) and len(n.targets) == 1 and norm(n.targets[0]) == name]
        if len(inits) != 1 or norm(inits[0].value) not in ('dict()', '{}'):
            return None
        defaults = _pyyaml_dump_defaults(P)
        out = {}
        for n in f_.walk():
            if isinstance(n, ast.Name) and n.id == name and n is not e and n is not inits[0].targets[0]:
                par = parent(n)
                st = parent(par) if par is not None else None
                if isinstance(par, ast.keyword) and par.arg is None:
                    continue        # handed on as **options at another dump site
                if not (isinstance(par, ast.Subscript) and isinstance(par.ctx, ast.Store) and isinstance(par.slice, ast.Constant)
                        and isinstance(st, ast.Assign) and len(st.targets) == 1 and st.targets[0] is par):
                    return None
                key = par.slice.value
                gs = [(g, p) for g, p in f_.guards(st)]
                own = [(g, p) for g, p in gs if (g, p) not in [(a, b) for a, b in f_.guards(inits[0])]]
                if len(own) > 1 or key in out or key not in defaults:
                    return None
                val = st.value
                if not own:
                    out[key] = norm(val)
                    continue
                g, p = own[0]
                t, pol = canon_atom(g, p)
                dflt = defaults[key]
                # `if x is not None: d[k] = x`  (default None)  is  k=x
                if pol is False and t == '%s is None' % norm(val) and dflt == 'None':
                    out[key] = norm(val)
                # `if not b: d[k] = True` (default None / False: falsy)  is  k=not b   as far as truth goes
                elif isinstance(val, ast.Constant) and val.value is True and dflt in ('None', 'False'):
                    out[key] = ('not %s' % t) if not pol else t
                    if out[key].startswith('not not '):
                        out[key] = out[key][8:]
                else:
                    return None
        return out

    r1 = ctx.rule('R12.1', 'YAML sinks: the string variant and both file/stream branches call yaml.dump with the same options',
                  floor=2)
    sites = by_factory.get('dumps_function', []) + by_factory.get('dump_function', [])
    jsites_ = by_factory.get('dumps_json_function', []) + by_factory.get('dump_json_function', [])

    def passed_through(fi, kw, base):
        """options beyond the base set that a site passes straight from a parameter of the same name (`sort_keys=sort_keys`):
        {name: default text} - None if some extra option is anything else"""
        out = {}
        a_ = fi.node.args
        dflt = {}
        pos = a_.posonlyargs + a_.args
        for p_, d_ in zip(pos[len(pos) - len(a_.defaults):], a_.defaults):
            dflt[p_.arg] = norm(d_)
        for p_, d_ in zip(a_.kwonlyargs, a_.kw_defaults):
            if d_ is not None:
                dflt[p_.arg] = norm(d_)
        for k_, v_ in kw.items():
            if k_ in base:
                continue
            if k_ is None or v_ != k_ or k_ not in dflt:
                return None
            out[k_] = dflt[k_]
        return out
    # an option that one sink takes, every sink takes - with the same default (a new option is fine, a sink that forgets it is not)
    extras_all = [passed_through(fi, kwset(c, fi), set()) for fi, c in sites] + \
        [passed_through(fi, kwset(c, fi), {'indent', 'allow_unicode'}) for fi, c in jsites_]
    common = extras_all[0] if extras_all and all(e is not None and e == extras_all[0] for e in extras_all) else None
    for fi, c in sites:
        kw = kwset(c, fi)
        ok = (kw == {} or (common is not None and kw == {k_: k_ for k_ in common})) and bool(c.args) and len(fi.params) > 1 \
            and norm(c.args[0]) == fi.params[1]
        r1.check(ok, '%s %s: yaml.dump(obj%s) with %s' % (fi.qual, _site_tag(fi, c), ', sink' if len(c.args) > 1 else '',
                                                       'no further options' if not kw else 'the options every sink passes on: %s' % sorted(kw)),
                 '%s:yaml.dump:options:%s' % (fi.key, _site_tag(fi, c)),
                 fi.loc(c), 'YAML dump site passes %s%s: the text differs from what the other sinks produce'
                 % (kw, '' if common is not None or not kw else ' (the sinks do not all pass the same options with the same defaults: %s)' % extras_all))
    r1.done()

    r2 = ctx.rule('R12.2', 'JSON sinks: all three yaml.dump sites pass indent=<param indent> and allow_unicode=not <param '
                           'ensure_ascii>', floor=2)
    jsites = by_factory.get('dumps_json_function', []) + by_factory.get('dump_json_function', [])
    for fi, c in jsites:
        kw = kwset(c, fi)
        want_kw = {'indent': 'indent', 'allow_unicode': 'not ensure_ascii'}
        if common:
            want_kw.update({k_: k_ for k_ in common})
        ok = kw == want_kw and 'indent' in fi.params and 'ensure_ascii' in fi.params
        r2.check(ok, '%s %s: indent=indent, allow_unicode=not ensure_ascii' % (fi.qual, _site_tag(fi, c)),
                 '%s:yaml.dump:json-options:%s' % (fi.key, _site_tag(fi, c)), fi.loc(c),
                 'JSON dump site passes %s instead of indent=indent, allow_unicode=not ensure_ascii: this sink ignores or '
                 'inverts an option the other sinks honour' % kw)
    r2.done()

    r3 = ctx.rule('R12.3', 'sibling factories configure their UserDumper identically (output_format, effective representer '
                           'registrations, add_to_dumper(UserDumper, list(args)))', floor=4)
    conf = {}
    for name in DUMP_FACTORIES:
        fi = P.func('yatiml.dumper:' + name)
        f = fn_of(fi)
        ud = [c for c in fi.module.classes.values() if c.parent_func is fi and c.name == 'UserDumper']
        fmt = None
        if ud:
            v = ud[0].class_attrs.get('output_format')
            # ... or set on the class right after it was made
            for n_ in f.walk():
                if isinstance(n_, ast.Assign) and len(n_.targets) == 1 and norm(n_.targets[0]) == 'UserDumper.output_format' \
                        and not f.guards(n_) and not enclosing_loops(n_, f.node):
                    v = n_.value
            fmt = const_str(v) if v is not None else 'yaml'
        # (the class list may travel through a local bound once: named by what it is bound to)
        add = ['add_to_dumper(%s)' % ', '.join(f.alpha.text(a_) for a_ in c.args) for c in f.calls('add_to_dumper') if not c.keywords]
        regs = sorted({(short_class(fi.module, c.args[0]), norm(c.args[1])) for c in f.calls('add_representer') if len(c.args) == 2})
        # registrations inherited from Dumper at module level are part of the effective table
        inherited = module_representers(P)
        eff = sorted(set(regs) | set(inherited))
        conf[name] = (fmt, add, eff, len(ud))
        r3.check(len(ud) == 1 and P.is_subclass(ud[0], 'yatiml.dumper:Dumper') and add == ['add_to_dumper(UserDumper, list(args))'],
                 '%s: fresh UserDumper(Dumper) + add_to_dumper(UserDumper, list(args))' % name, 'yatiml.dumper:%s:configuration' % name,
                 fi.loc(), '%s does not register the given classes on its own UserDumper (%s)' % (name, add))
    for a, b, fmt in (('dumps_function', 'dump_function', 'yaml'), ('dumps_json_function', 'dump_json_function', 'json')):
        r3.check(conf[a][0] == conf[b][0] == fmt and conf[a][2] == conf[b][2],
                 '%s and %s: output_format %s, same effective representers' % (a, b, fmt), 'yatiml.dumper:%s-vs-%s' % (a, b),
                 'yatiml/dumper.py', '%s and %s are configured differently: %s vs %s' % (a, b, conf[a][:3], conf[b][:3]))
    r3.done()

    r4 = ctx.rule('R12.4', 'sources and sinks are normalised, not special-cased: str sink -> Path; only a Path is opened (text '
                           'mode) and only what this function opened is closed; every other object goes to PyYAML unchanged', floor=6)
    for key in ['yatiml.dumper:dump_function.DumpFunction.__call__', 'yatiml.dumper:dump_json_function.DumpJsonFunction.__call__',
                'yatiml.loader:load_function.LoadFunction.__call__']:
        f = fn(P, key)
        io = f.fi.params[2] if 'dumper' in key else f.fi.params[1]
        is_dump = 'dumper' in key
        # E12: the function is run abstractly once per documented kind of source/sink; what it opens, closes and hands to PyYAML
        # is compared with the documented behaviour for that kind
        from ..iokind import KindRun, KINDS, Unsupported as IoUnsupported, describe
        mode = 'w' if is_dump else 'r'
        yname = 'dump' if is_dump else 'load'
        for kind in KINDS:
            try:
                run = KindRun(f.fi.node, io, kind)
            except IoUnsupported as e:
                r4.fail(f.key('io-form:%s' % kind), f.loc(), '%s is not in a form whose treatment of a %s can be followed (%s)'
                        % (f.fi.qual, kind, e))
                continue
            if kind == 'str' and is_dump:
                want_open = ('path', ('io', 'str'))
            elif kind == 'Path':
                want_open = ('io', 'Path')
            else:
                want_open = None
            normal = [p_ for p_ in run.paths if p_.end != 'raise']
            r4.check(bool(normal), '%s, %s: returns normally on some path' % (f.fi.qual, kind), f.key('io:%s:returns' % kind), f.loc(),
                     'a %s %s is always rejected' % (kind, 'sink' if is_dump else 'source'))
            for p_ in run.paths:
                und = sorted(set(p_.undecided))
                r4.check(not und, '%s, %s: every branch on the %s is decided by its kind' % (f.fi.qual, kind, 'sink' if is_dump else 'source'),
                         f.key('branch:%s' % (und[0][:40] if und else '')), f.loc(),
                         'the %s is special-cased by `%s`: equal documents/values are treated differently depending on the content or '
                         'another property of the %s' % ('sink' if is_dump else 'source', und[0] if und else '', 'sink' if is_dump else 'source'))
                if p_.end == 'raise':
                    continue
                opens = [e for e in p_.events if e[0] in ('with-open', 'open')]
                yamls = [e for e in p_.events if e[0] == 'yaml']
                others = [e for e in p_.events if e[0] not in ('with-open', 'yaml')]
                if want_open is None:
                    ok_open = not opens
                    want_stream = ('io', kind)
                else:
                    ok_open = len(opens) == 1 and opens[0] == ('with-open', want_open, ("'%s'" % mode,))
                    want_stream = ('opened', want_open, ("'%s'" % mode,))
                r4.check(ok_open, '%s, %s: %s' % (f.fi.qual, kind, 'opens exactly %s in text mode %r under `with`' % (describe(want_open), mode)
                                                   if want_open else 'opens nothing'),
                         f.key('io:%s:open' % kind), f.loc(),
                         'for a %s the function opens %s (documented: %s)' % (
                             kind, '; '.join('%s %s (%s)' % (e[0], describe(e[1]), ', '.join(e[2])) for e in opens) or 'nothing',
                             ('with %s.open(%r)' % (describe(want_open), mode)) if want_open else 'nothing is opened: the object goes to '
                             'PyYAML as it is'))
                r4.check(not others, '%s, %s: the %s is not read, written or closed here' % (f.fi.qual, kind, 'sink' if is_dump else 'source'),
                         f.key('io:%s:touch:%s' % (kind, others[0][0] if others else '')), f.loc(),
                         'for a %s the function itself calls %s on %s: a stream handed in by the caller is closed / consumed, or a file '
                         'is handled outside `with`' % (kind, others[0][0] if others else '', describe(others[0][1]) if others else ''))
                ok_y = len(yamls) == 1 and yamls[0][1] == yname and yamls[0][2] == want_stream
                r4.check(ok_y, '%s, %s: yaml.%s receives %s' % (f.fi.qual, kind, yname, describe(want_stream)),
                         f.key('io:%s:yaml-arg' % kind), f.loc(), 'for a %s, PyYAML receives %s (documented: one yaml.%s on %s)' % (
                             kind, '; '.join('yaml.%s(%s)' % (e[1], describe(e[2])) for e in yamls) or 'nothing', yname, describe(want_stream)))
    # both branches of LoadFunction.__call__ pass the same Loader
    lf = fn(P, 'yatiml.loader:load_function.LoadFunction.__call__')
    ls = {norm(kwarg(c, 'Loader')) if kwarg(c, 'Loader') is not None else None for fi2, c in yaml_calls(P, 'load') if fi2.key == lf.fi.key}
    r4.check(len(ls) == 1 and None not in ls, 'both load branches pass Loader=%s' % sorted(ls), lf.key('same-loader'), lf.loc(),
             'the load branches use different loaders: %s' % ls)
    r4.done()

    r5 = ctx.rule('R12.5', 'the two JSON __call__s have the same defaults for indent and ensure_ascii', floor=1)
    sigs = {}
    for key in ['yatiml.dumper:dumps_json_function.DumpsJsonFunction.__call__', 'yatiml.dumper:dump_json_function.DumpJsonFunction.__call__']:
        fi = P.func(key)
        a = fi.node.args
        d = {}
        pos = a.posonlyargs + a.args
        for p_, dflt in zip(pos[len(pos) - len(a.defaults):], a.defaults):
            d[p_.arg] = norm(dflt)
        for p_, dflt in zip(a.kwonlyargs, a.kw_defaults):
            if dflt is not None:
                d[p_.arg] = norm(dflt)
        sigs[key] = {k: d.get(k) for k in ('indent', 'ensure_ascii')}
    # the options are also accepted by position: the two functions (and their Protocol declarations) list them in the same order
    orders = {}
    for key in ['yatiml.dumper:dumps_json_function.DumpsJsonFunction.__call__', 'yatiml.dumper:dump_json_function.DumpJsonFunction.__call__',
                'yatiml.dumper:DumpsJsonFunctionType.__call__', 'yatiml.dumper:DumpJsonFunctionType.__call__']:
        if not P.has_func(key):
            continue
        a_ = P.func(key).node.args
        orders[key] = [x.arg for x in a_.posonlyargs + a_.args + a_.kwonlyargs if x.arg in ('indent', 'ensure_ascii')]
    r5.check(len({tuple(v) for v in orders.values()}) == 1 and len(orders) >= 2, 'indent and ensure_ascii come in the same order in every '
             'JSON __call__ signature', 'yatiml.dumper:json-option-order', 'yatiml/dumper.py', 'the JSON dump functions take their options '
             'in different orders (%s): a positional `dump_json(obj, sink, 2)` formats differently from `dumps_json(obj, 2)`'
             % {k.split(':')[1]: v for k, v in orders.items()})
    vals = list(sigs.values())
    r5.check(vals[0] == vals[1] == {'indent': 'None', 'ensure_ascii': 'True'}, 'defaults indent=None, ensure_ascii=True in both',
             'yatiml.dumper:json-defaults', 'yatiml/dumper.py', 'JSON option defaults differ or changed: %s' % sigs)
    r5.done()


def short_class(m, e: ast.AST) -> str:
    """the class an expression names, by its own name: `PosixPath` and `pathlib.PosixPath` (whatever the import style) are both
    PosixPath"""
    dn = dotted_name(e)
    if dn is None:
        return norm(e)
    head, _, rest = dn.partition('.')
    full = m.imports.get(head, head) + ('.' + rest if rest else '')
    return full.rsplit('.', 1)[-1]


def _pyyaml_dump_defaults(P: Program) -> Dict[str, str]:
    """defaults of the keyword options of yaml.dump_all (what an option that is not passed amounts to)"""
    fi = P.func('yaml:dump_all')
    a = fi.node.args
    pos = a.posonlyargs + a.args
    out = {}
    for p_, d in zip(pos[len(pos) - len(a.defaults):], a.defaults):
        out[p_.arg] = norm(d)
    for p_, d in zip(a.kwonlyargs, a.kw_defaults):
        if d is not None:
            out[p_.arg] = norm(d)
    return out


def module_representers(P: Program) -> List[Tuple[str, str]]:
    m = P.module('yatiml.dumper')
    out = []
    for st in m.tree.body:
        if isinstance(st, ast.Expr) and isinstance(st.value, ast.Call) and call_name(st.value) == 'add_representer' \
                and norm(st.value.func.value) == 'Dumper' and len(st.value.args) == 2:
            out.append((short_class(m, st.value.args[0]), norm(st.value.args[1])))
    return out
