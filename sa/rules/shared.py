"""Rules over the load pipeline (loader / recognizer / constructors / util) shared by C01-C04, C13, C17, C18."""
import ast
from typing import Dict, List, Optional, Set, Tuple

from ..model import AnalysisError, Program, ClassInfo, FunctionInfo, walk_function, parent, dotted_name
from ..guards import (norm, card_admitted, name_subject, isinstance_atom, known_instance, tag_equalities,
                      call_name, const_str, kwarg, Copies, card_truth)
from ..facts import (Fn, verdict, whole_collection_loop, enclosing_loops, enclosing_stmt, str_format_const,
                     assigned_from, CORE, MUTATORS, loop_exits)
from ..cfg import conj_atoms

PN = 'yatiml.loader:Loader.__process_node'
REC = 'yatiml.recognizer:Recognizer.'

_fn_cache: Dict[Tuple[int, str], Fn] = {}


def fn(P: Program, key: str) -> Fn:
    k = (id(P), key)
    if k not in _fn_cache:
        if len(_fn_cache) > 400:
            _fn_cache.clear()
        _fn_cache[k] = Fn(P.func(key))
    return _fn_cache[k]


def is_none_test(atoms, names: Set[str]) -> bool:
    """guards establish that one of `names` is None"""
    for g, pol in atoms:
        if isinstance(g, ast.Compare) and len(g.ops) == 1 and isinstance(g.left, ast.Name) and g.left.id in names \
                and isinstance(g.comparators[0], ast.Constant) and g.comparators[0].value is None:
            if (isinstance(g.ops[0], ast.Is) and pol) or (isinstance(g.ops[0], ast.IsNot) and not pol):
                return True
            if (isinstance(g.ops[0], ast.Eq) and pol) or (isinstance(g.ops[0], ast.NotEq) and not pol):
                return True
    return False


def raise_class(r: ast.Raise) -> Optional[str]:
    e = r.exc
    if e is None:
        return None
    if isinstance(e, ast.Call):
        e = e.func
    return dotted_name(e).split('.')[-1] if dotted_name(e) else None


# =====================================================================================================
# C01
# =====================================================================================================

def r01_1_entry(ctx):
    """R01.1: get_single_node returns __process_node(composed node, document_type) for a non-None document"""
    P = ctx.P
    r = ctx.rule('R01.1', 'Loader.get_single_node hands every composed document to __process_node with the '
                          'document type and returns its result', floor=2)
    f = fn(P, 'yatiml.loader:Loader.get_single_node')
    calls = [c for c in f.calls('__process_node') if f.live(c)]
    ok_types = {'type(self).document_type', 'self.document_type', 'self.__class__.document_type'}
    if not calls:
        r.fail(f.key('no-process-node-call'), f.loc(), 'get_single_node never calls __process_node: documents are '
               'constructed without recognition/type checking')
    for c in calls:
        t = norm(c.args[1]) if len(c.args) > 1 else None
        r.check(t in ok_types, 'get_single_node processes with %s' % t, f.key('process-type:%s' % t), f.loc(c),
                '__process_node is called with %s instead of the loader\'s document_type' % t)
        a0 = c.args[0]
        src_ok = False
        if isinstance(a0, ast.Name):
            for rhs in assigned_from(f, a0.id):
                if 'super().get_single_node()' in norm(rhs):
                    src_ok = True
        elif 'super().get_single_node()' in norm(a0):
            src_ok = True
        r.check(src_ok, 'the processed node is the one composed by super().get_single_node()',
                f.key('processed-node-source'), f.loc(c), 'the node given to __process_node is not the composed document')
    call_nids = {f.nid(c) for c in calls}
    names = {c.args[0].id for c in calls if isinstance(c.args[0], ast.Name)}
    for ret in f.returns():
        rn = f.nid(ret)
        if ret.value is None or (isinstance(ret.value, ast.Constant) and ret.value.value is None):
            nonefree = is_none_test(f.guards(ret), names)
            r.check(nonefree, 'return None only for an empty document', f.key('return-none'), f.loc(ret),
                    'get_single_node returns None for a non-empty document')
            continue
        # a path reaching this return without the call must be one on which the composed node is None
        avoid = set(call_nids)
        reach = f.cfg.reachable(f.cfg.entry, avoid=avoid)
        if rn in reach:
            # find whether all such paths go through a "node is None" branch: remove those branch nodes too
            none_br = {b.id for b in f.cfg.nodes if b.kind == 'branch' and is_none_test(conj_atoms(b.ast, b.pol), names)}
            reach2 = f.cfg.reachable(f.cfg.entry, avoid=avoid | none_br)
            r.check(rn not in reach2, 'a return that bypasses __process_node is only reached when the document is None',
                    f.key('return-bypasses-process-node'), f.loc(ret),
                    'a path returns the composed node without passing it through __process_node')
        else:
            r.ok('return at %s is reached only through __process_node' % f.loc(ret))
        # the returned value is the processed node
        if isinstance(ret.value, ast.Name):
            rhs = [norm(x) for x in assigned_from(f, ret.value.id)]
            r.check(any('__process_node' in x for x in rhs), 'returned name is bound to the result of __process_node',
                    f.key('returned-value'), f.loc(ret), 'the value returned is not the result of __process_node')
    r.done()


def recognise_targets(f: Fn) -> Tuple[Optional[str], Optional[str], Optional[ast.Call]]:
    """(set var, error var, call) of `S, E = self.__recognizer.recognize(node, expected_type)` in f"""
    for n in f.walk():
        if isinstance(n, ast.Assign) and isinstance(n.value, ast.Call) and call_name(n.value) == 'recognize' \
                and len(n.targets) == 1 and isinstance(n.targets[0], ast.Tuple) and len(n.targets[0].elts) == 2 \
                and all(isinstance(e, ast.Name) for e in n.targets[0].elts):
            return n.targets[0].elts[0].id, n.targets[0].elts[1].id, n.value
    return None, None, None


def extraction_sites(f: Fn, S: str) -> List[ast.AST]:
    """expressions that pick one element out of the candidate set S"""
    out = []
    for n in f.walk():
        if isinstance(n, ast.Call) and call_name(n) == 'next' and n.args and isinstance(n.args[0], ast.Call) \
                and call_name(n.args[0]) == 'iter' and n.args[0].args and norm(n.args[0].args[0]) == S:
            out.append(n)
        elif isinstance(n, ast.Call) and isinstance(n.func, ast.Attribute) and n.func.attr == 'pop' \
                and norm(n.func.value) == S:
            out.append(n)
        elif isinstance(n, ast.Subscript) and isinstance(n.value, ast.Call) and call_name(n.value) in ('list', 'tuple', 'sorted') \
                and n.value.args and norm(n.value.args[0]) == S:
            out.append(n)
        elif isinstance(n, ast.Subscript) and norm(n.value) == S and isinstance(n.ctx, ast.Load):
            out.append(n)
        elif isinstance(n, ast.Assign) and isinstance(n.targets[0], (ast.Tuple, ast.List)) and norm(n.value) == S:
            out.append(n)
        elif isinstance(n, ast.For) and norm(n.iter) == S:
            out.append(n.iter)
    return out


def r01_2_gate(ctx):
    P = ctx.P
    r = ctx.rule('R01.2', 'in __process_node the recognised type is extracted only where exactly one candidate is '
                          'admitted; every other cardinality leaves via raise RecognitionError', floor=3)
    f = fn(P, PN)
    S, E, call = recognise_targets(f)
    if S is None:
        raise AnalysisError('anchor missing: `S, E = self.__recognizer.recognize(..)` in %s' % PN)
    a = [norm(x) for x in call.args]
    params = f.fi.params
    r.check(len(a) == 2 and a[0] == params[1] and a[1] == params[2],
            'recognition is asked for the processed node and the expected type',
            f.key('recognize-args'), f.loc(call), 'recognize() is called with %s, not (node, expected_type)' % a)
    sites = extraction_sites(f, S)
    if not sites:
        r.fail(f.key('no-extraction'), f.loc(), 'the recognised type is never taken from the candidate set')
    for s in sites:
        adm = f.card(s, S)
        r.check(adm == {1}, 'extraction %s admits len(%s) in %s' % (norm(s), S, sorted(adm)),
                f.key('gate:%s' % norm(s)), f.loc(s),
                'the recognised type is extracted where len(%s) may be %s (0 = nothing recognised, >=2 = ambiguous): '
                'the node would be constructed as an arbitrary candidate' % (S, sorted(adm)),
                {'guards': f.guard_texts(s)})
    # the paths cut off by the gate raise RecognitionError, and nothing returns before the gate
    for rs in f.raises():
        g = f.guards(rs)
        adm = card_admitted(g, name_subject(S))
        if adm != set((0, 1, 2, 3)) and 1 not in adm:
            r.check(raise_class(rs) == 'RecognitionError', 'gate raises RecognitionError',
                    f.key('gate-raise'), f.loc(rs), 'the uniqueness gate raises %s' % raise_class(rs))
    site_nids = {f.nid(s) for s in sites}
    for ret in f.returns():
        ok = any(f.cfg.dominates(sn, f.nid(ret)) for sn in site_nids if sn is not None)
        r.check(ok, 'return at %s is dominated by the uniqueness gate' % f.loc(ret), f.key('return-before-gate'),
                f.loc(ret), '__process_node returns on a path that did not pass the uniqueness gate')
    r.done()
    return S


def _extracted_var(f: Fn, S: str) -> Optional[str]:
    for n in f.walk():
        if isinstance(n, ast.Assign) and len(n.targets) == 1 and isinstance(n.targets[0], ast.Name):
            if any(x in extraction_sites(f, S) for x in ast.walk(n.value)):
                return n.targets[0].id
    return None


def _iter_var_over(e: ast.AST, coll_text: str) -> Optional[Tuple[ast.AST, ast.AST]]:
    """if expression `e` lies in a whole-collection iteration over `coll_text`, return (iteration construct, target)"""
    n = e
    p = parent(n)
    while p is not None and not isinstance(p, (ast.FunctionDef, ast.AsyncFunctionDef)):
        if isinstance(p, (ast.ListComp, ast.GeneratorExp)):
            for g in p.generators:
                if norm(g.iter) == coll_text and not g.ifs and len(p.generators) == 1:
                    return p, g.target
        if isinstance(p, ast.For) and any(n is s for s in p.body):
            it = p.iter
            if norm(it) == coll_text and whole_collection_loop(p):
                return p, p.target
            if isinstance(it, ast.Call) and call_name(it) == 'enumerate' and it.args and norm(it.args[0]) == coll_text \
                    and whole_collection_loop(p) and isinstance(p.target, ast.Tuple) and len(p.target.elts) == 2:
                return p, p.target.elts[1]
        n, p = p, parent(p)
    return None


def r01_3_recursion(ctx):
    P = ctx.P
    r = ctx.rule('R01.3', '__process_node recurses into every child with the matching element/attribute type and '
                          'stores the processed child back', floor=4)
    f = fn(P, PN)
    S, _, _ = recognise_targets(f)
    rt = _extracted_var(f, S) if S else None
    if rt is None:
        raise AnalysisError('anchor missing: recognised-type variable in %s' % PN)
    node = f.fi.params[1]
    calls = [c for c in f.calls('__process_node') if f.live(c)]
    seq_ok = map_k = map_v = cls_ok = False
    for c in calls:
        if len(c.args) != 2:
            continue
        a0, a1 = c.args
        g = f.guards(c)
        gt = {('' if p else 'not ') + norm(x) for x, p in g}
        if 'is_generic_sequence(%s)' % rt in gt:
            it = _iter_var_over(c, '%s.value' % node)
            good = it is not None and isinstance(it[1], ast.Name) and norm(a0) == it[1].id \
                and norm(a1) == 'generic_type_args(%s)[0]' % rt and _stored_back(f, c, it[0], node)
            r.check(good, 'sequence arm: every item of %s.value is processed with generic_type_args(%s)[0] and stored back'
                    % (node, rt), f.key('seq-arm:%s' % norm(c)), f.loc(c),
                    'sequence arm does not process every item with the item type / does not store it back')
            seq_ok = seq_ok or good
        elif 'is_generic_mapping(%s)' % rt in gt:
            it = _iter_var_over(c, '%s.value' % node)
            if it is not None and isinstance(it[1], ast.Tuple) and len(it[1].elts) == 2 \
                    and all(isinstance(x, ast.Name) for x in it[1].elts) and _stored_back(f, c, it[0], node):
                kn, vn = it[1].elts[0].id, it[1].elts[1].id
                if norm(a0) == kn:
                    good = norm(a1) == 'generic_type_args(%s)[0]' % rt and _pair_position(c) == 0
                    r.check(good, 'mapping arm: every key is processed with the key type', f.key('map-arm-key'), f.loc(c),
                            'mapping key is processed with %s / stored in the wrong position' % norm(a1))
                    map_k = map_k or good
                    continue
                if norm(a0) == vn:
                    good = norm(a1) == 'generic_type_args(%s)[1]' % rt and _pair_position(c) == 1
                    r.check(good, 'mapping arm: every value is processed with the value type', f.key('map-arm-value'),
                            f.loc(c), 'mapping value is processed with %s / stored in the wrong position' % norm(a1))
                    map_v = map_v or good
                    continue
            r.fail(f.key('map-arm:%s' % norm(c)), f.loc(c), 'mapping arm recursion is not a whole-collection rebuild of '
                   '%s.value from processed (key, value) pairs' % node)
        elif any(t.startswith('%s in self._registered_classes' % rt) for t in gt):
            good = _class_arm_ok(f, c, rt, node)
            r.check(good, 'class arm: for every class_subobjects(%s) triple whose name is present the attribute node is '
                    'processed with the triple\'s type and stored back under the same name' % rt,
                    f.key('class-arm:%s' % norm(c)), f.loc(c),
                    'class arm does not process each present attribute with its declared type / does not store it back')
            cls_ok = cls_ok or good
        else:
            r.fail(f.key('unguarded-recursion:%s' % norm(c)), f.loc(c),
                   'recursive __process_node call outside the sequence/mapping/class arms (guards: %s)' % sorted(gt))
    for name, flag in (('sequence', seq_ok), ('mapping-key', map_k), ('mapping-value', map_v), ('class', cls_ok)):
        if not flag and not any(name.split('-')[0][:3] in x.construct for x in r.findings):
            r.fail(f.key('missing-arm:%s' % name), f.loc(), 'no recursion into %s children: they keep their document '
                   'tag and raw value' % name)
    r.done()
    return rt


def _pair_position(c: ast.Call) -> Optional[int]:
    p = parent(c)
    if isinstance(p, ast.Tuple) and len(p.elts) == 2:
        return 0 if p.elts[0] is c else 1
    return None


def _stored_back(f: Fn, c: ast.Call, construct: ast.AST, node: str) -> bool:
    """the rebuilt collection is assigned to node.value (comprehension form) or elements are stored in place"""
    if isinstance(construct, (ast.ListComp, ast.GeneratorExp)):
        # the comprehension's element is the call (or the pair containing it)
        elt = construct.elt
        if not (elt is c or (isinstance(elt, ast.Tuple) and any(x is c for x in elt.elts))):
            return False
        st = enclosing_stmt(construct)
        v = st.value if isinstance(st, ast.Assign) else None
        if isinstance(v, ast.Call) and call_name(v) == 'list' and v.args and v.args[0] is construct:
            v = construct
        return isinstance(st, ast.Assign) and v is construct and any(norm(t) == '%s.value' % node for t in st.targets)
    if isinstance(construct, ast.For):
        # in-place store node.value[i] = <call or pair>, or append to a list later assigned to node.value
        st = enclosing_stmt(c)
        if isinstance(st, ast.Assign) and any(isinstance(t, ast.Subscript) and norm(t.value) == '%s.value' % node
                                              for t in st.targets):
            return True
        if isinstance(st, ast.Expr) and isinstance(st.value, ast.Call) and call_name(st.value) == 'append' \
                and isinstance(st.value.func, ast.Attribute) and isinstance(st.value.func.value, ast.Name):
            lst = st.value.func.value.id
            for n in f.walk():
                if isinstance(n, ast.Assign) and any(norm(t) == '%s.value' % node for t in n.targets) \
                        and norm(n.value) == lst:
                    return True
        if isinstance(st, ast.Assign) and len(st.targets) == 1 and isinstance(st.targets[0], ast.Name):
            # new_x = self.__process_node(...); later appended / stored
            v = st.targets[0].id
            for n in ast.walk(construct):
                if isinstance(n, ast.Call) and call_name(n) == 'append' and any(v in norm(a) for a in n.args):
                    return True
                if isinstance(n, ast.Assign) and any(isinstance(t, ast.Subscript) and norm(t.value) == '%s.value' % node
                                                     for t in n.targets) and v in norm(n.value):
                    return True
    return False


def _class_arm_ok(f: Fn, c: ast.Call, rt: str, node: str) -> bool:
    loops = [l for l in enclosing_loops(c, f.node) if isinstance(l, ast.For)]
    for l in loops:
        if isinstance(l.iter, ast.Call) and call_name(l.iter) == 'class_subobjects' and l.iter.args \
                and norm(l.iter.args[0]) == rt and whole_collection_loop(l) \
                and isinstance(l.target, ast.Tuple) and len(l.target.elts) == 3:
            name_v, type_v = norm(l.target.elts[0]), norm(l.target.elts[1])
            if norm(c.args[1]) != type_v:
                return False
            # arg0 = <sub>.yaml_node with sub = W.get_attribute(name_v), W = Node(node); guarded by W.has_attribute(name_v)
            a0 = f.copies.expand(c.args[0])
            txt = norm(a0)
            # loop-local single assignments are not propagated by Copies (inside a loop): resolve by hand
            sub = c.args[0]
            if isinstance(sub, ast.Attribute) and sub.attr == 'yaml_node' and isinstance(sub.value, ast.Name):
                subname = sub.value.id
                rhs = [x for x in assigned_from(f, subname)]
                getters = [x for x in rhs if isinstance(x, ast.Call) and call_name(x) == 'get_attribute'
                           and x.args and norm(x.args[0]) == name_v]
                if not getters:
                    return False
                w = norm(getters[0].func.value)
            elif isinstance(sub, ast.Attribute) and sub.attr == 'yaml_node' and isinstance(sub.value, ast.Call) \
                    and call_name(sub.value) == 'get_attribute' and norm(sub.value.args[0]) == name_v:
                w = norm(sub.value.func.value)
            else:
                return False
            wr = [norm(x) for x in assigned_from(f, w)] if w.isidentifier() else [w]
            if not any(x == 'Node(%s)' % node for x in wr):
                return False
            if not f.has_guard(c, '%s.has_attribute(%s)' % (w, name_v), True, expand=False):
                return False
            # stored back
            st = enclosing_stmt(c)
            res = st.targets[0].id if isinstance(st, ast.Assign) and isinstance(st.targets[0], ast.Name) else None
            for n in ast.walk(l):
                if isinstance(n, ast.Call) and call_name(n) == 'set_attribute' and len(n.args) == 2 \
                        and norm(n.args[0]) == name_v and norm(n.func.value) == w \
                        and (norm(n.args[1]) == res or n.args[1] is c):
                    sn, cn = f.nid(n), f.nid(c)
                    if sn is not None and cn is not None and (f.cfg.dominates(cn, sn) or sn == cn):
                        return True
            return False
    return False


def type_to_tag_table(ctx, r=None) -> Dict[str, str]:
    """kind -> tag expression written by Loader.__type_to_tag, from its returns and their guards"""
    P = ctx.P
    f = fn(P, 'yatiml.loader:Loader.__type_to_tag')
    p = f.fi.params[1]
    want = {
        'scalar': ('%s in scalar_type_to_tag' % p, 'scalar_type_to_tag[%s]' % p),
        'sequence': ('is_generic_sequence(%s)' % p, repr(CORE + 'seq')),
        'mapping': ('is_generic_mapping(%s)' % p, repr(CORE + 'map')),
        'registered': ('%s in self._registered_classes.values()' % p, repr('!<%s.__name__>' % p)),
        'additional': ('%s in self._additional_classes' % p, 'self._additional_classes[%s]' % p),
    }
    table = {}
    for ret in f.returns():
        if ret.value is None:
            continue
        s = str_format_const(ret.value)
        val = repr(s) if s is not None else norm(ret.value)
        gts = {norm(g) for g, pol in f.guards(ret) if pol}
        for kind, (guard, _) in want.items():
            if guard in gts:
                table[kind] = val
    if r is not None:
        for kind, (guard, expect) in want.items():
            r.check(table.get(kind) == expect, '__type_to_tag: %s -> %s under %s' % (kind, expect, guard),
                    f.key('kind:%s' % kind), f.loc(),
                    '__type_to_tag maps a %s type to %s (expected %s under guard %s)' % (kind, table.get(kind), expect, guard))
        r.check(not f.falls_off_end(), '__type_to_tag raises for an unknown type instead of returning None',
                f.key('fallthrough'), f.loc(), '__type_to_tag can fall off its end and return None as a tag')
    return table


def r01_4_retag(ctx, rid='R01.4'):
    P = ctx.P
    r = ctx.rule(rid, 'every normal exit of __process_node passes strip_tags (type Any) or the store '
                      'node.tag = __type_to_tag(recognised type); __type_to_tag maps each kind to its tag', floor=8)
    f = fn(P, PN)
    S, _, _ = recognise_targets(f)
    rt = _extracted_var(f, S)
    node = f.fi.params[1]
    marks: Set[int] = set()
    n_strip = n_store = 0
    for n in f.walk():
        if isinstance(n, ast.Call) and call_name(n) == 'strip_tags' and len(n.args) == 2 and norm(n.args[1]) == node \
                and norm(n.args[0]) == 'self':
            if f.has_guard(n, '%s is Any' % rt) or f.has_guard(n, '%s == Any' % rt):
                marks.add(f.nid(n))
                n_strip += 1
        if isinstance(n, ast.Assign) and any(norm(t) == '%s.tag' % node for t in n.targets) \
                and norm(n.value) == 'self.__type_to_tag(%s)' % rt:
            marks.add(f.nid(n))
            n_store += 1
    r.check(n_strip >= 1, 'strip_tags(self, %s) under `%s is Any`' % (node, rt), f.key('strip-under-any'), f.loc(),
            'a node recognised as Any is not stripped of tags: tags below it would select constructors')
    r.check(n_store >= 1, '%s.tag = self.__type_to_tag(%s)' % (node, rt), f.key('retag-store'), f.loc(),
            'the node is never retagged with the tag of the recognised type')
    # the Any test must not be weakened: the store must not be skipped for non-Any types
    for ret in f.returns():
        rn = f.nid(ret)
        ok = f.cfg.must_pass(f.cfg.entry, rn, marks)
        r.check(ok, 'return at %s is preceded by strip/retag on every path' % f.loc(ret), f.key('exit-without-retag'),
                f.loc(ret), 'a path reaches `return` without retagging or stripping the node: it keeps its document tag')
        r.check(isinstance(ret.value, ast.Name) and ret.value.id == node, 'the processed node itself is returned',
                f.key('returns-node'), f.loc(ret), '__process_node returns %s, not the processed node'
                % (norm(ret.value) if ret.value else None))
    # stores to node.tag other than the retag (and the guarded tag checks) must not follow the retag
    for n in f.walk():
        if isinstance(n, ast.Assign) and any(norm(t) == '%s.tag' % node for t in n.targets) \
                and norm(n.value) != 'self.__type_to_tag(%s)' % rt:
            r.fail(f.key('foreign-tag-store:%s' % norm(n.value)), f.loc(n),
                   '__process_node writes %s to the node tag' % norm(n.value))
    type_to_tag_table(ctx, r)
    r.done()


def scalar_table(P: Program) -> Dict[str, str]:
    m = P.module('yatiml.util')
    if 'scalar_type_to_tag' not in m.constants or not isinstance(m.constants['scalar_type_to_tag'], ast.Dict):
        raise AnalysisError('anchor missing: dict literal yatiml.util.scalar_type_to_tag')
    d = m.constants['scalar_type_to_tag']
    out = {}
    for k, v in zip(d.keys, d.values):
        s = const_str(v)
        if s is None:
            raise AnalysisError('scalar_type_to_tag has a non-constant tag')
        out[norm(k)] = s
    return out


SCALAR_REFERENCE = {'str': 'str', 'int': 'int', 'float': 'float', 'bool': 'bool', 'bool_union_fix': 'bool',
                    'None': 'null', 'type(None)': 'null', 'date': 'timestamp'}


def safe_constructor_tags(P: Program) -> Dict[str, str]:
    m = P.module('yaml.constructor')
    out = {}
    for st in m.tree.body:
        if isinstance(st, ast.Expr) and isinstance(st.value, ast.Call) and call_name(st.value) == 'add_constructor' \
                and norm(st.value.func.value) == 'SafeConstructor' and len(st.value.args) == 2:
            t = const_str(st.value.args[0])
            out[t if t is not None else 'None'] = norm(st.value.args[1])
    if len(out) < 8:
        raise AnalysisError('SafeConstructor registrations not found in yaml/constructor.py')
    return out


def r01_5_scalar(ctx):
    P = ctx.P
    r = ctx.rule('R01.5', 'built-in scalars are recognised only on the exact tag of scalar_type_to_tag; the dispatch '
                          'tuple, the table and PyYAML\'s constructor table agree', floor=10)
    f = fn(P, REC + '__recognize_scalar')
    node, et = f.fi.params[1], f.fi.params[2]
    n_acc = 0
    for ret in f.returns():
        v = verdict(ret)
        if v is None:
            r.fail(f.key('return-shape'), f.loc(ret), 'unexpected return shape %s' % norm(ret))
            continue
        sk, s, ek, e = v
        if sk == 'EMPTY':
            continue
        n_acc += 1
        g = f.guards(ret)
        allowed, _ = tag_equalities(g, '%s.tag' % node, f.copies)
        ok = known_instance(g, node, {'ScalarNode'}) and allowed == {'scalar_type_to_tag[%s]' % et} \
            and sk == 'ONE' and norm(s.elts[0]) == et
        r.check(ok, 'ACCEPT {%s} only under isinstance(%s, ScalarNode) and %s.tag == scalar_type_to_tag[%s]'
                % (et, node, node, et), f.key('accept'), f.loc(ret),
                'scalar ACCEPT is not restricted to ScalarNode with the exact tag of the expected type '
                '(guards: %s)' % f.guard_texts(ret))
    if n_acc == 0:
        r.fail(f.key('no-accept'), f.loc(), '__recognize_scalar never accepts')
    # dispatch tuple == table keys
    table = scalar_table(P)
    rec = fn(P, REC + 'recognize')
    et2 = rec.fi.params[2]
    disp = None
    for c in rec.calls('__recognize_scalar'):
        for g, pol in rec.guards(c):
            if pol and isinstance(g, ast.Compare) and len(g.ops) == 1 and isinstance(g.ops[0], ast.In) \
                    and norm(g.left) == et2 and isinstance(g.comparators[0], (ast.Tuple, ast.List, ast.Set)):
                disp = {norm(x) for x in g.comparators[0].elts}
            elif pol and isinstance(g, ast.Compare) and isinstance(g.ops[0], ast.In) and norm(g.left) == et2 \
                    and norm(g.comparators[0]) == 'scalar_type_to_tag':
                disp = set(table)
    if disp is None:
        r.fail(rec.key('scalar-dispatch'), rec.loc(), 'recognize() has no `expected_type in (...)` dispatch to '
               '__recognize_scalar')
    else:
        r.check(disp == set(table), 'dispatch tuple %s == keys(scalar_type_to_tag)' % sorted(disp),
                rec.key('scalar-dispatch-set'), rec.loc(),
                'scalar dispatch %s and scalar_type_to_tag keys %s differ: %s' % (
                    sorted(disp), sorted(table), sorted(disp ^ set(table))))
    ctors = safe_constructor_tags(P)
    for k, tag in sorted(table.items()):
        ref = SCALAR_REFERENCE.get(k)
        r.check(ref is not None and tag == CORE + ref and tag in ctors,
                'scalar_type_to_tag[%s] = %s (core schema; SafeConstructor has %s)' % (k, tag, ctors.get(tag)),
                'yatiml.util:scalar_type_to_tag:%s' % k, 'yatiml/util.py',
                'scalar_type_to_tag[%s] = %r, expected %r with a SafeConstructor registration' % (
                    k, tag, CORE + ref if ref else None))
    r.check(set(table) == set(SCALAR_REFERENCE), 'table covers exactly the supported scalar types',
            'yatiml.util:scalar_type_to_tag:keys', 'yatiml/util.py',
            'scalar_type_to_tag keys changed: %s' % sorted(set(table) ^ set(SCALAR_REFERENCE)))
    r.done()


# =====================================================================================================
# helpers for path-sensitive "arm" obligations
# =====================================================================================================

def branch_nodes(f: Fn, pred) -> Set[int]:
    """ids of live branch nodes whose conjunctive atoms satisfy pred(atoms)"""
    live = f.cfg.live()
    return {b.id for b in f.cfg.nodes if b.kind == 'branch' and b.id in live and pred(conj_atoms(b.ast, b.pol))}


def atom_is(atoms, text: str, pol: bool, copies: Optional[Copies] = None) -> bool:
    for g, p in atoms:
        if p == pol and (norm(g) == text or (copies is not None and copies.xnorm(g) == text)):
            return True
    return False


def est_instance(node: str, classes: Set[str]):
    return lambda atoms: known_instance(atoms, node, classes)


def est_tag_within(node_tag: str, allowed: Set[str], copies=None):
    def p(atoms):
        a, _ = tag_equalities(atoms, node_tag, copies)
        return a is not None and a <= allowed and len(a) > 0
    return p


def innermost_loop(n: ast.AST, fn_node: ast.AST) -> Optional[ast.AST]:
    c = n
    p = parent(n)
    while p is not None and p is not fn_node:
        if isinstance(p, (ast.For, ast.While)) and any(c is s for s in p.body):
            return p
        c, p = p, parent(p)
    return None


def breaks_of(loop: ast.AST, fn_node: ast.AST) -> List[ast.AST]:
    return [n for st in loop.body for n in ast.walk(st)
            if isinstance(n, ast.Break) and innermost_loop(n, fn_node) is loop]


def accept_returns(f: Fn) -> List[Tuple[ast.Return, tuple]]:
    out = []
    for ret in f.returns():
        v = verdict(ret)
        if v is not None and v[0] != 'EMPTY':
            out.append((ret, v))
    return out


def nonempty_branches(f: Fn, var: str) -> Set[int]:
    """branch nodes on which len(var) == 0 is excluded"""
    out = set()
    live = f.cfg.live()
    for b in f.cfg.nodes:
        if b.kind != 'branch' or b.id not in live:
            continue
        t = card_truth(b.ast, name_subject(var))
        if t is None:
            continue
        adm = t if b.pol else (set((0, 1, 2, 3)) - t)
        if 0 not in adm:
            out.add(b.id)
    return out


def empty_branches(f: Fn, var: str) -> Set[int]:
    out = set()
    live = f.cfg.live()
    for b in f.cfg.nodes:
        if b.kind != 'branch' or b.id not in live:
            continue
        t = card_truth(b.ast, name_subject(var))
        if t is None:
            continue
        adm = t if b.pol else (set((0, 1, 2, 3)) - t)
        if adm == {0}:
            out.add(b.id)
    return out


# =====================================================================================================
# C02
# =====================================================================================================

CTOR = 'yatiml.constructors:Constructor.'


def r02_1_deep(ctx):
    P = ctx.P
    r = ctx.rule('R02.1', 'Constructor.__call__ builds the attribute mapping bottom-up: construct_mapping(node, deep=True) '
                          'after the yield', floor=2)
    f = fn(P, CTOR + '__call__')
    node = f.fi.params[2]
    calls = [c for c in f.calls('construct_mapping') if f.live(c)]
    if not calls:
        r.fail(f.key('no-construct-mapping'), f.loc(), 'Constructor.__call__ never calls construct_mapping')
    yields = [n for n in f.walk() if isinstance(n, (ast.Yield, ast.YieldFrom))]
    for c in calls:
        d = kwarg(c, 'deep')
        if d is None and len(c.args) > 1:
            d = c.args[1]
        r.check(isinstance(d, ast.Constant) and d.value is True and norm(c.args[0]) == node,
                'construct_mapping(%s, deep=True)' % node, f.key('construct_mapping-deep'), f.loc(c),
                'construct_mapping is called with deep=%s: nested objects are constructed lazily and __init__ receives '
                'empty lists / uninitialised sub-objects' % (norm(d) if d is not None else 'False (default)'))
        yn = [f.nid(y) for y in yields]
        r.check(any(y is not None and f.cfg.dominates(y, f.nid(c)) for y in yn),
                'the mapping is constructed after the incomplete object was yielded', f.key('yield-before-construct'),
                f.loc(c), 'construct_mapping does not follow the yield of the new object')
    r.done()


def class_subobjects_skips(P: Program) -> Tuple[Optional[Set[str]], str]:
    """literal names that class_subobjects skips; None if a skip condition is not a literal equality"""
    f = fn(P, 'yatiml.introspection:class_subobjects')
    skips: Set[str] = set()
    loops = [n for n in f.walk() if isinstance(n, ast.For) and 'argspec.args' in norm(n.iter)]
    if not loops:
        raise AnalysisError('anchor missing: loop over argspec.args in class_subobjects')
    loop = loops[0]
    tgt = loop.target
    var = tgt.elts[1].id if isinstance(tgt, ast.Tuple) else tgt.id
    for n in ast.walk(loop):
        if isinstance(n, ast.Continue):
            # guards that arise inside the loop
            ok = False
            for b in f.cfg.guard_nodes(f.nid(n)):
                if not any(x is loop for x in _ancestors_list(b.ast)):
                    continue
                a, ex = tag_equalities(conj_atoms(b.ast, b.pol), var)
                if a:
                    for x in a:
                        try:
                            skips.add(ast.literal_eval(x))
                        except Exception:
                            return None, 'non-literal skip %s' % x
                    ok = True
                elif ex:
                    continue    # an earlier skip test that was not taken
                else:
                    return None, 'skip condition `%s` is not an equality with a literal name' % norm(b.ast)
            if not ok:
                return None, 'unconditional continue'
    # yields must be unconditional apart from the skips
    for n in ast.walk(loop):
        if isinstance(n, ast.Yield):
            for b in f.cfg.guard_nodes(f.nid(n)):
                if any(x is loop for x in _ancestors_list(b.ast)):
                    a, ex = tag_equalities(conj_atoms(b.ast, b.pol), var)
                    if not (ex and not a):
                        return None, 'yield is guarded by `%s`' % norm(b.ast)
    return skips, 'ok'


def _ancestors_list(n):
    out = []
    p = parent(n)
    while p is not None:
        out.append(p)
        p = parent(p)
    return out


def strip_exempt_removed(P: Program) -> Tuple[Optional[Set[str]], str, Fn]:
    """names removed from the constructor-argument list before it is used as the set exempt from tag stripping"""
    f = fn(P, CTOR + '__strip_extra_attributes')
    known_param = f.fi.params[2]
    # the list variable consulted by the strip guard
    strips = [c for c in f.calls('strip_tags') if f.live(c)]
    if not strips:
        return None, 'no strip_tags call', f
    removed: Set[str] = set()
    for c in strips:
        lst = None
        for g, pol in f.guards(c):
            if isinstance(g, ast.Compare) and len(g.ops) == 1 and isinstance(g.ops[0], (ast.NotIn, ast.In)) \
                    and (isinstance(g.ops[0], ast.NotIn) == pol):
                lst = g.comparators[0]
                key = g.left
        if lst is None:
            return None, 'strip_tags is not guarded by `key not in <known>`', f
        if not (isinstance(key, ast.Attribute) and key.attr == 'value'):
            return None, 'strip guard does not test the key node\'s value', f
        if isinstance(lst, ast.Name):
            name = lst.id
            srcs = assigned_from(f, name)
            if name == known_param:
                srcs = [ast.Name(id=known_param, ctx=ast.Load())]
            for s in srcs:
                s_txt = norm(s)
                if s_txt in ('list(%s)' % known_param, known_param, '%s.copy()' % known_param, '%s[:]' % known_param,
                             'set(%s)' % known_param):
                    continue
                if isinstance(s, (ast.ListComp, ast.SetComp)) and len(s.generators) == 1 \
                        and norm(s.generators[0].iter) == known_param and norm(s.elt) == norm(s.generators[0].target):
                    for cond in s.generators[0].ifs:
                        a, ex = tag_equalities(conj_atoms(cond, True), norm(s.elt))
                        if ex and not a:
                            for x in ex:
                                removed.add(ast.literal_eval(x))
                        else:
                            return None, 'unsupported filter %s' % norm(cond), f
                    continue
                return None, 'known-keys list built from %s' % s_txt, f
            for n in f.walk():
                if isinstance(n, ast.Call) and isinstance(n.func, ast.Attribute) and norm(n.func.value) == name:
                    if n.func.attr in ('remove', 'discard') and n.args and const_str(n.args[0]) is not None:
                        removed.add(const_str(n.args[0]))
                    elif n.func.attr in MUTATORS:
                        return None, 'known-keys list mutated by %s' % norm(n), f
        else:
            return None, 'strip guard consults %s' % norm(lst), f
    return removed, 'ok', f


def r02_2_attrset(ctx, rid='R02.2'):
    P = ctx.P
    r = ctx.rule(rid, 'one attribute set: the names exempt from tag stripping are argspec.args minus exactly what '
                      'class_subobjects skips', floor=3)
    skips, why = class_subobjects_skips(P)
    r.check(skips is not None, 'class_subobjects skips the literal names %s' % (sorted(skips) if skips else skips),
            'yatiml.introspection:class_subobjects:skip-set', 'yatiml/introspection.py',
            'class_subobjects skips parameters by a non-literal condition (%s): parameters it skips are neither '
            'recognised nor retagged, but the constructor still treats them as known and leaves their tags' % why)
    removed, why2, f = strip_exempt_removed(P)
    r.check(removed is not None, '__strip_extra_attributes exempts argspec.args minus %s' % (sorted(removed) if removed else removed),
            f.key('exempt-set'), f.loc(), 'cannot establish the set exempt from stripping: %s' % why2)
    if skips is not None and removed is not None:
        r.check(skips == removed, 'skip set == removed set == %s' % sorted(skips), f.key('exempt-vs-subobjects'), f.loc(),
                'a key named %s is exempt from tag stripping but is not a type-checked attribute: its value reaches '
                'construction with document tags intact' % sorted(skips ^ removed), {'skips': sorted(skips), 'removed': sorted(removed)})
    # the caller passes argspec.args of the class's __init__
    c = fn(P, CTOR + '__call__')
    calls = [x for x in c.calls('__strip_extra_attributes') if c.live(x)]
    good = False
    for x in calls:
        if len(x.args) == 2 and c.copies.xnorm(x.args[1]) in (
                'inspect.getfullargspec(self.class_.__init__).args',):
            good = True
    r.check(good, '__strip_extra_attributes(node, getfullargspec(class_.__init__).args)', c.key('strip-call-args'), c.loc(),
            'the strip step is not given the constructor\'s argument names')
    r.done()


def _recognizer_arms(f: Fn):
    """(custom_false, enum_true, strlike_true, auto) branch node ids of __recognize_user_class"""
    et = f.fi.params[2]
    enum_t = branch_nodes(f, lambda a: atom_is(a, 'issubclass(%s, enum.Enum)' % et, True)
                          or atom_is(a, 'issubclass(%s, Enum)' % et, True))
    enum_f = branch_nodes(f, lambda a: atom_is(a, 'issubclass(%s, enum.Enum)' % et, False)
                          or atom_is(a, 'issubclass(%s, Enum)' % et, False))
    str_t = branch_nodes(f, lambda a: atom_is(a, 'is_string_like(%s)' % et, True))
    str_f = branch_nodes(f, lambda a: atom_is(a, 'is_string_like(%s)' % et, False))
    if not enum_t or not str_t or not str_f:
        raise AnalysisError('anchor missing: enum / string-like / auto arms in Recognizer.__recognize_user_class')
    return enum_t, enum_f, str_t, str_f


def r02_3_admission(ctx, rid='R02.3'):
    P = ctx.P
    r = ctx.rule(rid, 'per-kind admission: Path and string-like on str-tagged scalars, enum on str|bool scalars, '
                      'auto-recognised classes on mappings', floor=7)
    STR, BOOL = repr(CORE + 'str'), repr(CORE + 'bool')
    # Path
    f = fn(P, REC + '__recognize_additional')
    node, et = f.fi.params[1], f.fi.params[2]
    acc = accept_returns(f)
    if not acc:
        r.fail(f.key('no-accept'), f.loc(), '__recognize_additional never accepts')
    for ret, v in acc:
        g = f.guards(ret)
        a, _ = tag_equalities(g, '%s.tag' % node, f.copies)
        r.check(known_instance(g, node, {'ScalarNode'}) and a == {STR}, 'Path ACCEPT under ScalarNode and tag == str',
                f.key('accept'), f.loc(ret), 'an additional type (Path) is accepted on a node that is not a str-tagged '
                'scalar (guards: %s)' % f.guard_texts(ret))
    # user class arms
    f = fn(P, REC + '__recognize_user_class')
    node, et = f.fi.params[1], f.fi.params[2]
    enum_t, enum_f, str_t, str_f = _recognizer_arms(f)
    finals = [(ret, v) for ret, v in accept_returns(f) if not f.cfg.enclosing_handlers(ret)]
    if not finals:
        r.fail(f.key('no-accept'), f.loc(), '__recognize_user_class has no ACCEPT return outside the custom recogniser')
    sc = branch_nodes(f, est_instance(node, {'ScalarNode'}))
    mp = branch_nodes(f, est_instance(node, {'MappingNode'}))
    t_enum = branch_nodes(f, est_tag_within('%s.tag' % node, {STR, BOOL}, f.copies))
    t_str = branch_nodes(f, est_tag_within('%s.tag' % node, {STR}, f.copies))
    for ret, v in finals:
        rn = f.nid(ret)
        for a in enum_t:
            if rn in f.cfg.reachable(a):
                r.check(f.cfg.must_pass(a, rn, sc) and f.cfg.must_pass(a, rn, t_enum),
                        'enum arm: ACCEPT only for a ScalarNode tagged str or bool', f.key('enum-arm-accept'), f.loc(ret),
                        'an enum class is accepted for a node that is not a str/bool-tagged scalar')
        for a in str_t:
            if rn in f.cfg.reachable(a):
                r.check(f.cfg.must_pass(a, rn, sc) and f.cfg.must_pass(a, rn, t_str),
                        'string-like arm: ACCEPT only for a ScalarNode tagged str', f.key('stringlike-arm-accept'),
                        f.loc(ret), 'a string-like class is accepted for a node that is not a str-tagged scalar')
        for a in str_f:
            if rn in f.cfg.reachable(a) and any(f.cfg.dominates(x, a) for x in enum_f):
                r.check(f.cfg.must_pass(a, rn, mp), 'auto arm: ACCEPT only for a MappingNode', f.key('auto-arm-accept'),
                        f.loc(ret), 'an auto-recognised class is accepted for a node that is not a mapping')
        r.check(v[0] == 'ONE' and norm(v[1].elts[0]) == et, 'ACCEPT returns exactly {%s}' % et, f.key('accept-set'),
                f.loc(ret), 'ACCEPT returns %s instead of {%s}' % (norm(v[1]), et))
    # attribute loop: alternatives are exactly [name, name.replace('_', '-')], exact name first; for-else rejects when required
    outer = [n for n in f.walk() if isinstance(n, ast.For) and isinstance(n.iter, ast.Call)
             and call_name(n.iter) == 'class_subobjects' and norm(n.iter.args[0]) == et]
    if not outer:
        r.fail(f.key('no-attribute-loop'), f.loc(), 'auto arm does not iterate over class_subobjects(%s)' % et)
    for lo in outer:
        if not (isinstance(lo.target, ast.Tuple) and len(lo.target.elts) == 3):
            r.fail(f.key('attribute-loop-target'), f.loc(lo), 'unexpected loop target')
            continue
        an, tn, rq = (norm(x) for x in lo.target.elts)
        r.check(not breaks_of(lo, f.node), 'every constructor parameter is considered', f.key('attribute-loop-break'),
                f.loc(lo), 'the attribute loop can be left early: later parameters are not checked')
        inner = [n for n in lo.body if isinstance(n, ast.For)]
        want = "[%s, %s.replace('_', '-')]" % (an, an)
        alt_ok = [n for n in inner if norm(n.iter) == want]
        r.check(bool(alt_ok), 'alternatives tried: %s' % want, f.key('alternatives'), f.loc(lo),
                'the key alternatives tried for a parameter are %s, expected %s (exact name, then dashes)'
                % ([norm(n.iter) for n in inner], want))
        for il in alt_ok:
            rej = [n for st in il.orelse for n in ast.walk(st) if isinstance(n, ast.Return)]
            okrej = False
            for x in rej:
                vv = verdict(x)
                if vv and vv[0] == 'EMPTY' and vv[2] == 'ERR':
                    gts = [norm(g) for g, p in f.guards(x) if p]
                    neg = [norm(g) for g, p in f.guards(x) if not p]
                    if rq in gts and not [t for t in gts if t != rq and il is not None and _in_tree(il, f, x, t)]:
                        okrej = True
            r.check(okrej, 'for...else: a required parameter without a matching key REJECTs', f.key('missing-required'),
                    f.loc(il), 'a missing required attribute does not reject the class candidate')
    r.done()


def _in_tree(loop, f: Fn, ret, text) -> bool:
    """a positive guard of `ret` with source `text` that arises inside `loop` (other than the required flag)"""
    for b in f.cfg.guard_nodes(f.nid(ret)):
        if b.pol and norm(b.ast) == text and any(x is loop for x in _ancestors_list(b.ast)):
            return True
    return False


def r02_4_keys(ctx):
    P = ctx.P
    r = ctx.rule('R02.4', 'no path in Constructor.__call__ reaches __init__ without a check that rejects non-string keys',
                 floor=2)
    f = fn(P, CTOR + '__call__')
    cls = P.cls('yatiml.constructors:Constructor')
    checkers = set()
    for name, m in cls.methods.items():
        g = fn(P, m.key)
        for rs in g.raises():
            if raise_class(rs) != 'RecognitionError':
                continue
            atoms = g.guards(rs)
            for a, pol in atoms:
                ia = isinstance_atom(a)
                if ia and not pol and (ia[1] <= {'ScalarNode'} or ia[1] <= {'str'}):
                    loops = [l for l in enclosing_loops(rs, g.node) if isinstance(l, ast.For)]
                    if loops and not breaks_of(loops[0], g.node):
                        checkers.add(name)
    r.check(bool(checkers), 'key-kind checks found in %s' % sorted(checkers), 'yatiml.constructors:Constructor:key-checks',
            'yatiml/constructors.py', 'no method of Constructor rejects mapping keys that are not string scalars')
    inits = [c for c in f.calls('__init__') if f.live(c)]
    through = set()
    for name in checkers:
        for c in f.calls(name):
            if f.live(c):
                through.add(f.nid(c))
    if not inits:
        r.fail(f.key('no-init-call'), f.loc(), 'Constructor.__call__ never calls __init__')
    for c in inits:
        r.check(f.cfg.must_pass(f.cfg.entry, f.nid(c), through), '%s is preceded by a key-kind check on every path' % norm(c)[:40],
                f.key('init-without-key-check'), f.loc(c),
                '__init__ can be reached without any check of the mapping keys\' kind: a class taking _yatiml_extra '
                'would silently accept non-string keys')
        kw = [a for a in c.args] or [k for k in c.keywords if k.arg is not None]
        r.check(not c.args and all(k.arg is None for k in c.keywords), '__init__ is called with ** keywords only',
                f.key('init-by-name'), f.loc(c), '__init__ receives positional arguments: attributes are matched by position')
    r.done()


def r02_5_kinds(ctx):
    P = ctx.P
    r = ctx.rule('R02.5', 'lists and dicts are admitted by exact YAML kind (SequenceNode/MappingNode, plain seq/map tag)',
                 floor=4)
    f = fn(P, PN)
    S, _, _ = recognise_targets(f)
    rt = _extracted_var(f, S)
    node = f.fi.params[1]
    for kind, pred, tag in (('sequence', 'is_generic_sequence(%s)' % rt, repr(CORE + 'seq')),
                            ('mapping', 'is_generic_mapping(%s)' % rt, repr(CORE + 'map'))):
        calls = [c for c in f.calls('__process_node') if f.live(c) and f.has_guard(c, pred)]
        if not calls:
            r.fail(f.key('no-%s-recursion' % kind), f.loc(), 'no recursion in the %s arm' % kind)
        for c in calls:
            a, _ = tag_equalities(f.guards(c), '%s.tag' % node, f.copies)
            r.check(a == {tag}, '%s recursion only for a node tagged %s' % (kind, tag), f.key('%s-tag-check' % kind), f.loc(c),
                    'a %s type is processed although the node\'s tag is not the plain %s tag (!!set, !!python/tuple, '
                    '!Registered would be admitted)' % (kind, tag))
    for name, cls_ in (('__recognize_list', 'SequenceNode'), ('__recognize_dict', 'MappingNode')):
        g = fn(P, REC + name)
        nd = g.fi.params[1]
        acc = accept_returns(g)
        if not acc:
            r.fail(g.key('no-accept'), g.loc(), '%s never accepts' % name)
        for ret, v in acc:
            r.check(known_instance(g.guards(ret), nd, {cls_}), '%s ACCEPT under isinstance(%s, %s)' % (name, nd, cls_),
                    g.key('accept-kind'), g.loc(ret), '%s accepts a node that is not a %s' % (name, cls_))
    r.done()


def r02_6_extraneous(ctx):
    P = ctx.P
    r = ctx.rule('R02.6', 'a key that is not a positional constructor parameter is rejected unless the class takes '
                          '_yatiml_extra (no other exemption)', floor=2)
    cls = P.cls('yatiml.constructors:Constructor')
    found = False
    for name, m in cls.methods.items():
        g = fn(P, m.key)
        for rs in g.raises():
            if raise_class(rs) != 'RecognitionError':
                continue
            loops = [l for l in enclosing_loops(rs, g.node) if isinstance(l, ast.For)]
            if not loops:
                continue
            lo = loops[0]
            kv = lo.target.elts[0].id if isinstance(lo.target, ast.Tuple) else norm(lo.target)
            member = None
            for x, p_ in g.guards(rs):
                if isinstance(x, ast.Compare) and len(x.ops) == 1 and norm(x.left) == kv \
                        and isinstance(x.ops[0], (ast.NotIn, ast.In)) and (isinstance(x.ops[0], ast.NotIn) == p_):
                    member = x.comparators[0]
            if member is None or 'mapping' not in norm(lo.iter):
                continue
            found = True
            mtxt = g.copies.xnorm(member)
            r.check(mtxt == 'argspec.args', 'keys are checked against argspec.args',
                    g.key('extraneous-key-allowed-set'), g.loc(rs),
                    'keys are accepted when they are in %s rather than in argspec.args: such keys are never recognised or '
                    'type-checked but reach __init__' % mtxt)
            inside = [(g.copies.xnorm(b.ast), b.pol) for b in g.cfg.guard_nodes(g.nid(rs))
                      if any(x is lo for x in _ancestors_list(b.ast)) and not isinstance(b.ast, ast.BoolOp)]
            allowed = {('%s not in argspec.args' % kv, True), ('%s in argspec.args' % kv, False),
                       ('%s not in %s' % (kv, mtxt), True), ('%s in %s' % (kv, mtxt), False),
                       ("'_yatiml_extra' not in argspec.args", True), ("'_yatiml_extra' in argspec.args", False),
                       ('isinstance(%s, str)' % kv, True)}
            extra = [x for x in inside if x not in allowed]
            r.check(not extra, 'raise under `%s not in argspec.args and "_yatiml_extra" not in argspec.args` only' % kv,
                    g.key('extraneous-key-condition'), g.loc(rs),
                    'the extraneous-key rejection is narrowed by %s: such keys reach __init__ unchecked' % extra)
            r.check(not breaks_of(lo, g.node) and 'mapping' in norm(lo.iter), 'every key of the mapping is checked',
                    g.key('extraneous-loop'), g.loc(lo), 'not every key is checked for being extraneous')
            # the check runs before __init__
            c = fn(P, CTOR + '__call__')
            sites = {c.nid(x) for x in c.calls(name) if c.live(x)}
            for ic in c.calls('__init__'):
                if c.live(ic):
                    r.check(c.cfg.must_pass(c.cfg.entry, c.nid(ic), sites), '__init__ is preceded by the extraneous-key check',
                            c.key('init-without-extraneous-check'), c.loc(ic),
                            '__init__ can be reached without the extraneous-key check')
    if not found:
        r.fail('yatiml.constructors:Constructor:no-extraneous-check', 'yatiml/constructors.py',
               'no check rejects keys that are not constructor parameters')
    r.done()
