"""C07 - JSON dumps are valid JSON with the same data under every formatting option (emitter transition table)."""
import ast

from ..model import AnalysisError
from ..guards import norm, call_name, const_str, kwarg
from ..transducer import extract, EVENTS, SCALAR_TAGS, state_names
from .. import guards as G
from . import shared as S
from . import dumpside as D
from .shared import fn

META = {
    'claim_added': "Also decided: text-dependent conditions in emit_json are explored on both outcomes, helper methods are inlined, emitter state outside the stack is treated as unknown (an unmodelled rendering is an opaque token that cannot equal the reference); a changed set of container states is reported; the emitter's state is per instance. Round 3: the load-back clause - built-in scalar types are accepted on their exact tag only (R01.5). Round 6 (E14): caches on the code this property is about are invisible - no value that lives in a memo cell (dict / lazily filled attribute / lru_cache) is modified by the code it is handed to, the key of a cell contains every input its value depends on, no mutable parameter default is modified or handed out; given that, the program is analysed as if every lookup missed. Round 12: R11.1 function-object-state - nothing that DumpsJsonFunction/DumpJsonFunction.__init__ builds is used by __call__ (a reused buffer keeps the half-written text of a failed dump).",
    'level': 'other',
    'technique': 'static: abstract interpretation of Dumper.emit_json over (event class x scalar tag x top-of-stack state) '
                 'into a finite transducer table compared with the canonical JSON writer written from RFC 8259; option flow '
                 '(negation parity) from the factory parameters to yaml.dump and into json.dumps',
    'claim': 'The hand-written pushdown emitter is extracted as a finite table (10 event classes, 8 scalar tag variants, 6 '
             'states = 102 cells) and every reachable cell is compared with the canonical JSON writer: separators by state '
             '(none / "," / key-value separator), value tokens ([ push SEQUENCE_FIRST, { push MAPPING_KEY_FIRST, scalar '
             'render), next-state update of the level that was on top before the push, ] / } pop, alias raises, nothing is '
             'written for stream/document events. Well-formedness for ALL nestings then follows by induction on depth from '
             'the table - which enumeration of shapes can only sample. Scalar rendering per tag: str and timestamp through '
             'json.dumps(event.value, ensure_ascii=not allow_unicode), null as the constant null, numbers verbatim. Indentation '
             'is balanced (IND+ in start cells, IND- in end cells, same operand), line breaks are only written under '
             '_requested_indent is not None, the separator is ":" when indent is None, and indent / not ensure_ascii reach '
             'yaml.dump at all three JSON sites. Not decided: content equality with the JSON projection, PyYAML\'s number '
             'spellings (nan/inf are excluded by the property), re-loading.',
    'note': 'Induction argument: in state NONE/SEQUENCE_FIRST/MAPPING_KEY_FIRST a value is written without separator, in '
            'SEQUENCE/MAPPING_KEY after ",", in MAPPING_VALUE after the key-value separator; a start event writes the opening '
            'bracket and pushes the FIRST state, so the nested content is by induction a well-formed (possibly empty) '
            'member list; the matching end event writes the closing bracket and pops; the enclosing level has meanwhile been '
            'advanced exactly as for a scalar value. Hence every event sequence PyYAML\'s serializer produces for a tree '
            'yields one JSON value.',
    'explanation': 'Finite transducer extraction and table comparison; see claim and note.',
    'assumptions': ['PyYAML\'s serializer emits balanced start/end events and key/value pairs for mappings',
                    'json.dumps of a str is a valid JSON string'],
}

NEXT = {'SEQUENCE_FIRST': 'SEQUENCE', 'MAPPING_KEY_FIRST': 'MAPPING_VALUE', 'MAPPING_KEY': 'MAPPING_VALUE',
        'MAPPING_VALUE': 'MAPPING_KEY', 'NONE': 'NONE', 'SEQUENCE': 'SEQUENCE'}
PREFIX = {'NONE': [], 'SEQUENCE_FIRST': [], 'SEQUENCE': [('const', ',')], 'MAPPING_KEY_FIRST': [],
          'MAPPING_KEY': [('const', ',')], 'MAPPING_VALUE': [('kvsep',)]}


def tokens(actions):
    return [a[1] for a in actions if a[0] == 'W' and a[1] != ('ws',)]


def run(ctx):
    P = ctx.P
    states = state_names(P)
    loc = 'yatiml/dumper.py'
    if set(states) != set(NEXT):
        # the rule decides the emitter by comparing it, cell by cell, with the canonical six-state JSON writer; an emitter with
        # another set of container states keeps part of "first item or not / key or value" somewhere else (a flag, a counter),
        # and that is exactly the information whose per-level bookkeeping the table checks
        r = ctx.rule('R07.1', 'the emitter\'s transition table equals the canonical JSON writer on every reachable cell', floor=1)
        r.fail('yatiml.dumper:JsonDumperState:states', loc, 'JsonDumperState has the members %s instead of %s: "first item / next item" '
               'and "key / value" are not tracked per nesting level by the state stack any more (e.g. one shared first-item flag is '
               'wrong after an empty nested collection: `[[], 1]` -> `[[]1]`)' % (sorted(states), sorted(NEXT)))
        r.done()
        S.r12_sinks(ctx)
        D.r11_1_calltime_writes(ctx, modules=('yatiml.dumper', 'yatiml.representers'))
        return
    T = extract(P)
    key = 'yatiml.dumper:Dumper.emit_json:cell:%s'
    r = ctx.rule('R07.1', 'the emitter\'s transition table equals the canonical JSON writer on every reachable cell', floor=60)

    def cellname(evc, tag, s):
        return '%s%s/%s' % (evc.replace('Event', ''), ('[' + tag + ']') if tag else '', s)

    def cells():
        for (evc, tag, s), call in sorted(T.items(), key=lambda x: (x[0][0], x[0][1] or '', x[0][2])):
            for c in call['variants']:
                yield (evc, tag, s), c

    for (evc, tag, s), c in cells():
        name = cellname(evc, tag, s) + (('?' + ','.join(c['choices'])) if c.get('choices') else '')
        tk = tokens(c['actions'])
        if evc == 'AliasEvent':
            r.check(c['raised'] is not None and not tk, '%s: raises (aliases cannot be written as JSON)' % name, key % name, loc,
                    'an alias event writes %s instead of raising' % tk)
            continue
        if evc in ('StreamStartEvent', 'StreamEndEvent', 'DocumentStartEvent', 'DocumentEndEvent'):
            if s != 'NONE':
                continue        # unreachable: these events only occur at nesting depth 0
            r.check(not tk and c['depth'] == 0 and c['stack'] == {0: 'NONE'} and c['raised'] is None,
                    '%s: writes no token, leaves the state alone' % name, key % name, loc,
                    '%s writes %s / changes the state stack to %s' % (name, tk, c['stack']))
            continue
        if evc in ('SequenceEndEvent', 'MappingEndEvent'):
            ok_states = ('SEQUENCE_FIRST', 'SEQUENCE') if evc == 'SequenceEndEvent' else ('MAPPING_KEY_FIRST', 'MAPPING_KEY')
            if s not in ok_states:
                continue        # unreachable
            br = ']' if evc == 'SequenceEndEvent' else '}'
            r.check(tk == [('const', br)] and c['depth'] == -1 and c['raised'] is None
                    and [a for a in c['actions'] if a[0] in ('PUSH', 'SET')] == [],
                    '%s: writes %s and pops' % (name, br), key % name, loc,
                    '%s writes %s, stack depth change %d (expected %r and one pop)' % (name, tk, c['depth'], br))
            continue
        # value events
        pre = PREFIX[s]
        if evc == 'ScalarEvent':
            render = tk[len(pre):] if tk[:len(pre)] == pre else None
            exp_stack = {0: NEXT[s]}
            ok = render is not None and len(render) == 1 and c['depth'] == 0 and c['stack'] == exp_stack and c['raised'] is None
            if ok:
                t = render[0]
                if tag in ('str', 'timestamp'):
                    ok = t == ('jsonstr', 'raw', 'not(allow_unicode,)')
                    why = 'a %s scalar is rendered as %s instead of json.dumps(event.value, ensure_ascii=not self.allow_unicode)' % (tag, t)
                elif tag == 'null':
                    ok = t == ('const', 'null')
                    why = 'a null scalar is rendered as %s instead of the constant null (Node.set_attribute(x, None) builds a ' \
                          'null node whose text is empty)' % (t,)
                elif tag == 'bool':
                    ok = t in (('raw',), ('rawlower',))
                    why = 'a bool scalar is rendered as %s' % (t,)
                elif tag in ('int', 'float'):
                    ok = t == ('raw',)
                    why = 'a number is rendered as %s instead of verbatim' % (t,)
                else:
                    ok = True
                    why = ''
            else:
                why = 'tokens %s, final state %s, depth %d (expected %s + one rendered value, state %s)' % (tk, c['stack'], c['depth'], pre, exp_stack)
            r.check(ok, '%s: %s + value, then state %s' % (name, pre, NEXT[s]), key % name, loc, '%s: %s' % (name, why))
        else:
            br, first = ('[', 'SEQUENCE_FIRST') if evc == 'SequenceStartEvent' else ('{', 'MAPPING_KEY_FIRST')
            exp_stack = {0: NEXT[s], 1: first}
            ok = tk == pre + [('const', br)] and c['depth'] == 1 and c['stack'] == exp_stack and c['raised'] is None
            r.check(ok, '%s: %s + %r, push %s, enclosing level -> %s' % (name, pre, br, first, NEXT[s]), key % name, loc,
                    '%s: tokens %s, final stack %s (expected %s, %s): after this collection the enclosing level is in the wrong '
                    'state / the wrong separator is written' % (name, tk, c['stack'], pre + [('const', br)], exp_stack))
    r.done()

    r = ctx.rule('R07.2', 'indentation is balanced: IND+ exactly in the start cells, IND- exactly in the end cells, same operand',
                 floor=20)
    for (evc, tag, s), c in cells():
        ind = [a for a in c['actions'] if a[0] == 'IND']
        name = cellname(evc, tag, s) + (('?' + ','.join(c['choices'])) if c.get('choices') else '')
        if evc in ('SequenceStartEvent', 'MappingStartEvent'):
            exp = [('IND', '+', 'best_indent')]
        elif evc == 'SequenceEndEvent' and s in ('SEQUENCE_FIRST', 'SEQUENCE') or evc == 'MappingEndEvent' and s in ('MAPPING_KEY_FIRST', 'MAPPING_KEY'):
            exp = [('IND', '-', 'best_indent')]
        elif evc in ('SequenceEndEvent', 'MappingEndEvent'):
            continue
        else:
            exp = []
        r.check(ind == exp, '%s: indentation change %s' % (name, exp), 'yatiml.dumper:Dumper.emit_json:indent:%s' % name, loc,
                '%s changes the indentation by %s (expected %s): nested levels drift' % (name, ind, exp))
        # a line break never separates a key from its value separator in a harmful way: NL is whitespace, allowed anywhere
    r.done()

    r = ctx.rule('R07.3', 'option flow: indent and not ensure_ascii reach yaml.dump at all JSON sites (checked as R12.2); the '
                          'emitter renders strings with ensure_ascii = not allow_unicode (R07.1 cells)', floor=1)
    r.ok('json.dumps(.., ensure_ascii=not self.allow_unicode) in every str/timestamp cell (see R07.1)')
    r.done()

    r = ctx.rule('R07.4', 'compact by default: line breaks and indentation are written only when an indent was requested; the '
                          'key-value separator is ":" without an indent', floor=3)
    f = fn(P, 'yatiml.dumper:Dumper._do_endline')
    writes = [c for c in f.walk() if isinstance(c, ast.Call) and norm(c.func) == 'self.stream.write']
    if not writes:
        r.fail(f.key('no-write'), f.loc(), '_do_endline writes nothing: indent has no effect')
    for w in writes:
        r.check(('self._requested_indent is None', False) in {G.canon_atom(g_, p_) for g_, p_ in f.guards(w)}, '_do_endline: %s only under '
                '_requested_indent is not None' % norm(w)[:40], f.key('write-guard'), f.loc(w),
                '_do_endline writes %s although no indent was requested: the default output is not compact' % norm(w)[:40])
    g = fn(P, 'yatiml.dumper:Dumper.__init__')
    st = [n for n in g.walk() if isinstance(n, ast.Assign) and any(norm(t) == 'self._requested_indent' for t in n.targets)]
    r.check(bool(st) and all(norm(n.value) == 'indent' for n in st), 'self._requested_indent = indent', g.key('requested-indent'),
            g.loc(), '_requested_indent is not the indent PyYAML passes on')
    seps = [n for n in g.walk() if isinstance(n, ast.Assign) and any(norm(t) == 'self._kv_sep' for t in n.targets)]
    ok_none = ok_some = False
    # after `self._requested_indent = indent` (never assigned elsewhere) the attribute is the parameter under another name
    ind_names = ['indent']
    if len(st) == 1 and norm(st[0].value) == 'indent' and all(g.cfg.dominates(g.nid(st[0]), g.nid(n)) for n in seps if g.nid(n) is not None):
        ind_names.append('self._requested_indent')

    def ind_guard(n, is_none: bool) -> bool:
        return any(g.has_guard(n, '%s is not None' % x, not is_none, expand=False) or g.has_guard(n, '%s is None' % x, is_none, expand=False)
                   for x in ind_names)
    for n in seps:
        v = const_str(n.value)
        none_side = ind_guard(n, True)
        some_side = ind_guard(n, False)
        if none_side and v == ':':
            ok_none = True
        if some_side and v is not None and v.strip() == ':' and set(v) <= set(': '):
            ok_some = True
        if isinstance(n.value, ast.IfExp):
            ok_none = ok_some = any(norm(n.value) in ("': ' if %s is not None else ':'" % x, "':' if %s is None else ': '" % x) for x in ind_names)
    # a class-level default that __init__ overrides only when an indent was requested
    dflt = P.cls('yatiml.dumper:Dumper').class_attrs.get('_kv_sep')
    if dflt is not None and const_str(dflt) == ':' and seps and not any(
            g.has_guard(n, 'indent is not None', False, expand=False) or g.has_guard(n, 'indent is None', True, expand=False)
            or not g.guards(n) for n in seps):
        ok_none = True
    r.check(ok_none and ok_some, 'key-value separator ":" without indent, ": " with indent', g.key('kv-sep'), g.loc(),
            'the key-value separator is not ":" when no indent is requested (or not a colon otherwise)')
    # the JSON branch is selected by output_format == 'json'
    e = fn(P, 'yatiml.dumper:Dumper.emit')
    cj = [c for c in e.calls('emit_json') if e.live(c)]
    r.check(bool(cj) and all(e.has_guard(c, "self.output_format == 'json'", True, expand=False) and len(c.args) == 1
                             and norm(c.args[0]) == e.fi.params[1] for c in cj),
            'emit dispatches to emit_json(event) under output_format == "json"', e.key('dispatch'), e.loc(),
            'emit does not dispatch to emit_json for JSON dumpers')
    r.done()
    S.r12_sinks(ctx)
    D.r11_1_calltime_writes(ctx, modules=('yatiml.dumper', 'yatiml.representers'))
    # the load-back clause: a JSON string is a str-tagged scalar and must be read back as a string and nothing else - built-in
    # scalar types are accepted on their exact tag only
    S.r01_5_scalar(ctx)
    from . import round3 as R3
    R3.r07_5_quoted_scalars_read_back(ctx)
    ctx.extra['transducer_cells'] = len(T)
    ctx.extra['sample_cells'] = {'%s/%s/%s' % k: [list(a) for a in v['actions']] for k, v in list(sorted(
        T.items(), key=lambda x: str(x[0])))[:6]}
    from . import memo_rules as M
    M.memo_sound(ctx, 'R07.M')
