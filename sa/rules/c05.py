"""C05 - YAML round trip: necessary agreements between the dumping and the loading side."""
from . import shared as S
from . import dumpside as D
from . import roundtrip as R
from . import helpers_rules as H
from . import round3 as R3

META = {
    'claim_added': "Also decided: sweeten/savorize hook symmetry (same own-definition test, same ancestor walk); default stripping agrees with loading (R05.7) and matches() compares text with the default itself, bool arms by polarity; yatiml leaves PyYAML's alias bookkeeping alone; the seasoning transforms are all-or-nothing (R15.2, sharing the C15 known findings). Round 3: the tag written for a type is accepted by that type's recogniser only (R05.11; string-like / Path objects referenced twice are a known finding), the YAML dump sites pass no emitter options (R12.1), recognition is a pure trial (R05.13). Round 6: R05.17 - a dump-side walk that refuses self-containing values keeps the discipline of the loader's cycle check (cross-check of siblings). Round 6 (E14): caches on the code this property is about are invisible - no value that lives in a memo cell (dict / lazily filled attribute / lru_cache) is modified by the code it is handed to, the key of a cell contains every input its value depends on, no mutable parameter default is modified or handed out; given that, the program is analysed as if every lookup missed. Round 11: the dump side keeps nothing between calls (R05.19/R05.20: no write into the Representer / Dumper objects that live as long as the dump function) - the round trip must hold for the n-th object dumped, not only for the first.",
    'level': 'other',
    'technique': 'static: DFA language inclusion between the Dumper\'s and the Loader\'s implicit-resolver tables; reference '
                 'regex of PyYAML\'s scalar representers against the loader language; decision-list agreement of the two '
                 'registration functions; structural inverse pairs; escape/totality of the default-stripping helper',
    'claim': 'Decides necessary agreements between the two cooperating components: (1) for strings of every length, a string '
             'that the Loader would type as non-str is never considered a plain str by the Dumper - except the recorded language '
             'F7 (YAML 1.2 floats that YAML 1.1 does not know), any string outside it is a VIOLATION with the shortest witness; '
             '(2) every float/bool/null spelling PyYAML writes is read back with the same tag; (3) add_to_loader/add_to_dumper are '
             'the same decision list; (4) enum/string-like/Path representer and constructor invert each other structurally and '
             'Path is registered on both sides; (5) default stripping is total and consistent with loading (R14.4, R05.7); '
             '(6) the tag written while processing satisfies the recogniser of the same kind (R18.3, for shared nodes); the '
             'transforms never insert one node object twice (R15.4). Not decided: equality of values after the trip, emitter '
             'quoting of YAML-syntax characters (PyYAML analyze_scalar), inverse user hooks.',
    'note': 'Known finding F7: dumps("1e5") is read back as a float (Dumper resolves with YAML 1.1, Loader with YAML 1.2).',
    'explanation': 'Static agreement checks between dump and load side; see claim.',
    'assumptions': ['PyYAML quotes a str scalar whenever its resolver detects a non-str tag (serializer/emitter, read from source)'],
}


def run(ctx):
    R.r05_1_plain_strings(ctx)
    R.r05_4_scalars_written(ctx)
    D.r05_2_dispatch(ctx, 'R05.2')
    R.r05_3_pairs(ctx)
    R.r05_7_defaults(ctx)
    R.r05_8_hook_symmetry(ctx)
    D.r06_7_alias_bookkeeping(ctx, 'R05.9')
    H.r15_2_do_nothing_exits(ctx, 'R05.10')
    H.r14_4_matches_total(ctx, 'R05.5')
    H.r15_4_no_node_twice(ctx, 'R05.6')
    # what is dumped for one type is read back as that type only, under every sink option that the YAML dump sites pass
    # (an object referenced twice is dumped as anchor + alias: the second reference meets the node the first one retagged;
    # enum members are not aliased by the dumper, so that kind is left to C18)
    from . import alias_rules as A
    A.r18_3_written_vs_accepted(ctx, 'R05.11', skip_kinds=('enum',))
    from . import shared as S
    S.r12_sinks(ctx)
    H.r16_1_purity(ctx, 'R05.13', roots=['yatiml.recognizer:Recognizer.recognize'], what='recognition (a trial of one candidate leaves the node as it was for the next)')
    # an object referenced twice is dumped as anchor + alias: the cycle pre-check must let every such (acyclic) document through
    A.r18_1_cycles(ctx, 'R05.14')
    R3.r10_8_each_class_once(ctx, 'R05.15')
    from . import alias_rules as A_
    A_.r05_17_dump_cycle_walk(ctx, 'R05.17')
    S.r04_5_strip_tags(ctx, 'R05.18', keep_core=True)
    from . import memo_rules as M
    M.memo_sound(ctx, 'R05.M')
    # round 11: the round trip holds for the n-th object dumped through one dump function, not only for the first - the dump side
    # keeps nothing between calls (a name list parked on the Representer at factory time and then edited in place loses
    # _yatiml_extra from the second object on)
    D.r06_3_purity(ctx, 'R05.19')
    D.r11_1_calltime_writes(ctx, 'R05.20', modules=('yatiml.dumper', 'yatiml.representers'))
