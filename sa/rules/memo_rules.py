"""E14 rule: a cache must be invisible (M1 cached objects are not modified, M2 the key covers what the value depends on, M3 no
shared mutable default).

The canonical form reads the program as if every lookup in a memo cell missed (sa/memo.py, step M).  That reading is only right if
the obligations below hold, so every property whose code can reach a memo cell carries them.  The rule works on the raw syntax
trees (the canonical form has no caches left to look at) and is scoped per property by the call graph: a violation is reported
under a property when the function it sits in - or one of its transitive callers - belongs to the code that property is about.
"""
from ..memo import MemoAnalysis

_LOAD = ('yatiml.loader:', 'yatiml.constructors:', 'yatiml.recognizer:')
_DUMP = ('yatiml.dumper:', 'yatiml.representers:')
SCOPE = {
    'C01': _LOAD, 'C02': _LOAD, 'C03': ('yatiml.recognizer:', 'yatiml.loader:'), 'C04': _LOAD, 'C05': _LOAD + _DUMP, 'C06': _DUMP,
    'C07': ('yatiml.dumper:',), 'C08': _LOAD + ('yatiml.helpers:UnknownNode.', 'yatiml.irecognizer:'), 'C09': ('yatiml.loader:Loader.',),
    'C10': ('savorize', 'sweeten'), 'C11': ('yatiml',), 'C12': ('yatiml.loader:load_function', 'yatiml.dumper:dump'),
    'C13': _LOAD, 'C14': ('yatiml.helpers:Node.',), 'C15': ('yatiml.helpers:Node.',), 'C16': ('yatiml.helpers:UnknownNode.',),
    'C17': ('yatiml.irecognizer:', 'yatiml.recognizer:', 'yatiml.exceptions:', 'yatiml.constructors:', 'yatiml.loader:'), 'C18': _LOAD,
}

_CONTROL_BAD = {'yatiml.ctl': '''
_cache = dict()
def names(cls):
    if cls not in _cache:
        _cache[cls] = compute(cls)
    return _cache[cls]
def use(cls):
    n = names(cls)
    n.remove('self')
    return n
def collect(x, acc=[]):
    acc.append(x)
    return acc
_labels = dict()
def label(cls, style):
    key = '%s.%s' % (cls.__module__, cls.__name__)
    if key not in _labels:
        _labels[key] = describe(cls, style)
    return _labels[key]
'''}
_CONTROL_GOOD = {'yatiml.ctl': '''
_cache = dict()
def names(cls):
    if cls not in _cache:
        _cache[cls] = compute(cls)
    return list(_cache[cls])
def use(cls):
    n = names(cls)
    n.remove('self')
    return n
def collect(x, acc=None):
    if acc is None:
        acc = []
    acc.append(x)
    return acc
_labels = dict()
def label(cls, style):
    key = (cls, style)
    if key not in _labels:
        _labels[key] = describe(cls, style)
    return _labels[key]
'''}


def _in_scope(prop: str, q: str) -> bool:
    pats = SCOPE.get(prop, ())
    return any((p in q) if ':' not in p and p != 'yatiml' else q.startswith(p) for p in pats)


def memo_sound(ctx, rid: str):
    r = ctx.rule(rid, 'caches are invisible: values that live in a memo cell (dict / lazily filled attribute / lru_cache) are '
                      'never modified by the code they are handed to, the key of a cell contains every input its value depends on, and no '
                      'mutable parameter default is modified or handed out', floor=2)
    # positive and negative control: the rule expects zero findings on the pinned tree, which has no cache at all
    bad = MemoAnalysis(_CONTROL_BAD)
    good = MemoAnalysis(_CONTROL_GOOD)
    kinds = sorted(v.rule for v in bad.violations)
    if kinds != ['M1', 'M2', 'M3'] or good.violations or len(bad.cells) != 2 or len(good.cells) != 2:
        from ..model import AnalysisError
        raise AnalysisError('%s: the memo analysis does not decide its own controls (%s / %s)' % (rid, kinds, [v.rule for v in good.violations]))
    r.ok('control: a cached list that a caller strips in place, a shared default list, and a cache keyed by a name derived from '
         'the class while the value also depends on a second argument, are reported')
    r.ok('control: the same code with a copy handed out and a None default is not')
    ana = getattr(ctx.P, 'memo', None)
    if ana is None:
        ana = MemoAnalysis({n: m.text for n, m in ctx.P.modules.items() if n == 'yatiml' or n.startswith('yatiml.')})
    for ob in ana.obligations:
        r.ok(ob)
    for v in ana.violations:
        reach = ana.callers_closure(v.fn)
        if v.module in ('yatiml.irecognizer', 'yatiml.exceptions'):
            # message formatting: what goes wrong is the text of an error, whoever asked for it
            if ctx.prop not in ('C17', 'C11', 'C16'):
                continue
        elif not any(_in_scope(ctx.prop, q) for q in reach):
            continue
        rel = v.module.replace('.', '/') + ('.py' if v.module != 'yatiml' else '/__init__.py')
        r.fail('%s:%s:%s' % (v.rule, v.fn.split(':')[1], v.construct), '%s:%d' % (rel, v.line),
               v.message + ' - the cache stops being invisible: a later call (another object, another document, another load or dump '
                           'function in the same process) sees what this one left behind')
    r.done()
