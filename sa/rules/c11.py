"""C11 - load and dump functions are stateless, isolated, and leave PyYAML untouched (effect analysis)."""
from . import shared as S
from . import dumpside as D

META = {
    'claim_added': "Also decided: class-level mutable defaults mutated through self are reported; resolver patch aliasing is decided by partial evaluation over PyYAML's own list objects (slice assignment, any/reversed supported). Round 6 (E14): caches on the code this property is about are invisible - no value that lives in a memo cell (dict / lazily filled attribute / lru_cache) is modified by the code it is handed to, the key of a cell contains every input its value depends on, no mutable parameter default is modified or handed out; given that, the program is analysed as if every lookup missed. Round 12: R11.1 function-object-state - an object that the __init__ of a load/dump function object builds and its __call__ uses is state between calls and threads, whatever the cleanup on the normal path looks like.",
    'level': 'other',
    'technique': 'static effect analysis: alias roots of every store / mutator call in the call closure of the load and dump '
                 'entry points, classified by lifetime of the written object (instantiation site); who-may-register rules; '
                 'partial evaluation of the resolver patch with reference semantics to detect writes into PyYAML\'s shared tables',
    'claim': 'If calls share no written state, neither history nor interleaving can influence a result - that is the static '
             'argument for the histories/schedules quantifiers. Decided: no call-time write is rooted at a module global, a class '
             'attribute, a closure variable of a factory, or a field of an object created at factory time (one exemption by name, '
             'with reason); no class-level mutable default is mutated through self, and every in-place updated field of '
             'Loader/Dumper is initialised per instance; registries default to None and every store is preceded by a per-class '
             'dict() initialisation; PyYAML\'s class-level tables are never mutated in place nor aliased by the resolver patch '
             '(checked by evaluating the patch over the real constant table with Python reference semantics); registrations '
             'target only classes created by the calling factory (PyYAML copies on first write - re-read each run); every factory '
             'creates a fresh class and nothing instantiates or caches a loader/dumper; user classes are never written. Not '
             'decided: thread-safety inside CPython/PyYAML objects that are per-call anyway.',
    'note': 'Exemption: Constructor.__call__ stores self.__loader (used for resolve() in the same call; all loaders sharing a '
            'Constructor are instances of one UserLoader class with identical per-instance resolver tables).',
    'explanation': 'Static effect analysis; see claim.',
    'assumptions': ['yaml.load / yaml.dump_all create one Loader/Dumper instance per call (checked against their source)'],
}


def run(ctx):
    D.r11_1_calltime_writes(ctx)
    D.r11_2_registries(ctx)
    D.r11_3_pyyaml_tables(ctx)
    D.r11_4_fresh_class(ctx)
    D.r11_6_user_classes(ctx)
    S.r04_3_registrations(ctx)
    from . import round3 as R3
    R3.r11_7_per_call_loader(ctx)
    from . import memo_rules as M
    M.memo_sound(ctx, 'R11.M')
