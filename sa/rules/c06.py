"""C06 - dumps are faithful, tag-free, ordered, and leave the object untouched (structural clauses)."""
from . import shared as S
from . import dumpside as D

META = {
    'claim_added': "Also decided: enum members by name / str() for string-likes and paths; no write to PyYAML's alias bookkeeping; floats written by Node.set_value/set_attribute are spelt by PyYAML's representer (else the dump carries !!float tags). Round 3: the dumping side leaves PyYAML's implicit resolvers alone and overrides no further PyYAML method (R06.10); string-like means exactly str / UserString / String (R06.11). Round 6: R06.15 (= R05.17); an override of a PyYAML method on Dumper is accepted only if it is transparent (checks, then the unchanged arguments to the base method). Round 6 (E14): caches on the code this property is about are invisible - no value that lives in a memo cell (dict / lazily filled attribute / lru_cache) is modified by the code it is handed to, the key of a cell contains every input its value depends on, no mutable parameter default is modified or handed out; given that, the program is analysed as if every lookup missed. Round 11: Node.set_value spells None as a text that resolves to null (text:None under R06.9; F30 fixed by f824033); R06.17 - the node handed to _yatiml_sweeten shares its child nodes with other references to the same objects (known finding F31). Round 12: the YAML dump sites pass PyYAML exactly the pinned options (R12.1 runs here: allow_unicode=True writes NEL raw inside a quoted scalar).",
    'level': 'other',
    'technique': 'static: constant-folded tag arguments of every node-constructing call; argument position of sort_keys '
                 'resolved against PyYAML\'s signature; shape of the attribute-pair construction; write-effect analysis '
                 '(alias roots, direct writes in the call closure of the representers); resolved Dumper class at every sink; '
                 'decision-list agreement of add_to_dumper/add_to_loader',
    'claim': 'Decides: only plain core tags (map/str) are produced and OrderedDict goes through represent_dict; sort_keys=False '
             'reaches SafeDumper and nothing in the dump path sorts or builds sets; the attribute mapping is '
             '[(name, getattr(obj, name))] over the __init__ parameters in declaration order minus _yatiml_extra, with the extras '
             'appended after (or _yatiml_attributes()); no write in the closure of the representers is rooted at the dumped '
             'object, its class, the representer instance (shared across dumps) or module/class state - hence purity and '
             'repeatability as far as yatiml\'s own code goes; every yaml.dump sink uses its factory\'s UserDumper; enum before '
             'string-like before class on both registration sides. Not decided: that the text equals the projection for a '
             'concrete value; effects of user sweeten hooks.',
    'note': 'Alias analysis is flow-insensitive and name-resolved; user hooks are not followed.',
    'explanation': 'Static decision of structural clauses of C06; see claim.',
    'assumptions': ['user _yatiml_sweeten/_yatiml_attributes do not mutate the object (outside yatiml)'],
}


def run(ctx):
    D.r06_1_plain_tags(ctx)
    D.r06_2_order(ctx)
    D.r06_3_purity(ctx)
    S.r06_5_dumper_sinks(ctx)
    D.r05_2_dispatch(ctx, 'R06.6')
    D.r06_7_alias_bookkeeping(ctx)
    from . import roundtrip as R
    R.r05_3_pairs(ctx, 'R06.8')
    from . import helpers_rules as H
    H.r14_1_scalar_table(ctx, 'R06.9')
    from . import round3 as R3
    R3.r06_10_dumper_resolver_untouched(ctx)
    R3.r06_11_string_like(ctx)
    # "repeated dumps identical" / "altered only by the classes' own sweeten, bases first": no call-time state on classes or
    # modules of the dumping side, and the sweeten walk mirrors the savorize walk
    D.r11_1_calltime_writes(ctx, 'R06.12', modules=('yatiml.dumper', 'yatiml.representers'))
    R.r05_8_hook_symmetry(ctx, 'R06.13')
    R3.r10_8_each_class_once(ctx, 'R06.14')
    from . import alias_rules as A_
    A_.r05_17_dump_cycle_walk(ctx, 'R06.15')
    D.r06_16_replaced_node_filed(ctx)
    D.r06_17_hook_sees_shared_children(ctx)
    # round 12: the YAML dump sites pass PyYAML exactly the options the pinned tree passes (allow_unicode=True makes PyYAML write NEL
    # raw inside a quoted scalar, where a reader folds it to a space: the text no longer reads back as the projection)
    from . import shared as S12
    S12.r12_sinks(ctx)
    from . import memo_rules as M
    M.memo_sound(ctx, 'R06.M')
