"""C12 - every source and sink kind gives the same result: sibling call sites and sibling factories agree."""
from . import shared as S

META = {
    'claim_added': 'Also decided: Dumper.__init__ forwards the stream and every emitter option unchanged (only sort_keys is replaced) and does not inspect the sink; a source is never re-bound to a transformed copy in one branch only. Round 3: Loader.__init__ hands its arguments to SafeLoader.__init__ unchanged and unconditionally, and nothing on the load side reads a source name (R12.7). Round 6 (E14): caches on the code this property is about are invisible - no value that lives in a memo cell (dict / lazily filled attribute / lru_cache) is modified by the code it is handed to, the key of a cell contains every input its value depends on, no mutable parameter default is modified or handed out; given that, the program is analysed as if every lookup missed.',
    'level': 'other',
    'technique': 'static: sibling-site agreement - every yaml.dump/yaml.load call site of one factory compared after '
                 'normalisation (resolved Dumper class, keyword set, option expressions), factory configurations compared, '
                 'source/sink normalisation rules on the branch tests and context managers',
    'claim': 'Decides that the string, path and stream variants cannot diverge through yatiml\'s own code: all YAML dump '
             'sites pass their factory\'s own UserDumper and no further option; all JSON sites pass it with indent=indent and '
             'allow_unicode=not ensure_ascii; sibling factories build identically configured dumper classes; sources and sinks '
             'are only normalised (str sink -> Path, a Path is opened in text mode, a caller\'s stream is never entered as a '
             'context manager / closed, no content- or existence-based special case); both load branches use the same loader; '
             'equal JSON defaults. Not decided: PyYAML\'s Reader treating str, bytes and streams alike; OS newline/encoding.',
    'note': 'The historical !!omap defect was exactly a disagreement between the string and the file call site.',
    'explanation': 'Static sibling-agreement decision; see claim.',
    'assumptions': ['PyYAML yaml.dump/yaml.load treat a text stream and a str alike (Reader/Emitter)'],
}


def run(ctx):
    S.r06_5_dumper_sinks(ctx, 'R12.0')
    S.r12_sinks(ctx)
    from . import dumpside as D
    D.r12_6_options_forwarded(ctx)
    from . import round3 as R3
    R3.r12_7_source_independence(ctx)
    from . import memo_rules as M
    M.memo_sound(ctx, 'R12.M')
