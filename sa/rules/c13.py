"""C13 - load is invariant under changes that do not alter the document's meaning (structural necessary conditions)."""
from . import shared as S
from . import alias_rules as A

META = {
    'claim_added': 'Round 10: R13.11 - the set of names that __strip_extra_attributes exempts is the signature\'s parameters, asked by name (a one-shot iterator makes the answer depend on key order). Also decided: no early exit from the Union member loop; attributes are looked up per declared parameter by name and every present one is judged; Any positions are stripped on every exit; strip_tags re-resolves with constant flags. Round 3: nothing rewrites the composed tree (key order, merge keys) before recognition (R13.7). Round 6 (E14): caches on the code this property is about are invisible - no value that lives in a memo cell (dict / lazily filled attribute / lru_cache) is modified by the code it is handed to, the key of a cell contains every input its value depends on, no mutable parameter default is modified or handed out; given that, the program is analysed as if every lookup missed. Round 11: R13.12 - a construction parks nothing on the per-class Constructor object across the point where nested objects are built (the only call-time write is the exempt loader reference): parked state is overwritten by a nested object of the same class or not depending on where its key stands. Round 12: R13.12 covers the whole load path (constructors, loader, recognizer, introspection).',
    'level': 'other',
    'technique': 'static: forbidden-read rule for presentation attributes and a sink rule for source marks (messages and new '
                 'nodes only) with positive controls; decision table of the generic-kind predicates; who-reads-__origin__; '
                 'positional-access scan; accumulator rules of the Union recogniser',
    'claim': 'Four of the five invariances have a structural necessary condition, which is decided: (1) re-serialisation - no '
             'load-path code reads style/flow_style/anchor/comment, and source marks flow only into messages or marks of new '
             'nodes, never into a comparison, index or branch; strip_tags re-resolves with the constant implicit flags; (2) '
             'List/Sequence/MutableSequence and Dict/Mapping/MutableMapping - the two predicates accept exactly the three origins '
             'each and nothing else inspects __origin__; (3) key order - attributes are found by key text, no positional access '
             'to pair lists, __init__ by keywords; (4) bool_union_fix is dropped when bool is present; unrelated classes - '
             'candidates come only from the expected class\'s registered subclass cone, and extras are stripped on every path. '
             'Not decided: that PyYAML composes equal node trees for block/flow/quoted/canonical renderings.',
    'note': '',
    'explanation': 'Static decision of structural necessary conditions of the invariances; see claim.',
    'assumptions': ['PyYAML composes the same node tree (tags, kinds, values) for equivalent renderings'],
}


def run(ctx):
    A.r13_1_presentation(ctx)
    A.r13_2_generic_kinds(ctx)
    A.r13_3_by_name(ctx)
    S.r03_7_union(ctx)
    S.r03_2_registered_only(ctx)
    S.r04_5_strip_tags(ctx)
    S.r04_7_strip_before_construct(ctx)
    S.r03_3_order_independence(ctx)
    S.r02_3_admission(ctx, 'R13.4')
    S.r03_8_whole_node(ctx, 'R13.5')
    S.r01_4_retag(ctx, 'R13.6')
    from . import round3 as R3
    R3.r01_10_tree_untouched(ctx, 'R13.7')
    from . import helpers_rules as H_
    H_.r14_3_positions(ctx)
    R3.r14_14_exact_key_match(ctx, 'R13.9')
    # what a custom recogniser sees must not depend on the position of a key: the require_* helpers scan every pair and decide
    # after the scan (a decision taken inside the scan depends on which key comes first)
    H_.r16_3_decisions(ctx, 'R13.8')
    from . import round3 as R3c
    R3c.r13_10_tag_collisions(ctx, 'R13.10')
    # which keys of a class mapping count as extra (and lose the tags below them) is a question asked by name against a fixed set:
    # a one-shot iterator, or a set that the scan itself shrinks, makes the answer depend on the order of the keys
    S.r02_2_attrset(ctx, 'R13.11')
    # round 11: one Constructor object serves every node of its class, and a construction is suspended (yield / deep
    # construct_mapping) while the nested objects - possibly of the same class - are built, in document key order. Anything a
    # construction parks on the Constructor before that point and reads after it is overwritten by a nested sibling or not
    # depending on where its key stands.
    from . import dumpside as D
    D.r11_1_calltime_writes(ctx, 'R13.12', modules=('yatiml.constructors', 'yatiml.loader', 'yatiml.recognizer', 'yatiml.introspection'), floor=2)
    from . import memo_rules as M
    M.memo_sound(ctx, 'R13.M')
