"""C03 - polymorphic positions resolve to the unique most-derived match, never a guess."""
from . import shared as S

META = {
    'claim_added': 'Also decided: every recogniser exit returns a (verdict, error) pair. Round 3: recognition writes no node, so every candidate sees the same node (R03.9); exactly the classes passed by the caller are registered (R03.10); nobody but __recognize_user_classes, under `not is_abstract`, judges a class itself. Round 6 (E14): caches on the code this property is about are invisible - no value that lives in a memo cell (dict / lazily filled attribute / lru_cache) is modified by the code it is handed to, the key of a cell contains every input its value depends on, no mutable parameter default is modified or handed out; given that, the program is analysed as if every lookup missed. Round 11: the descent into registered subclasses is restricted by the __bases__ test alone (R03.2 descent-every-subclass) - a visited set or any other filter inside the candidate loop takes candidates away, and a class below two registered classes (diamond) must be tried below each of them; that much of the diamond case is decided now.',
    'level': 'other',
    'technique': 'static: candidate-loop shape (no early exit, set accumulation), abstract cardinality evaluation of the '
                 'guards of every verdict return, must-pass-through for child judgement and tag tests, decision table of '
                 'is_abstract',
    'claim': 'Decides the structural conditions that make candidate resolution a function of the candidate *set*: abstract '
             'classes excluded (is_abstract true for isabstract and for ABC among __bases__), candidates only from the registry '
             'filtered by __bases__ (no __subclasses__), candidate loops without early exit and with set accumulation (no '
             'first-match, hence independence from Union member and registration order), a class only when no subclass matched, '
             'non-core tags accepted only when naming a recognised registered class, Union verdict = union of member verdicts '
             'with the bool_union_fix collapse, every child verdict judged before ACCEPT, the uniqueness gate in '
             '__process_node. Not decided: that the chosen class is right for a concrete value; diamond hierarchies.',
    'note': 'The explicit-tag disambiguation branch for >= 2 candidates is not constrained: it is unreachable (each candidate '
            'already rejects a mismatching tag), found by reading and confirmed by two independent seeding attempts.',
    'explanation': 'Static decision of necessary structural clauses of candidate resolution; see claim.',
    'assumptions': ['single dispatch through Recognizer.recognize (one implementation of IRecognizer)'],
}


def run(ctx):
    S.r03_1_abstract(ctx)
    S.r03_2_registered_only(ctx)
    S.r03_3_order_independence(ctx)
    S.r03_4_most_derived(ctx)
    S.r03_6_foreign_tags(ctx)
    S.r03_7_union(ctx)
    S.r03_8_whole_node(ctx)
    S.r01_2_gate(ctx)
    S.r17_4_no_silent_reject(ctx)
    from . import round3 as R3
    R3.r03_10_registered_is_given(ctx, 'R03.10')
    from . import helpers_rules as H
    H.r16_1_purity(ctx, 'R03.9', roots=['yatiml.recognizer:Recognizer.recognize'], what='recognition (every candidate must see the same node)')
    R3.r08_14_verdict_is_a_set(ctx, 'R03.11')
    # which recogniser decides for a class is part of "the most-derived match": a class without a recogniser of its own must not be
    # judged by the one it inherits
    S.r10_hooks(ctx, ids=('R03.12', 'R03.13', 'R03.14'), only_hooks={'_yatiml_recognize'})
    R3.r03_15_tag_class_direction(ctx, 'R03.15')
    from . import round3 as R3_
    R3_.r03_16_descent_reaches_registered_descendants(ctx)
    R3_.r03_17_tag_selects_against_generic_members(ctx)
    from . import round3 as R3c
    R3c.r13_10_tag_collisions(ctx, 'R03.18')
    S.r02_9_requiredness(ctx, 'R03.19')
    from . import memo_rules as M
    M.memo_sound(ctx, 'R03.M')
