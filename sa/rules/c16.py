"""C16 - UnknownNode.require_* accept exactly the nodes they describe and never modify the node."""
from . import helpers_rules as H
from . import shared as S

META = {
    'claim_added': 'Also decided: each helper has its rejecting exits (positive phrasing); the recogniser judges every item (no second pass exists for require_attribute); Node.is_scalar/get_value clauses of C14 that the helpers delegate to. Round 6 (E14): caches on the code this property is about are invisible - no value that lives in a memo cell (dict / lazily filled attribute / lru_cache) is modified by the code it is handed to, the key of a cell contains every input its value depends on, no mutable parameter default is modified or handed out; given that, the program is analysed as if every lookup missed.',
    'level': 'other',
    'technique': 'static: decision atoms per exit (raise / return) extracted from dominating guards and compared with the table '
                 'written from the docstrings; typestate of get_value(); write-effect closure through Recognizer.recognize',
    'claim': 'Decides the decision structure of every require_* helper: require_mapping/sequence raise iff the node is not of that '
             'kind; require_scalar delegates to Node.is_scalar (node kind and tag) for each given type; require_attribute scans '
             'the pairs (no hashing), raises iff none matches, lets the first match decide and, with a type, raises iff the '
             'loader\'s own recogniser returns an empty verdict; require_attribute_value(_not) find str-tagged keys, establish the '
             'scalar type before comparing values, raise/return under exactly the documented atoms and raise after the scan iff '
             'the key is absent; all raise RecognitionError; require_mapping precedes any read of the pair list. Purity: the call '
             'closure (through recognition) performs no write except initialising fresh wrappers. NOT decided: agreement with a '
             'predicate on concrete nodes (value-level).',
    'note': 'Known finding F8: the enum arm of the recogniser retags the node in place, reachable from require_attribute(name, Enum).',
    'explanation': 'Static decision-structure comparison; see claim.',
    'assumptions': [],
}


def run(ctx):
    H.r16_1_purity(ctx)
    H.r16_2_kind_first(ctx)
    H.r16_3_decisions(ctx)
    H.r14_10_get_value_typestate(ctx, 'R16.4')
    S.r03_8_whole_node(ctx, 'R16.5')
    H.r14_1_scalar_table(ctx, 'R16.6')
    H.r14_9_get_value_text(ctx, 'R16.7', dump_side=False)
    from . import round3 as R3
    R3.r16_8_conversion_errors(ctx, 'R16.8')
    from . import memo_rules as M
    M.memo_sound(ctx, 'R16.M')
