"""C05 - loading what was dumped gives back an equal object: necessary agreements between the dumping and loading side."""
import ast
from typing import Dict, List, Optional, Set, Tuple

from ..model import AnalysisError, Program
from .. import guards as G
from ..guards import norm, call_name, const_str
from ..facts import Fn, CORE, assigned_from
from ..relang import subset, equal
from ..resolver_lang import resolver_model, T, REF
from . import shared as S
from .shared import fn


def r05_1_plain_strings(ctx):
    P = ctx.P
    r = ctx.rule('R05.1', 'no string is written plain that is read back as something else: {Tag_load != str} is included in '
                          '{Tag_dump != str} (serializer marks a str node implicit exactly when Tag_dump(s) = str)', floor=2)
    M = resolver_model(P)
    src = ast.unparse(P.func('yaml.serializer:Serializer.serialize_node').node)
    for fact in ('detected_tag = self.resolve(ScalarNode, node.value, (True, False))', 'node.tag == detected_tag'):
        if fact not in src:
            raise AnalysisError('Serializer.serialize_node no longer has the modelled shape (%s)' % fact)
    load_ns = M.nonstr_lang(M.T_load)
    dump_ns = M.nonstr_lang(M.T_dump)
    D = load_ns - dump_ns
    loose = M.ref('loose_float')
    w_out = (D - loose).witness()
    r.check(w_out is None, 'every string that loads as a non-string and is not a YAML 1.2 float is also a non-string for the '
            'Dumper (and therefore quoted when dumped as a str)', 'yatiml:resolver-tables:plain-string-misread', 'yatiml/loader.py',
            'the string %r is written unquoted by the Dumper (its resolver calls it a str) but the Loader types it as %s'
            % (w_out, _tag_of(M, w_out) if w_out is not None else ''), {'string': w_out})
    w = D.witness()
    r.check(w is None, 'strings that are YAML 1.2 floats are quoted by the Dumper', 'yatiml.dumper:Dumper:plain-yaml12-float-strings',
            'yatiml/dumper.py', 'the string %r (a YAML 1.2 float that PyYAML\'s YAML 1.1 resolver does not recognise) is dumped '
            'unquoted and loads back as a float' % w, {'string': w, 'language': 'L(YAML 1.2 float, sign-tolerant nan) minus {Tag_dump != str}'})
    r.done()


def _tag_of(M, s: str) -> str:
    for tg in M.tags(M.T_load):
        if M.tag_lang(M.T_load, tg).accepts(s):
            return tg
    return '?'


def r05_4_scalars_written(ctx):
    P = ctx.P
    r = ctx.rule('R05.4', 'what PyYAML\'s representers write for float/bool/null is read back with the same tag by the loader',
                 floor=3)
    M = resolver_model(P)
    fl = M.tag_lang(M.T_load, T + 'float')
    w = subset(M.ref('float_repr'), fl)
    r.check(w is None, 'every spelling represent_float writes (repr(float).lower(), .0 inserted before a bare exponent, .nan, '
            '[-].inf) resolves to float', 'yatiml.loader:Loader:float-repr-readable', 'yatiml/loader.py',
            'represent_float writes %r, which the loader does not type as float' % w, {'string': w})
    src = ast.unparse(P.func('yaml.representer:SafeRepresenter.represent_bool').node)
    if "value = 'true'" not in src or "value = 'false'" not in src:
        raise AnalysisError('represent_bool changed shape')
    bl = M.tag_lang(M.T_load, T + 'bool')
    r.check(bl.accepts('true') and bl.accepts('false'), 'represent_bool\'s true/false resolve to bool', 'yatiml.loader:Loader:bool-repr-readable',
            'yatiml/loader.py', 'the loader does not type true/false as bool')
    src = ast.unparse(P.func('yaml.representer:SafeRepresenter.represent_none').node)
    if "'null'" not in src:
        raise AnalysisError('represent_none changed shape')
    r.check(M.tag_lang(M.T_load, T + 'null').accepts('null'), 'represent_none\'s null resolves to null', 'yatiml.loader:Loader:null-repr-readable',
            'yatiml/loader.py', 'the loader does not type null as null')
    r.done()


def r05_3_pairs(ctx, rid='R05.3'):
    P = ctx.P
    r = ctx.rule(rid, 'representer/constructor pairs invert each other structurally (enum by name, string-like by str(), Path '
                          'by str()) and Path is registered on both sides', floor=7)
    # enum
    er = fn(P, 'yatiml.representers:EnumRepresenter.__call__')
    data = er.fi.params[2]
    sn = [c for c in er.walk() if isinstance(c, ast.Call) and call_name(c) in ('ScalarNode', 'represent_str', 'represent_scalar')]
    vals = []
    for c in sn:
        if call_name(c) == 'represent_str' and c.args:
            vals.append(norm(c.args[0]))
        elif len(c.args) >= 2:
            vals.append(norm(c.args[1]))
    r.check(vals == ['%s.name' % data], 'EnumRepresenter writes %s.name' % data, er.key('value'), er.loc(),
            'EnumRepresenter writes %s, EnumConstructor looks members up by name' % vals)
    ec = fn(P, 'yatiml.constructors:EnumConstructor.__call__')
    node = ec.fi.params[2]
    subs = [n for n in ec.walk() if isinstance(n, ast.Subscript) and norm(n.value) == 'self.class_' and isinstance(n.ctx, ast.Load)]
    r.check(len(subs) == 1 and norm(subs[0].slice) == '%s.value' % node, 'EnumConstructor builds self.class_[%s.value] (by member name)' % node,
            ec.key('lookup'), ec.loc(), 'EnumConstructor does not look the member up by the name that EnumRepresenter writes')
    ys = [n for n in ec.walk() if isinstance(n, ast.Yield)]
    r.check(bool(ys) and all(y.value is not None and any(norm(x) == norm(subs[0]) for x in S._flow_sources(ec, y.value)) for y in ys)
            if subs else False, 'EnumConstructor yields that member', ec.key('yield'), ec.loc(), 'EnumConstructor does not yield the member')
    # string-like
    ur = fn(P, 'yatiml.representers:UserStringRepresenter.__call__')
    data = ur.fi.params[2]
    rs = [c for c in ur.calls('represent_str')]
    r.check(len(rs) == 1 and [norm(a) for a in rs[0].args] == ['str(%s)' % data], 'UserStringRepresenter writes str(%s)' % data,
            ur.key('value'), ur.loc(), 'UserStringRepresenter writes %s' % [norm(c) for c in rs])
    uc = fn(P, 'yatiml.constructors:UserStringConstructor.__call__')
    node = uc.fi.params[2]
    mk = [c for c in uc.walk() if isinstance(c, ast.Call) and norm(c.func) == 'self.class_']
    r.check(len(mk) == 1 and [norm(a) for a in mk[0].args] == ['%s.value' % node] and not mk[0].keywords,
            'UserStringConstructor builds self.class_(%s.value)' % node, uc.key('construct'), uc.loc(),
            'UserStringConstructor does not construct from the node text only')
    # path
    pr = fn(P, 'yatiml.representers:PathRepresenter.__call__')
    path = pr.fi.params[2]
    rs = [c for c in pr.calls('represent_str')]
    r.check(len(rs) == 1 and [norm(a) for a in rs[0].args] == ['str(%s)' % path], 'PathRepresenter writes str(%s)' % path,
            pr.key('value'), pr.loc(), 'PathRepresenter writes %s' % [norm(c) for c in rs])
    pc = fn(P, 'yatiml.constructors:PathConstructor.__call__')
    node = pc.fi.params[2]
    mk = [c for c in pc.walk() if isinstance(c, ast.Call) and norm(c.func) in ('pathlib.Path', 'Path')]
    r.check(len(mk) == 1 and [norm(a) for a in mk[0].args] == ['%s.value' % node], 'PathConstructor builds pathlib.Path(%s.value)' % node,
            pc.key('construct'), pc.loc(), 'PathConstructor does not construct Path(node text)')
    lf = fn(P, 'yatiml.loader:load_function')
    reg = [c for c in lf.calls('add_constructor') if const_str(c.args[0]) == '!Path' and norm(c.args[1]) == 'PathConstructor()']
    add = [n for n in lf.walk() if isinstance(n, ast.Assign) and any(norm(t) == 'UserLoader._additional_classes[Path]' for t in n.targets)
           and const_str(n.value) == '!Path']
    r.check(bool(reg) and bool(add), 'load_function registers !Path with PathConstructor and in _additional_classes', lf.key('path-registration'),
            lf.loc(), 'Path is not registered consistently for loading (!Path constructor and _additional_classes[Path])')
    regs = dict(S.module_representers(P))
    r.check(regs.get('PosixPath') == 'PathRepresenter()' and regs.get('WindowsPath') == 'PathRepresenter()',
            'Dumper registers PathRepresenter for both concrete Path classes', 'yatiml.dumper:Dumper:path-representers', 'yatiml/dumper.py',
            'a concrete Path class has no PathRepresenter on yatiml.Dumper')
    r.done()


def r05_7_defaults(ctx, rid='R05.7'):
    P = ctx.P
    r = ctx.rule(rid, 'default stripping agrees with loading: defaulted_attributes computes "optional" like class_subobjects and '
                      'applies a _yatiml_defaults override whenever the name is present in it', floor=3)
    a = S._subobjects_fn(P)
    b = fn(P, 'yatiml.introspection:defaulted_attributes')
    # class_subobjects: `required` = <index of the parameter> < FO
    fa = None
    for y in a.walk():
        if isinstance(y, ast.Yield) and isinstance(y.value, ast.Tuple) and len(y.value.elts) == 3:
            c = a.alpha.rewrite(y.value.elts[2])
            if isinstance(c, ast.Compare) and len(c.ops) == 1 and isinstance(c.ops[0], ast.Lt) \
                    and norm(c.left).startswith('<each:enumerate(') and norm(c.left).endswith('.args)>[0]'):
                fa = norm(c.comparators[0])
    # defaulted_attributes, canonical form (N36-N38): for name, default in zip(ARGS[FO:], DEFAULTS):
    #                                                    if name in U: result[name] = U[name] else: result[name] = default
    fb = None
    ok = False
    if fa is not None:
        fa = fa.replace(a.fi.params[0], 'CLS')
    cls_p = b.fi.params[0]
    for lo in [n for n in b.walk() if isinstance(n, ast.For)]:
        zi = b.alpha.rewrite(lo.iter)
        if not (isinstance(zi, ast.Call) and isinstance(zi.func, ast.Name) and zi.func.id == 'zip' and len(zi.args) == 2 and not zi.keywords
                and isinstance(lo.target, ast.Tuple) and len(lo.target.elts) == 2 and S.whole_collection_loop(lo)):
            continue
        names_, defs_ = zi.args
        if not (isinstance(names_, ast.Subscript) and isinstance(names_.slice, ast.Slice) and names_.slice.upper is None
                and names_.slice.step is None and names_.slice.lower is not None and norm(names_.value).endswith('.args')
                and '.defaults' in norm(defs_) and 'getfullargspec(' in norm(defs_)):
            continue
        it = norm(zi)
        kt, dt = '<each:%s>[0]' % it, '<each:%s>[1]' % it
        fb = norm(names_.slice.lower).replace(cls_p, 'CLS')
        stores = [n for n in ast.walk(lo) if isinstance(n, ast.Assign) and len(n.targets) == 1 and isinstance(n.targets[0], ast.Subscript)
                  and b.alpha.text(n.targets[0].slice) == kt]
        result_names = {norm(n.targets[0].value) for n in stores}
        plain, over, bad = [], [], []
        for n in stores:
            ig = [(G.canon_atom(x.ast, x.pol)) for x in b.cfg.guard_nodes(b.nid(n)) if any(y is lo for y in S._ancestors_list(x.ast))]
            vt = b.alpha.text(n.value)
            table = None
            if isinstance(n.value, ast.Subscript) and b.alpha.text(n.value.slice) == kt:
                table = n.value.value
            if vt == dt:
                plain.append((n, ig))
            elif table is not None:
                over.append((n, ig, table))
            else:
                bad.append(n)

        def is_user_table(table):
            srcs = [norm(x) for x in assigned_from(b, norm(table))] if isinstance(table, ast.Name) else [norm(table)]
            flat = []
            for s_ in srcs:
                flat.append(s_)
            return any(s_ == '%s._yatiml_defaults' % cls_p or s_.startswith("getattr(%s, '_yatiml_defaults'" % cls_p)
                       or s_.startswith('%s._yatiml_defaults if ' % cls_p) for s_ in flat)
        ov_ok = False
        if len(over) == 1 and len(plain) == 1 and not bad and len(result_names) == 1:
            n_o, g_o, table = over[0]
            n_p, g_p = plain[0]
            tt = b.alpha.text(table)
            member = '%s in %s' % (kt, tt)
            def gtext(x):
                e = x.ast
                if isinstance(e, ast.Compare) and len(e.ops) == 1 and isinstance(e.ops[0], ast.In):
                    return '%s in %s' % (b.alpha.text(e.left), b.alpha.text(e.comparators[0]))
                return b.alpha.text(e)
            g_o_a = [(gtext(x), x.pol) for x in b.cfg.guard_nodes(b.nid(n_o)) if any(y is lo for y in S._ancestors_list(x.ast))]
            g_p_a = [(gtext(x), x.pol) for x in b.cfg.guard_nodes(b.nid(n_p)) if any(y is lo for y in S._ancestors_list(x.ast))]
            ov_ok = g_o_a == [(member, True)] and g_p_a == [(member, False)] and is_user_table(table)
            ok = True
        elif len(plain) == 1 and not over and not bad:
            # no override at all: every defaulted parameter is recorded, but _yatiml_defaults is ignored
            ok = not plain[0][1]
        r.check(ov_ok, 'override: default = user_defaults[name] exactly when name in user_defaults', b.key('override'), b.loc(),
                'a _yatiml_defaults entry is not always applied (e.g. an explicit None override is ignored), or applied '
                'under another condition')
    r.check(fa is not None and fa == fb, 'both compute the index of the first optional parameter as %s' % fa,
            'yatiml.introspection:first-optional', 'yatiml/introspection.py',
            'class_subobjects and defaulted_attributes disagree on which parameters are optional: %s vs %s' % (fa, fb))
    r.check(ok, 'every defaulted parameter is recorded with its default, unconditionally', b.key('defaults-recorded'), b.loc(),
            'defaulted_attributes does not record every defaulted parameter')
    r.done()


def _hook_protocol(f: Fn, hook: str) -> Tuple[Optional[str], Optional[str], Optional[str], str]:
    """(own-definition test kind, what the ancestor loop ranges over, ancestor filter kind, detail) of a hook-applying function,
    with the class parameter written as CLS"""
    calls = [c for c in f.walk() if isinstance(c, ast.Call) and isinstance(c.func, ast.Attribute) and c.func.attr == hook]
    # alternative spellings of the one call on the same receiver (chosen by the hook's signature) are one call site
    if len(calls) > 1 and len({norm(c.func) for c in calls}) == 1:
        calls = calls[:1]
    if len(calls) != 1:
        return None, None, None, '%d calls of %s' % (len(calls), hook)
    c = calls[0]
    cls_ = norm(c.func.value)
    own = None
    for g, p in f.guards(c):
        t, pol = G.canon_atom(g, p)
        if t == "'%s' in %s.__dict__" % (hook, cls_) and pol:
            own = 'own-dict'
        elif hook in t and pol and own is None:
            own = 'other:' + t.replace(cls_, 'CLS')
    loops = [n for n in f.walk() if isinstance(n, ast.For) and any(
        isinstance(x, ast.Call) and isinstance(x.func, ast.Attribute) and x.func.attr == f.fi.name.lstrip('_') or
        isinstance(x, ast.Call) and isinstance(x.func, ast.Attribute) and f.fi.name.endswith(x.func.attr.lstrip('_')) for x in ast.walk(n))]
    rng = flt = None
    for lo in loops:
        rng = f.alpha.text(lo.iter).replace(cls_, 'CLS')
        rec = [x for x in ast.walk(lo) if isinstance(x, ast.Call) and isinstance(x.func, ast.Attribute)
               and f.fi.name.endswith(x.func.attr.lstrip('_'))]
        for x in rec:
            gs = [G.canon_atom(b.ast, b.pol) for b in f.cfg.guard_nodes(f.nid(x)) if any(y is lo for y in S._ancestors_list(b.ast))]
            reg = [t for t, pol in gs if pol and ' in ' in t]
            # "not visited yet" (a set handed down through a parameter): each class is applied once, also in a diamond
            vis = [t for t, pol in gs if not pol and ' in ' in t and t.split(' in ', 1)[1] in f.fi.params]
            if len(reg) == 1 and len(reg) + len(vis) == len(gs) and len(vis) <= 1:
                flt = 'registered-only' + ('+visited' if vis else '')
            else:
                flt = 'other:%s' % gs
    return own, rng, flt, cls_


def r05_8_hook_symmetry(ctx, rid='R05.8'):
    P = ctx.P
    r = ctx.rule(rid, 'sweeten on dump and savorize on load are applied by the same protocol (own definition only, registered direct '
                      'bases first), so that inverse hooks are applied the same number of times on both sides', floor=2)
    a = fn(P, 'yatiml.loader:Loader.__savorize')
    b = fn(P, 'yatiml.representers:Representer.__sweeten')
    pa = _hook_protocol(a, '_yatiml_savorize')
    pb = _hook_protocol(b, '_yatiml_sweeten')
    r.check(pa[0] == 'own-dict' and pb[0] == 'own-dict', 'both hooks are looked up in the class\'s own __dict__',
            'yatiml:hook-symmetry:own-definition', b.loc(), 'savorize is applied under `%s`, sweeten under `%s`: a subclass that inherits a '
            'non-idempotent sweeten/savorize pair gets one of them applied twice and load(dumps(x)) != x' % (pa[0], pb[0]))
    r.check(pa[1] == pb[1] == 'CLS.__bases__' and pa[2] == pb[2] and str(pa[2]).startswith('registered-only'),
            'both recurse into the registered direct bases first (%s)' % pa[2],
            'yatiml:hook-symmetry:ancestors', b.loc(), 'savorize walks %s (%s), sweeten walks %s (%s): ancestors\' hooks are applied a different '
            'number of times on the two sides' % (pa[1], pa[2], pb[1], pb[2]))
    r.done()
