"""C17 - recognition errors point at the offending place (the weak claim: every message carries a position, keys are named)."""
from . import shared as S
from . import errors as E
from . import helpers_rules as H

META = {
    'claim_added': "Also decided: which node a class-recognition error cites (missing key / not a mapping: the node itself; wrong attribute: its key node), path-sensitively; set_value keeps the replaced node's marks; format_rec_error collects every leaf; recognition keeps no state between nodes; cited marks come from locals of the activation, not from shared fields or post-hook nodes. Round 3: PyYAML reads the caller's text unmodified, so marks are positions in the user's document (R17.10/11); the error of every child judgement is recorded as a cause (R17.5). Round 6 (E14): caches on the code this property is about are invisible - no value that lives in a memo cell (dict / lazily filled attribute / lru_cache) is modified by the code it is handed to, the key of a cell contains every input its value depends on, no mutable parameter default is modified or handed out; given that, the program is analysed as if every lookup missed. Round 12: the memo rule covers yatiml.constructors and yatiml.loader (an error text remembered with the position of the first failure).",
    'level': 'other',
    'technique': 'static: inductive "positioned message" predicate over string construction (format/concatenation/f-string parts, '
                 'locals by reaching definitions, caught RecognitionError, format_rec_error) applied to every raise and every error '
                 'leaf; must-dataflow for "the returned message contains the key name"; which node\'s mark is cited',
    'claim': 'Decides the weak claim of C17 and the naming of keys: the argument of every raise RecognitionError in the load path '
             'and the message of every possible leaf of a recognition error tree contains a source mark (by induction over message '
             'construction; format_rec_error renders all unique leaves); no rejection is returned without an error, and a forwarded '
             'error is the one of the child whose verdict is empty; diagnose_missing_key / diagnose_extraneous_key name the key on '
             'every path and are called with the attribute under judgement; the extraneous-key error cites the key node\'s mark, '
             'the type error the value node\'s; marks are read from document nodes, never constructed. NOT decided: that the cited '
             'line is the right one (the strong claim relates a corruption site to a line and needs inputs).',
    'note': 'Known finding F10: two leaves in __recognize_user_classes carry no position.',
    'explanation': 'Static decision of the weak positional claim; see claim.',
    'assumptions': [],
}


def run(ctx):
    E.r17_1_positions(ctx)
    E.r17_2_key_named(ctx)
    E.r17_3_real_marks(ctx)
    S.r17_4_no_silent_reject(ctx)
    E.r17_5_error_of_the_empty_verdict(ctx)
    E.r17_6_cited_node(ctx)
    H.r17_7_set_value_marks(ctx)
    E.r17_9_mark_provenance(ctx)
    H.r16_1_purity(ctx, 'R17.8', roots=['yatiml.recognizer:Recognizer.recognize'], what='recognition (error messages are built per node, nothing is remembered between nodes)')
    from . import round3 as R3
    R3.r17_10_source_text_untouched(ctx)
    R3.r12_7_source_independence(ctx, 'R17.11')
    from . import memo_rules as M
    M.memo_sound(ctx, 'R17.M')
