"""C18 (anchors/aliases transparent) and C13 (invariance under meaning-preserving changes)."""
import ast
from typing import Dict, List, Optional, Set, Tuple

from ..model import AnalysisError, Program, walk_function, parent, dotted_name
from ..guards import norm, call_name, const_str, known_instance, tag_equalities
from ..facts import Fn, CORE, assigned_from, enclosing_loops, enclosing_stmt
from ..effects import world, call_closure, direct_writes
from .. import guards as G
from . import shared as S
from . import helpers_rules as H
from .shared import fn, fn_of

LOAD_MODULES = ['yatiml.loader', 'yatiml.recognizer', 'yatiml.constructors', 'yatiml.util', 'yatiml.irecognizer',
                'yatiml.introspection']


def _cycle_sets(g, node):
    """which parameter is the set of ancestors (the one whose membership test guards the raise) and which the set of finished nodes
    (another parameter that the node is added to)"""
    anc = None
    for x in g.raises():
        for a_, p_ in g.guards(x):
            t, pol = g.alpha.atom(a_, p_)
            for pn in g.fi.params[2:]:
                if pol and t in ('id(%s) in %s' % (node, pn), '%s in %s' % (node, pn)):
                    anc = pn
    done = None
    for c in g.walk():
        if isinstance(c, ast.Call) and isinstance(c.func, ast.Attribute) and c.func.attr in ('add', 'update') and isinstance(c.func.value, ast.Name) \
                and c.func.value.id in g.fi.params[2:] and c.func.value.id != anc and c.args and g.alpha.text(c.args[0]) in ('id(%s)' % node, node):
            done = c.func.value.id
    if anc is None and len(g.fi.params) > 2:
        anc = g.fi.params[2]
    return anc, done


def _cycle_discipline(r, g, fname: str, raise_class: str):
    """the discipline of a recursive walk that refuses a node found among its own ancestors - shared by the loader's check and by
    any sibling written after it (cross-check of siblings: they must agree on entering, leaving, memoising and descending)"""
    a = g.fi.node.args
    mutable_defaults = [norm(d) for d in a.defaults + [x for x in a.kw_defaults if x is not None]
                        if isinstance(d, (ast.List, ast.Dict, ast.Set, ast.Call))]
    r.check(not mutable_defaults, '%s has no mutable default arguments' % fname, g.key('mutable-defaults'), g.loc(),
            '%s has mutable default arguments %s: the ancestor/done sets persist across calls' % (fname, mutable_defaults))
    node = g.fi.params[1]
    S._structural_recursion(r, g, fname, node,
                            lambda n: isinstance(n.func, ast.Attribute) and n.func.attr.endswith(fname), False)
    rs = g.raises()
    anc, done_p = _cycle_sets(g, node)
    ok = bool(rs) and all(S.raise_class(x) == raise_class for x in rs) and anc is not None and any(
        any(g.alpha.atom(a_, p_) in (('id(%s) in %s' % (node, anc), True), ('%s in %s' % (node, anc), True)) for a_, p_ in g.guards(x))
        for x in rs)
    r.check(ok, 'a node found among its own ancestors raises %s' % raise_class, g.key('raise'), g.loc(),
            'the cycle check does not raise %s when a node is met among its own ancestors' % raise_class)
    if anc is not None:
        adds = [c for c in g.walk() if isinstance(c, ast.Call) and isinstance(c.func, ast.Attribute) and norm(c.func.value) == anc
                and c.func.attr == 'add' and c.args and g.alpha.text(c.args[0]) in ('id(%s)' % node, node)]
        rec = [c for c in g.walk() if isinstance(c, ast.Call) and isinstance(c.func, ast.Attribute) and c.func.attr.endswith(fname)]
        r.check(bool(adds) and all(any(g.cfg.dominates(g.nid(a_), g.nid(c)) for a_ in adds) for c in rec),
                'the node is entered into the ancestor set before descending', g.key('ancestors-add'), g.loc(),
                'the node is not recorded as an ancestor before its children are visited')
        r.check(all(any(norm(x) == anc for x in c.args) for c in rec), 'the same ancestor set is passed down', g.key('ancestors-passed'),
                g.loc(), 'the recursive calls do not receive the ancestor set')
        # ... each set in its own position: ancestors and finished nodes are both sets of ids, swapping them type-checks
        own = [x for x in (anc, done_p) if x is not None]
        pos_of = {pn: k for k, pn in enumerate(g.fi.params[1:])}
        for c in rec:
            byname = {pn: norm(c.args[k]) for pn, k in pos_of.items() if k < len(c.args)}
            byname.update({k.arg: norm(k.value) for k in c.keywords if k.arg})
            passed = [byname.get(x) for x in own]
            r.check(passed == own, 'recursive call passes (%s) in the positions it received them' % ', '.join(own),
                    g.key('recursive-call-arguments:%s' % g.alpha.text(c.args[0])[:40] if c.args else 'recursive-call-arguments'), g.loc(c),
                    'a recursive call of the cycle check passes %s where the function takes %s: the set of ancestors and the set of '
                    'finished nodes change roles on the way down, so a node shared between two branches is reported as containing itself '
                    '(or a real cycle is missed)' % (passed, own))
        # the node leaves the ancestor set again on every normal exit after it was entered: otherwise a node referenced twice
        # by siblings ([*a, *a]) is reported as containing itself although the document is a tree
        rems = {g.nid(c) for c in g.walk() if isinstance(c, ast.Call) and isinstance(c.func, ast.Attribute) and norm(c.func.value) == anc
                and c.func.attr in ('remove', 'discard') and c.args and g.alpha.text(c.args[0]) in ('id(%s)' % node, node)}
        okrem = bool(adds) and bool(rems)
        for a_ in adds:
            for rn in g.cfg.returns():
                if rn in g.cfg.reachable(g.nid(a_)) and not g.cfg.must_pass(g.nid(a_), rn, rems):
                    okrem = False
        r.check(okrem, 'the node is removed from the ancestor set on every normal exit after it was entered', g.key('ancestors-remove'),
                g.loc(), 'a node stays in the ancestor set after its subtree was checked: a second, sibling reference to the same anchored '
                'node (`[*a, *a]`, `{x: *a, y: *a}`) is rejected as self-referential although its expansion loads')
        # the memo of finished nodes is written after the subtree: a node marked "checked" on entry is skipped by the memo test
        # when an alias leads back to it from inside - before the ancestor test can see the cycle
        if done_p is not None:
            marks = [c for c in g.walk() if isinstance(c, ast.Call) and isinstance(c.func, ast.Attribute) and norm(c.func.value) == done_p
                     and c.func.attr in ('add', 'update') and g.live(c)]
            def member_of(b, setname):
                return any(isinstance(x, ast.Compare) and len(x.ops) == 1 and isinstance(x.ops[0], (ast.In, ast.NotIn))
                           and norm(x.comparators[0]) == setname for x in ast.walk(b.ast))
            memo_tests = [b for b in g.cfg.nodes if b.kind == 'test' and member_of(b, done_p)]
            anc_tests = [b for b in g.cfg.nodes if b.kind == 'test' and member_of(b, anc) and not member_of(b, done_p)]
            anc_first = bool(anc_tests) and all(any(g.cfg.dominates(t.id, m.id) for t in anc_tests) for m in memo_tests)
            for m_ in marks:
                after = g.cfg.reachable(g.nid(m_))
                early = [c for c in rec if g.nid(c) in after and g.nid(c) != g.nid(m_)]
                r.check(not early or anc_first, 'the node is marked as checked only after its subtree was visited', g.key('memo-after-descent'),
                        g.loc(m_), 'the node is entered into the set of finished nodes before its children are visited, and that set is '
                        'consulted before the ancestor set: an alias from inside the node back to it (`&a [*a]`) returns at the memo test, '
                        'the cycle is never reported and the loader recurses without bound')
        # early exits before the descent are taken only for nodes that cannot contain anything (scalars) or were checked already
        done = done_p
        allowed = {'isinstance(%s, yaml.ScalarNode)' % node}
        if done is not None:
            allowed |= {'id(%s) in %s' % (node, done), '%s in %s' % (node, done)}
        first_rec = [g.nid(c) for c in rec]
        for ret in g.returns():
            if any(g.cfg.dominates(x, g.nid(ret)) for x in first_rec) or any(g.nid(a_) is not None and g.cfg.dominates(g.nid(a_), g.nid(ret)) for a_ in adds):
                continue
            inner = g.cfg.guard_nodes(g.nid(ret))
            okx = bool(inner)
            # "no children gathered": the collection the descent loops over is empty
            child_vars = {l.iter.id for c in rec for l in S.enclosing_loops(c, g.node) if isinstance(l, ast.For) and isinstance(l.iter, ast.Name)}
            if inner and G.canon_atom(inner[-1].ast, inner[-1].pol) in {(v_, False) for v_ in child_vars} | {('len(%s) == 0' % v_, True) for v_ in child_vars}:
                r.ok('the early exit is taken when there are no children to descend into')
                continue
            for b in inner[-1:]:
                t = b.ast
                alts = t.values if isinstance(t, ast.BoolOp) and isinstance(t.op, ast.Or) else [t]
                okx = b.pol and all(g.alpha.atom(x) in {(a_, True) for a_ in allowed} for x in alts)
            if not okx:
                # "neither a sequence nor a mapping" is "nothing to descend into" as well: PyYAML's collection nodes are exactly these two
                held = {g.alpha.atom(a_, p_) for a_, p_ in g.guards(ret)}
                if {('isinstance(%s, yaml.SequenceNode)' % node, False), ('isinstance(%s, yaml.MappingNode)' % node, False)} <= held:
                    okx = True
            r.check(okx, 'the early exit is taken only for scalars and nodes already checked', g.key('early-exit'), g.loc(ret),
                    'the cycle check returns before descending under %s: collections are skipped and `&a [*a]` exhausts the stack again'
                    % [('' if b.pol else 'not ') + norm(b.ast) for b in inner[-1:]])


def r05_17_dump_cycle_walk(ctx, rid='R05.17'):
    """A refusal, on the dumping side, of values that contain themselves is a sibling of the loader's cycle check: it must keep the
    same discipline, or it refuses values that are merely shared (written with an anchor and aliases, and loadable)."""
    P = ctx.P
    r = ctx.rule(rid, 'a dump-side walk that refuses self-containing values follows the discipline of the loader\'s cycle check '
                      '(entered before descending, left on every normal exit, memo after the subtree, every child visited)', floor=1)
    found = 0
    for mn in ('yatiml.dumper', 'yatiml.representers'):
        m = P.modules.get(mn)
        if m is None:
            continue
        for fi in m.functions.values():
            if fi.cls is None or len(fi.params) < 3:
                continue
            rec = [c for c in walk_function(fi.node) if isinstance(c, ast.Call) and isinstance(c.func, ast.Attribute)
                   and c.func.attr.endswith(fi.name.lstrip('_')) and norm(c.func.value) == fi.params[0]]
            if not rec:
                continue
            g = S.fn_of(fi)
            node = fi.params[1]
            guarded = False
            for x in g.raises():
                for a_, p_ in g.guards(x):
                    t, pol = g.alpha.atom(a_, p_)
                    if pol and any(t in ('id(%s) in %s' % (node, pn), '%s in %s' % (node, pn)) for pn in fi.params[2:]):
                        guarded = True
            if not guarded:
                continue
            found += 1
            cls = sorted({S.raise_class(x) for x in g.raises()})
            _cycle_discipline(r, g, fi.name.lstrip('_'), cls[0] if len(cls) == 1 else 'RepresenterError')
            # started with fresh sets
            for cf in m.functions.values():
                for c in walk_function(cf.node):
                    if cf is not fi and isinstance(c, ast.Call) and isinstance(c.func, ast.Attribute) and c.func.attr.endswith(fi.name.lstrip('_')) \
                            and cf.cls is fi.cls:
                        fresh = all(norm(a) in ('set()', 'dict()', '[]', 'list()') for a in c.args[1:]) and not c.keywords
                        r.check(fresh, '%s starts the walk with fresh sets' % cf.qual, '%s:cycle-walk-args' % cf.key, cf.loc(c),
                                'the walk is not started with fresh per-call sets (%s)' % [norm(a) for a in c.args])
    if not found:
        r.ok('no walk on the dumping side refuses values (nothing to cross-check)')
    r.done()


def r18_1_cycles(ctx, rid='R18.1'):
    P = ctx.P
    r = ctx.rule(rid, 'recursion over the node graph is guarded: a complete acyclicity pre-check (every item, every key and '
                      'value) with per-call ancestor sets dominates processing and leaves via RecognitionError', floor=8)
    for entry in ('get_single_node', 'get_node'):
        f = fn(P, 'yatiml.loader:Loader.' + entry)
        checks = [c for c in f.calls('__check_no_cycles') if f.live(c)]
        procs = [c for c in f.calls('__process_node') if f.live(c)]
        ok = bool(checks) and all(any(f.cfg.dominates(f.nid(c), f.nid(p)) for c in checks)
                                  or (bool(p.args) and isinstance(p.args[0], ast.Name) and f.cfg.must_pass(
                                      f.cfg.entry, f.nid(p), {f.nid(c) for c in checks} | S.fresh_scalar_assignments(f, p.args[0].id)))
                                  for p in procs)
        if entry == 'get_node' and not procs:
            continue
        r.check(ok, '%s: the cycle check dominates __process_node' % entry, f.key('cycle-check-first'), f.loc(),
                '%s processes the composed node graph without first rejecting self-referential aliases: `&a [*a]` exhausts the '
                'stack (RecursionError)' % entry)
        for c in checks:
            node_ok = c.args and any(norm(c.args[0]) == norm(p.args[0]) for p in procs)
            fresh = all(norm(a) in ('set()', 'dict()', '[]', 'list()') for a in c.args[1:]) and not c.keywords
            n_given = len(c.args)
            if fresh and len(c.args) < 3:
                # the sets a call leaves out are made by the check itself: a parameter defaulting to None that is replaced by a
                # fresh set() first thing
                callee = fn(P, 'yatiml.loader:Loader.__check_no_cycles')
                pn = callee.fi.params[1:]
                defaults = callee.fi.node.args.defaults
                dmap = dict(zip(callee.fi.node.args.args[len(callee.fi.node.args.args) - len(defaults):], defaults))
                dmap = {a_.arg: d_ for a_, d_ in dmap.items()}
                for pname in pn[len(c.args):]:
                    d_ = dmap.get(pname)
                    made = [st_ for st_ in callee.walk() if isinstance(st_, ast.Assign) and norm(st_.targets[0]) == pname
                            and norm(st_.value) == 'set()' and callee.has_guard(st_, '%s is None' % pname, True, expand=False)]
                    uses_before = False
                    if not (isinstance(d_, ast.Constant) and d_.value is None and len(made) == 1):
                        fresh = False
                n_given = len(pn) if fresh else n_given
            r.check(bool(node_ok) and fresh and n_given >= 2, '%s: __check_no_cycles(node, set(), set()) - fresh sets per load' % entry,
                    f.key('cycle-check-args'), f.loc(c), 'the cycle check is not given the composed node and fresh per-call sets (%s): '
                    'state from earlier loads would be consulted (ids of freed nodes are reused)' % [norm(a) for a in c.args])
    _cycle_discipline(r, fn(P, 'yatiml.loader:Loader.__check_no_cycles'), '__check_no_cycles', 'RecognitionError')
    r.done()


def r18_3_written_vs_accepted(ctx, rid='R18.3', skip_kinds=()):
    P = ctx.P
    r = ctx.rule(rid, 'what processing writes, recognition accepts: the tag __type_to_tag gives a node satisfies the accept guard of '
                      'the same kind\'s recogniser (an aliased node is met again after the first reference was processed)', floor=7)
    table = S.type_to_tag_table(ctx)
    STR, BOOL = repr(CORE + 'str'), repr(CORE + 'bool')
    # scalars: written scalar_type_to_tag[t]; accepted tag == scalar_type_to_tag[t]
    f = fn(P, S.REC + '__recognize_scalar')
    node, et = f.fi.params[1], f.fi.params[2]
    acc = S.accept_returns(f)
    a = None
    for ret, v in acc:
        a, _ = tag_equalities(f.guards(ret), '%s.tag' % node, f.copies)
    r.check(a == {'scalar_type_to_tag[%s]' % et} and table.get('scalar', '').startswith('scalar_type_to_tag['),
            'scalar: written scalar_type_to_tag[t], accepted tag == scalar_type_to_tag[t]', 'yatiml:written-vs-accepted:scalar',
            'yatiml/recognizer.py', 'scalar types: the tag written (%s) is not the tag accepted (%s)' % (table.get('scalar'), a))
    # sequences / mappings: written plain seq/map; accepted by node kind; processing requires the plain tag
    r.check(table.get('sequence') == repr(CORE + 'seq'), 'sequence: written %s; recognised by node kind; processing requires exactly that tag'
            % table.get('sequence'), 'yatiml:written-vs-accepted:sequence', 'yatiml/loader.py', 'sequence types are retagged %s' % table.get('sequence'))
    r.check(table.get('mapping') == repr(CORE + 'map'), 'mapping: written %s; recognised by node kind; processing requires exactly that tag'
            % table.get('mapping'), 'yatiml:written-vs-accepted:mapping', 'yatiml/loader.py', 'mapping types are retagged %s' % table.get('mapping'))
    # registered classes: written '!Name'
    written = table.get('registered')
    g = fn(P, S.REC + '__recognize_user_class')
    gnode = g.fi.params[1]
    enum_t, enum_f, str_t, str_f = S._recognizer_arms(g)
    finals = [(ret, v) for ret, v in S.accept_returns(g) if not g.cfg.enclosing_handlers(ret)]
    for kind, arms, allowed in (('enum', enum_t, {STR, BOOL}), ('string-like', str_t, {STR})):
        if kind in skip_kinds:
            continue
        # the accept guard restricts the tag to core tags: a node already retagged '!Name' is rejected
        restricts = S.branch_nodes(g, S.est_tag_within('%s.tag' % gnode, allowed, g.copies))
        needs_core = any(rn in g.cfg.reachable(a_) and g.cfg.must_pass(a_, rn, restricts) for a_ in arms for rn in [g.nid(ret) for ret, _ in finals])
        r.check(not needs_core, '%s class: the recogniser accepts the tag processing writes (%s)' % (kind, written),
                'yatiml:written-vs-accepted:%s' % kind, g.loc(),
                'a %s class node is retagged %s by the first reference, but the recogniser accepts only %s: the second reference '
                'to an aliased node is rejected although the expanded document loads' % (kind, written, sorted(allowed)))
    # auto classes: accepted on MappingNode regardless of tag; then the tag test of __recognize_user_classes accepts '!Name' of the class itself
    r.ok('auto-recognised class: accepted on node kind; a tag naming the recognised class itself passes the tag test (R03.6)')
    # Path
    h = fn(P, S.REC + '__recognize_additional')
    hnode = h.fi.params[1]
    a = None
    for ret, v in S.accept_returns(h):
        a, _ = tag_equalities(h.guards(ret), '%s.tag' % hnode, h.copies)
    wpath = table.get('additional')
    r.check(not (a is not None and a <= {STR}), 'Path: the recogniser accepts the tag processing writes (%s)' % wpath,
            'yatiml:written-vs-accepted:path', h.loc(), 'a Path node is retagged !Path by the first reference, but the recogniser '
            'accepts only %s: an aliased mapping with a Path attribute is rejected although its expansion loads' % (sorted(a) if a else a))
    r.done()


def r18_4_replace_not_mutate(ctx, rid='R18.4'):
    P = ctx.P
    r = ctx.rule(rid, 'seasoning replaces scalar nodes instead of rewriting them (a shared scalar keeps its identity for the other '
                      'references), and processing keeps no per-node cache', floor=3)
    f = fn(P, H.NODE + 'set_value')
    W = world(P)
    fe = W.fns[f.fi.key]
    writes = [ev for ev in fe.events if ev.how != 'call' and ev.roots - {'fresh'}]
    bad = [ev for ev in writes if not (isinstance(ev.node, ast.Attribute) and norm(ev.node) == 'self.yaml_node')]
    r.check(not bad and bool(writes), 'set_value only assigns self.yaml_node (a new ScalarNode)', f.key('in-place'), f.loc(),
            'set_value rewrites the existing node (%s): an aliased scalar changes under its other references, which then fail to '
            'recognise' % [norm(ev.node) for ev in bad])
    for name in ('__process_node', '__savorize', '__type_to_tag', 'get_single_node'):
        g = fn(P, 'yatiml.loader:Loader.' + name)
        ge = W.fns[g.fi.key]
        sw = [ev for ev in ge.events if ev.how != 'call' and any(x.startswith('self') and not x.startswith('self.yaml_node') for x in ev.roots)]
        r.check(not sw, 'Loader.%s writes no loader state' % name, g.key('loader-state'), g.loc(),
                'Loader.%s writes loader state (%s): results of earlier references/documents are remembered (a cache keyed by the '
                'node ignores the declared type of the position)' % (name, [norm(ev.node)[:40] for ev in sw]))
    r.done()


# =====================================================================================================
# C13
# =====================================================================================================

PRESENTATION_ATTRS = {'style', 'flow_style', 'anchor', 'comment', 'implicit'}


def _mark_use_ok(n: ast.AST) -> Tuple[bool, str]:
    """the value of a mark read flows only into message construction / mark arguments"""
    c = n
    p = parent(n)
    while p is not None and not isinstance(p, ast.stmt):
        if isinstance(p, ast.Compare):
            return False, 'comparison %s' % norm(p)[:50]
        if isinstance(p, (ast.IfExp,)) and c is p.test:
            return False, 'condition %s' % norm(p.test)[:50]
        if isinstance(p, ast.Subscript) and c is p.slice:
            return False, 'index %s' % norm(p)[:50]
        if isinstance(p, ast.BinOp) and not isinstance(p.op, (ast.Add, ast.Mod)):
            return False, 'arithmetic %s' % norm(p)[:50]
        if isinstance(p, ast.Attribute) and p.attr in ('line', 'column', 'index', 'pointer'):
            # reading line/column numbers: only acceptable inside a message
            pass
        c, p = p, parent(p)
    if isinstance(p, (ast.If, ast.While)) and c is p.test:
        return False, 'branch test %s' % norm(p.test)[:50]
    return True, ''


def r13_1_presentation(ctx):
    P = ctx.P
    r = ctx.rule('R13.1', 'presentation is never consulted while loading: no read of style/flow_style/anchor/comment; source marks '
                          'flow only into messages and the marks of new nodes', floor=10)
    n_marks = 0
    for mn in LOAD_MODULES + ['yatiml.helpers']:
        m = P.module(mn)
        for fi in m.functions.values():
            for n in walk_function(fi.node):
                if isinstance(n, ast.Attribute) and isinstance(n.ctx, ast.Load) and n.attr in PRESENTATION_ATTRS:
                    recv = norm(n.value)
                    if recv in ('self', 're', 'yaml', 'logging') or fi.module.imports.get(recv):
                        continue
                    r.fail('%s:reads:%s' % (fi.key, norm(n)), fi.loc(n), '%s reads %s: the outcome of a load depends on how the '
                           'document is written (plain/quoted, block/flow, anchors), not only on node tags, kinds and values' % (fi.qual, norm(n)))
                if isinstance(n, ast.Attribute) and isinstance(n.ctx, ast.Load) and n.attr in ('start_mark', 'end_mark'):
                    n_marks += 1
                    ok, why = _mark_use_ok(n)
                    if ok:
                        # a local bound to the mark: its uses
                        st = enclosing_stmt(n)
                        if isinstance(st, ast.Assign) and len(st.targets) == 1 and isinstance(st.targets[0], ast.Name) and st.value is n:
                            v = st.targets[0].id
                            for u in walk_function(fi.node):
                                if isinstance(u, ast.Name) and u.id == v and isinstance(u.ctx, ast.Load):
                                    ok2, why2 = _mark_use_ok(u)
                                    if not ok2:
                                        ok, why = False, why2
                    r.check(ok, '%s: %s flows into a message / a new node\'s mark' % (fi.qual, norm(n)), '%s:mark-in-decision:%s' % (fi.key, norm(n)),
                            fi.loc(n), '%s uses %s in a %s: the outcome of a load depends on source positions' % (fi.qual, norm(n), why))
    r.ok('%d mark reads examined; control: a comparison `node.start_mark.line > 3` is recognised as a decision' % n_marks)
    ctl = ast.parse('if node.start_mark.line > 3:\n    pass').body[0]
    for x in ast.walk(ctl):
        for c in ast.iter_child_nodes(x):
            c._parent = x
    ctl._parent = None
    mk = [x for x in ast.walk(ctl) if isinstance(x, ast.Attribute) and x.attr == 'start_mark'][0]
    if _mark_use_ok(mk)[0]:
        raise AnalysisError('positive control for mark-in-decision failed')
    r.done()


def r13_2_generic_kinds(ctx):
    P = ctx.P
    r = ctx.rule('R13.2', 'List/Sequence/MutableSequence are one kind and Dict/Mapping/MutableMapping are one kind: the two '
                          'predicates accept exactly those origins and nothing else inspects __origin__', floor=4)
    want = {'is_generic_sequence': {'list', 'abc.Sequence', 'abc.MutableSequence'},
            'is_generic_mapping': {'dict', 'abc.Mapping', 'abc.MutableMapping'}}
    from ..dtable import Evaluator, Unsupported
    for name, origins in want.items():
        f = fn(P, 'yatiml.util:' + name)
        p = f.fi.params[0]
        # every origin the function mentions, plus the six of the two kinds and two outsiders
        universe = {'list', 'dict', 'abc.Sequence', 'abc.MutableSequence', 'abc.Mapping', 'abc.MutableMapping', 'Union', 'frozenset'}
        for n in f.walk():
            if isinstance(n, ast.Compare) and len(n.ops) == 1 and isinstance(n.ops[0], (ast.Is, ast.Eq)) \
                    and norm(n.left).endswith('%s.__origin__' % p):
                universe.add(norm(n.comparators[0]))
        accepted = set()
        undecided = []
        for chosen in sorted(universe):
            def oracle(e, chosen=chosen):
                t, pol = G.canon_atom(e)
                if t == "hasattr(typing, '_GenericAlias')":
                    return pol
                if t == 'isinstance(%s, typing._GenericAlias)' % p:
                    return pol
                for op in (' is ', ' == '):
                    if t.startswith('%s.__origin__%s' % (p, op)):
                        return (t[len('%s.__origin__%s' % (p, op)):] == chosen) == pol
                    if t.startswith('cast(Any, %s).__origin__%s' % (p, op)):
                        return (t[len('cast(Any, %s).__origin__%s' % (p, op)):] == chosen) == pol
                if t.startswith('%s.__origin__ in ' % p):
                    try:
                        els = [norm(x) for x in ast.parse(t[len('%s.__origin__ in ' % p):], mode='eval').body.elts]
                        return (chosen in els) == pol
                    except Exception:
                        return None
                return None
            try:
                ev = Evaluator(oracle)
                res = {ev.truth(oc.value) if oc.kind == 'return' and oc.value is not None else (False if oc.kind != 'raise' else None)
                       for oc in ev.run(f.node)}
            except Unsupported as e:
                raise AnalysisError('%s is outside the decidable subset: %s' % (name, e))
            if res == {True}:
                accepted.add(chosen)
            elif res != {False}:
                undecided.append(chosen)
        r.check(accepted == origins and not undecided, '%s accepts exactly the origins %s (decision table over %d origins)' % (
            name, sorted(origins), len(universe)), f.key('origins'), f.loc(),
            '%s accepts %s%s instead of %s: the abstract variants of the annotation are no longer interchangeable' % (
                name, sorted(accepted), (' (undecided: %s)' % undecided) if undecided else '', sorted(origins)))
    readers = []
    for fi in P.yatiml_functions():
        for n in walk_function(fi.node):
            if (isinstance(n, ast.Attribute) and n.attr == '__origin__') or (isinstance(n, ast.Call) and call_name(n) == 'get_origin') or (
                    isinstance(n, ast.Call) and call_name(n) == 'getattr' and len(n.args) >= 2 and const_str(n.args[1]) == '__origin__'):
                if fi.name not in ('is_generic_sequence', 'is_generic_mapping', 'is_generic_union'):
                    readers.append((fi, n))
            if isinstance(n, ast.Compare) and any(norm(c) in ('List', 'Dict', 'Sequence', 'Mapping', 'MutableSequence', 'MutableMapping',
                                                               'typing.List', 'typing.Dict', 'list', 'dict')
                                                  for c in [n.left] + n.comparators) \
                    and fi.name not in ('is_generic_sequence', 'is_generic_mapping', 'has_attribute_type') and fi.module.name != 'yatiml.helpers':
                readers.append((fi, n))
    # a reader that compares the origin with whole kinds only (all of list/Sequence/MutableSequence, all of dict/Mapping/
    # MutableMapping, or none of them) cannot tell the variants of one kind apart either
    SEQ, MAP = {'list', 'Sequence', 'MutableSequence'}, {'dict', 'Mapping', 'MutableMapping'}

    def whole_kinds(fi) -> bool:
        f_ = fn_of(fi)
        sets = []
        for n in f_.walk():
            if isinstance(n, ast.Compare) and len(n.ops) == 1:
                sides = [n.left, n.comparators[0]]

                def is_origin(x):
                    t_ = f_.alpha.text(x)
                    return '__origin__' in t_ or 'get_origin(' in t_ or (isinstance(x, ast.Name) and any(
                        '__origin__' in norm(v) or 'get_origin(' in norm(v) for v in assigned_from(f_, x.id)))
                if isinstance(n.ops[0], (ast.Eq, ast.NotEq)) and any(is_origin(x) for x in sides) and any(
                        isinstance(x, (ast.Set, ast.SetComp)) for x in sides):
                    # a *set* of origins compared with a set of classes: `{origins} == {list}`
                    pass
                if not any(is_origin(x) for x in sides):
                    continue
                other = sides[1] if is_origin(sides[0]) else sides[0]
                els = other.elts if isinstance(other, (ast.Tuple, ast.List, ast.Set)) else [other]
                if not isinstance(n.ops[0], (ast.Is, ast.IsNot, ast.Eq, ast.NotEq, ast.In, ast.NotIn)):
                    return False
                sets.append({(dotted_name(x) or norm(x)).split('.')[-1] for x in els})
        if not sets:
            return False
        return all((s_ & SEQ in (set(), SEQ)) and (s_ & MAP in (set(), MAP)) for s_ in sets)
    readers = [(fi, n) for fi, n in readers if not whole_kinds(fi)]
    r.check(not readers, 'no other function inspects __origin__ or compares a type with a typing alias', 'yatiml:origin-readers',
            readers[0][0].loc(readers[0][1]) if readers else 'yatiml/', '%s distinguishes generic container kinds itself (%s): List, Sequence '
            'and MutableSequence may be treated differently' % (readers[0][0].qual if readers else '', norm(readers[0][1])[:60] if readers else ''))
    # consumers dispatch through the predicates
    n_cons = 0
    for fi in P.yatiml_functions():
        for n in walk_function(fi.node):
            if isinstance(n, ast.Call) and call_name(n) in ('is_generic_sequence', 'is_generic_mapping'):
                n_cons += 1
    r.check(n_cons >= 10, '%d dispatch sites use the two predicates' % n_cons, 'yatiml:predicate-consumers', 'yatiml/',
            'the generic-kind predicates are hardly used (%d sites)' % n_cons)
    r.done()


def r13_3_by_name(ctx):
    P = ctx.P
    r = ctx.rule('R13.3', 'attributes are found by name, never by position: no constant index into a mapping node\'s pair list, no '
                          'pairing of class_subobjects order with key order', floor=3)
    n_fn = 0
    for mn in ('yatiml.loader', 'yatiml.recognizer', 'yatiml.constructors'):
        m = P.module(mn)
        for fi in m.functions.values():
            n_fn += 1
            for n in walk_function(fi.node):
                if isinstance(n, ast.Subscript) and isinstance(n.ctx, ast.Load) and isinstance(n.slice, (ast.Constant, ast.Slice)) \
                        and isinstance(n.value, ast.Attribute) and n.value.attr == 'value' and 'node' in norm(n.value.value) \
                        and not (isinstance(n.slice, ast.Constant) and isinstance(n.slice.value, str)):
                    # tag strings like node.tag[1:] are not pair lists; node.value[...] is
                    r.fail('%s:positional:%s' % (fi.key, norm(n)), fi.loc(n), '%s reads %s: attributes are taken by position, so '
                           'reordering the keys of a mapping changes the outcome' % (fi.qual, norm(n)))
                if isinstance(n, ast.Call) and call_name(n) == 'zip' and any('class_subobjects' in norm(a) or 'argspec' in norm(a) for a in n.args) \
                        and any('.value' in norm(a) for a in n.args):
                    r.fail('%s:zip-params-with-pairs' % fi.key, fi.loc(n), '%s pairs constructor parameters with mapping pairs by position' % fi.qual)
    r.ok('%d functions of loader/recognizer/constructors scanned: no positional access to mapping pairs' % n_fn)
    cf = fn(P, S.CTOR + '__call__')
    inits = [c for _, c, _ in S.init_sites(P)]
    r.check(bool(inits) and all(not c.args and all(k.arg is None for k in c.keywords) for c in inits), '__init__ is called with ** keywords only',
            cf.key('init-by-name'), cf.loc(), '__init__ receives positional arguments')
    na = fn(P, H.NODE + 'get_attribute')
    comp = [n for n in na.walk() if isinstance(n, ast.ListComp)]
    r.check(any('.value == %s' % na.fi.params[1] in norm(c) for c in comp), 'get_attribute selects pairs by key text', na.key('by-name'), na.loc(),
            'get_attribute does not select by key text')
    r.done()
