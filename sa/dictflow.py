"""E11 mapping provenance: where the entries of a locally built dict come from.

A small abstract interpretation for functions that split / filter / copy one mapping into others (Constructor.
__split_off_extra_attributes).  A dict value is abstracted to

    kind    'dict' | 'OrderedDict'                      (the constructor that allocated it)
    parts   [(source, key, value, condition)]           "for every entry K: V of <source> for which <condition(K)> holds"
    consts  {constant key: abstract value or text}      entries stored under a literal key

The copy-then-delete idiom (`d = m.copy(); for k in list(m): if c(k): del d[k]`), the insert idiom (`d = {}; for k, v in
m.items(): if c(k): d[k] = v`), comprehensions and dict()/OrderedDict() over items()/generators all reduce to the same abstract
value, so a rule can compare the *partition* a function computes with the documented one by a truth table over key classes,
whatever the spelling.  Constructs outside the subset raise Unsupported (the rule reports the function as unrecognised).
"""
import ast
from typing import Any, Dict, List, Optional

from .dtable import clone, subst
from .guards import norm, call_name


class Unsupported(Exception):
    pass


K = '‹K›'       # the canonical key variable


class Part:
    def __init__(self, source: str, key: str, value: str, cond: ast.AST):
        self.source, self.key, self.value, self.cond = source, key, value, cond

    def copy(self):
        return Part(self.source, self.key, self.value, self.cond)

    def __repr__(self):
        return '{%s: %s for %s if %s}' % (self.key, self.value, self.source, norm(self.cond))


class DictAbs:
    def __init__(self, kind: str, parts: Optional[List[Part]] = None, consts: Optional[Dict[Any, Any]] = None):
        self.kind = kind
        self.parts = parts if parts is not None else []
        self.consts = consts if consts is not None else {}

    def copy(self, kind: Optional[str] = None):
        return DictAbs(kind or self.kind, [p.copy() for p in self.parts], dict(self.consts))

    def __repr__(self):
        return '%s(%s%s)' % (self.kind, ' + '.join(map(repr, self.parts)) or '{}',
                             ''.join(' + {%r: %r}' % kv for kv in self.consts.items()))


TRUE = ast.Constant(True)


def _and(a: ast.AST, b: ast.AST) -> ast.AST:
    if isinstance(a, ast.Constant) and a.value is True:
        return b
    if isinstance(b, ast.Constant) and b.value is True:
        return a
    return ast.BoolOp(ast.And(), [a, b])


def _not(a: ast.AST) -> ast.AST:
    return ast.UnaryOp(ast.Not(), a)


def _kname(e: ast.AST, var: str) -> ast.AST:
    return subst(clone(e), {var: ast.Name(K, ast.Load())})


class Flow:
    def __init__(self, params: Dict[str, str]):
        """params: parameter name -> 'mapping' (a dict whose entries are the subject) | 'other'"""
        self.env: Dict[str, Any] = {}
        for p, role in params.items():
            if role == 'mapping':
                self.env[p] = DictAbs('dict', [Part(p, K, 'V', TRUE)])
        self.result: Optional[Any] = None

    # ---- expressions ------------------------------------------------------------------------------------------------
    def as_dict(self, e: ast.AST) -> Optional[DictAbs]:
        """the abstract dict an expression denotes (shared, not copied), or None"""
        if isinstance(e, ast.Name):
            v = self.env.get(e.id)
            return v if isinstance(v, DictAbs) else None
        return None

    def keys_of(self, e: ast.AST) -> Optional[DictAbs]:
        """e iterates over the keys of a known dict: d, d.keys(), list(d), list(d.keys()), tuple(..), sorted(..)? (not sorted: order)"""
        if isinstance(e, ast.Call) and call_name(e) in ('list', 'tuple') and len(e.args) == 1 and not e.keywords:
            return self.keys_of(e.args[0])
        if isinstance(e, ast.Call) and isinstance(e.func, ast.Attribute) and e.func.attr == 'keys' and not e.args:
            return self.as_dict(e.func.value)
        return self.as_dict(e)

    def items_of(self, e: ast.AST) -> Optional[DictAbs]:
        if isinstance(e, ast.Call) and call_name(e) in ('list', 'tuple') and len(e.args) == 1 and not e.keywords:
            return self.items_of(e.args[0])
        if isinstance(e, ast.Call) and isinstance(e.func, ast.Attribute) and e.func.attr == 'items' and not e.args:
            return self.as_dict(e.func.value)
        return None

    def _value_is_entry(self, v: ast.AST, kvar: str, vvar: Optional[str], src_expr: Optional[ast.AST]) -> bool:
        if vvar is not None and isinstance(v, ast.Name) and v.id == vvar:
            return True
        if src_expr is None:
            return False
        s = norm(src_expr)
        return norm(v) in ('%s[%s]' % (s, kvar), '%s.get(%s)' % (s, kvar))

    def comp(self, kind: str, key: ast.AST, value: ast.AST, gens: List[ast.comprehension]) -> DictAbs:
        if len(gens) != 1 or gens[0].is_async:
            raise Unsupported('comprehension with %d generators' % len(gens))
        g = gens[0]
        cond: ast.AST = TRUE
        src = self.items_of(g.iter)
        kvar = vvar = None
        src_expr = None
        if src is not None and isinstance(g.target, ast.Tuple) and len(g.target.elts) == 2 \
                and all(isinstance(x, ast.Name) for x in g.target.elts):
            kvar, vvar = g.target.elts[0].id, g.target.elts[1].id
        else:
            src = self.keys_of(g.iter)
            if src is not None and isinstance(g.target, ast.Name):
                kvar = g.target.id
                x = g.iter
                while isinstance(x, ast.Call):
                    x = x.args[0] if call_name(x) in ('list', 'tuple') else x.func.value
                src_expr = x
        if kvar is None:
            # entries drawn from something that is not a known mapping
            kv = norm(g.target)
            for c in g.ifs:
                cond = _and(cond, c)
            return DictAbs(kind, [Part(norm(g.iter), norm(key), norm(value), cond)])
        for c in g.ifs:
            cond = _and(cond, _kname(c, kvar))
        key_ok = isinstance(key, ast.Name) and key.id == kvar
        val_ok = self._value_is_entry(value, kvar, vvar, src_expr)
        out = DictAbs(kind)
        for p in src.parts:
            out.parts.append(Part(p.source, p.key if key_ok else norm(key), p.value if val_ok else norm(value), _and(p.cond, cond)))
        if src.consts:
            raise Unsupported('iteration over a mapping with literal entries')
        return out

    def ev(self, e: ast.AST):
        d = self.as_dict(e)
        if d is not None:
            return d
        if isinstance(e, ast.Dict):
            if not e.keys:
                return DictAbs('dict')
            if len(e.keys) == 1 and e.keys[0] is None:
                s = self.as_dict(e.values[0])
                if s is not None:
                    return s.copy('dict')
            raise Unsupported('dict display')
        if isinstance(e, ast.DictComp):
            return self.comp('dict', e.key, e.value, e.generators)
        if isinstance(e, ast.Call):
            cn = call_name(e)
            if isinstance(e.func, ast.Attribute) and e.func.attr == 'copy' and not e.args:
                s = self.as_dict(e.func.value)
                if s is not None:
                    return s.copy()
            if cn in ('dict', 'OrderedDict') and not e.keywords and (isinstance(e.func, ast.Name) or norm(e.func) == 'collections.OrderedDict'):
                if not e.args:
                    return DictAbs(cn)
                if len(e.args) == 1:
                    a = e.args[0]
                    s = self.as_dict(a) or self.items_of(a)
                    if s is not None:
                        return s.copy(cn)
                    if isinstance(a, (ast.GeneratorExp, ast.ListComp)) and isinstance(a.elt, ast.Tuple) and len(a.elt.elts) == 2:
                        return self.comp(cn, a.elt.elts[0], a.elt.elts[1], a.generators)
                    inner = self.ev(a)
                    if isinstance(inner, DictAbs):
                        return inner.copy(cn)
                raise Unsupported('%s(%s)' % (cn, norm(e)[:40]))
        return norm(e)

    # ---- statements -------------------------------------------------------------------------------------------------
    def run(self, body: List[ast.stmt]):
        for st in body:
            if self.result is not None:
                raise Unsupported('statement after return')
            if isinstance(st, ast.Expr) and isinstance(st.value, ast.Constant):
                continue
            if isinstance(st, ast.Expr) and isinstance(st.value, ast.Call) and norm(st.value.func).startswith('logger.'):
                continue
            if isinstance(st, ast.Assign) and len(st.targets) == 1:
                t = st.targets[0]
                if isinstance(t, ast.Name):
                    self.env[t.id] = self.ev(st.value)
                    continue
                if isinstance(t, ast.Subscript) and isinstance(t.slice, ast.Constant):
                    d = self.as_dict(t.value)
                    if d is None:
                        raise Unsupported('store into %s' % norm(t.value))
                    d.consts[t.slice.value] = self.ev(st.value)
                    continue
                raise Unsupported('assignment to %s' % norm(t))
            if isinstance(st, ast.For) and not st.orelse:
                self.loop(st)
                continue
            if isinstance(st, ast.Return) and st.value is not None:
                self.result = self.ev(st.value)
                continue
            raise Unsupported('statement %s' % norm(st)[:60])

    def loop(self, st: ast.For):
        src = self.items_of(st.iter)
        kvar = vvar = None
        src_expr = None
        if src is not None and isinstance(st.target, ast.Tuple) and len(st.target.elts) == 2 \
                and all(isinstance(x, ast.Name) for x in st.target.elts):
            kvar, vvar = st.target.elts[0].id, st.target.elts[1].id
        else:
            src = self.keys_of(st.iter)
            if src is not None and isinstance(st.target, ast.Name):
                kvar = st.target.id
                x = st.iter
                while isinstance(x, ast.Call):
                    x = x.args[0] if call_name(x) in ('list', 'tuple') else x.func.value
                src_expr = x
        if kvar is None or src is None:
            raise Unsupported('loop over %s' % norm(st.iter)[:50])
        if src.consts or len(src.parts) != 1:
            raise Unsupported('loop over a mapping that is not a plain filtered copy')
        sp = src.parts[0].copy()       # snapshot: the loop may delete from the dict it iterates a copy of
        live_iter = self.as_dict(st.iter) is not None or (isinstance(st.iter, ast.Call) and call_name(st.iter) in ('keys', 'items'))

        def walk(stmts, path: ast.AST):
            for s in stmts:
                if isinstance(s, ast.If):
                    walk(s.body, _and(path, _kname(s.test, kvar)))
                    walk(s.orelse, _and(path, _not(_kname(s.test, kvar))))
                elif isinstance(s, ast.Pass) or (isinstance(s, ast.Expr) and isinstance(s.value, ast.Constant)):
                    pass
                elif isinstance(s, ast.Delete) and len(s.targets) == 1 and isinstance(s.targets[0], ast.Subscript) \
                        and isinstance(s.targets[0].slice, ast.Name) and s.targets[0].slice.id == kvar:
                    self._remove(s.targets[0].value, sp, path, live_iter and self.as_dict(s.targets[0].value) is src)
                elif isinstance(s, ast.Expr) and isinstance(s.value, ast.Call) and isinstance(s.value.func, ast.Attribute) \
                        and s.value.func.attr == 'pop' and s.value.args and isinstance(s.value.args[0], ast.Name) \
                        and s.value.args[0].id == kvar:
                    self._remove(s.value.func.value, sp, path, live_iter and self.as_dict(s.value.func.value) is src)
                elif isinstance(s, ast.Assign) and len(s.targets) == 1 and isinstance(s.targets[0], ast.Subscript) \
                        and isinstance(s.targets[0].slice, ast.Name) and s.targets[0].slice.id == kvar:
                    d = self.as_dict(s.targets[0].value)
                    if d is None:
                        raise Unsupported('store into %s' % norm(s.targets[0].value))
                    val_ok = self._value_is_entry(s.value, kvar, vvar, src_expr)
                    d.parts.append(Part(sp.source, sp.key, sp.value if val_ok else norm(s.value), _and(sp.cond, path)))
                else:
                    raise Unsupported('loop statement %s' % norm(s)[:60])
        walk(st.body, TRUE)

    def _remove(self, target: ast.AST, sp: Part, path: ast.AST, mutates_iterated: bool):
        d = self.as_dict(target)
        if d is None:
            raise Unsupported('delete from %s' % norm(target))
        if mutates_iterated:
            raise Unsupported('the iterated mapping is modified in the loop')
        hit = False
        for p in d.parts:
            if p.source == sp.source and p.key == K:
                # the loop visits every key of sp.source for which sp.cond holds
                p.cond = _and(p.cond, _not(_and(sp.cond, path)))
                hit = True
        if not hit and d.parts:
            raise Unsupported('delete of keys of %s from a mapping built from %s' % (sp.source, d.parts[0].source))


# ---- deciding a condition for a class of keys ----------------------------------------------------------------------------------
def cond_truth(e: ast.AST, key: str, members: Dict[str, bool]) -> Optional[bool]:
    """truth of a condition over the canonical key variable for the concrete key string `key`, where `members[name]` says
    whether the key is a member of the collection called `name`"""
    if isinstance(e, ast.Constant):
        return bool(e.value)
    if isinstance(e, ast.UnaryOp) and isinstance(e.op, ast.Not):
        t = cond_truth(e.operand, key, members)
        return None if t is None else not t
    if isinstance(e, ast.BoolOp):
        ts = [cond_truth(v, key, members) for v in e.values]
        if isinstance(e.op, ast.And):
            if any(t is False for t in ts):
                return False
            return None if any(t is None for t in ts) else True
        if any(t is True for t in ts):
            return True
        return None if any(t is None for t in ts) else False
    if isinstance(e, ast.Compare) and len(e.ops) == 1:
        l, op, r = e.left, e.ops[0], e.comparators[0]

        def is_k(x):
            return isinstance(x, ast.Name) and x.id == K

        def const(x):
            return x.value if isinstance(x, ast.Constant) and isinstance(x.value, str) else None
        if isinstance(op, (ast.Eq, ast.NotEq)):
            c = const(r) if is_k(l) else const(l) if is_k(r) else None
            if c is None:
                return None
            return (key == c) == isinstance(op, ast.Eq)
        if isinstance(op, (ast.In, ast.NotIn)) and is_k(l):
            if isinstance(r, (ast.Tuple, ast.List, ast.Set)) and all(const(x) is not None for x in r.elts):
                return (key in [const(x) for x in r.elts]) == isinstance(op, ast.In)
            if isinstance(r, ast.Name) and r.id in members:
                return members[r.id] == isinstance(op, ast.In)
    return None
