"""E11 mapping provenance: where the entries of a locally built dict come from.

A small abstract interpretation for functions that split / filter / copy one mapping into others (Constructor.
__split_off_extra_attributes).  A dict value is abstracted to

    kind    'dict' | 'OrderedDict'                      (the constructor that allocated it)
    parts   [(source, key, value, condition)]           "for every entry K: V of <source> for which <condition(K)> holds"
    consts  {constant key: abstract value or text}      entries stored under a literal key

The copy-then-delete idiom (`d = m.copy(); for k in list(m): if c(k): del d[k]`), the insert idiom (`d = {}; for k, v in
m.items(): if c(k): d[k] = v`), comprehensions and dict()/OrderedDict() over items()/generators all reduce to the same abstract
value, so a rule can compare the *partition* a function computes with the documented one by a truth table over key classes,
whatever the spelling.  Constructs outside the subset raise Unsupported (the rule reports the function as unrecognised).
"""
import ast
from typing import Any, Dict, List, Optional

from .dtable import clone, subst
from .guards import norm, call_name


class Unsupported(Exception):
    pass


K = '‹K›'       # the canonical key variable


class Part:
    def __init__(self, source: str, key: str, value: str, cond: ast.AST):
        self.source, self.key, self.value, self.cond = source, key, value, cond

    def copy(self):
        return Part(self.source, self.key, self.value, self.cond)

    def __repr__(self):
        return '{%s: %s for %s if %s}' % (self.key, self.value, self.source, norm(self.cond))


class DictAbs:
    def __init__(self, kind: str, parts: Optional[List[Part]] = None, consts: Optional[Dict[Any, Any]] = None):
        self.kind = kind
        self.parts = parts if parts is not None else []
        self.consts = consts if consts is not None else {}

    def copy(self, kind: Optional[str] = None):
        return DictAbs(kind or self.kind, [p.copy() for p in self.parts], dict(self.consts))

    def __repr__(self):
        return '%s(%s%s)' % (self.kind, ' + '.join(map(repr, self.parts)) or '{}',
                             ''.join(' + {%r: %r}' % kv for kv in self.consts.items()))


TRUE = ast.Constant(True)


def _and(a: ast.AST, b: ast.AST) -> ast.AST:
    if isinstance(a, ast.Constant) and a.value is True:
        return b
    if isinstance(b, ast.Constant) and b.value is True:
        return a
    return ast.BoolOp(ast.And(), [a, b])


def _not(a: ast.AST) -> ast.AST:
    return ast.UnaryOp(ast.Not(), a)


def _kname(e: ast.AST, var: str) -> ast.AST:
    return subst(clone(e), {var: ast.Name(K, ast.Load())})


class Flow:
    def __init__(self, params: Dict[str, str]):
        """params: parameter name -> 'mapping' (a dict whose entries are the subject) | 'other'"""
        self.env: Dict[str, Any] = {}
        for p, role in params.items():
            if role == 'mapping':
                self.env[p] = DictAbs('dict', [Part(p, K, 'V', TRUE)])
        self.result: Optional[Any] = None

    # ---- expressions ------------------------------------------------------------------------------------------------
    def as_dict(self, e: ast.AST) -> Optional[DictAbs]:
        """the abstract dict an expression denotes (shared, not copied), or None"""
        if isinstance(e, ast.Name):
            v = self.env.get(e.id)
            return v if isinstance(v, DictAbs) else None
        return None

    def keys_of(self, e: ast.AST) -> Optional[DictAbs]:
        """e iterates over the keys of a known dict: d, d.keys(), list(d), list(d.keys()), tuple(..), sorted(..)? (not sorted: order)"""
        if isinstance(e, ast.Call) and call_name(e) in ('list', 'tuple') and len(e.args) == 1 and not e.keywords:
            return self.keys_of(e.args[0])
        if isinstance(e, ast.Call) and isinstance(e.func, ast.Attribute) and e.func.attr == 'keys' and not e.args:
            return self.as_dict(e.func.value)
        if isinstance(e, (ast.ListComp, ast.GeneratorExp)):
            v = self.ev(e)
            return v if isinstance(v, DictAbs) and v.kind == 'keys' else None
        return self.as_dict(e)

    def items_of(self, e: ast.AST) -> Optional[DictAbs]:
        if isinstance(e, ast.Call) and call_name(e) in ('list', 'tuple') and len(e.args) == 1 and not e.keywords:
            return self.items_of(e.args[0])
        if isinstance(e, ast.Call) and isinstance(e.func, ast.Attribute) and e.func.attr == 'items' and not e.args:
            return self.as_dict(e.func.value)
        return None

    def _value_is_entry(self, v: ast.AST, kvar: str, vvar: Optional[str], src_expr: Optional[ast.AST]) -> bool:
        if vvar is not None and isinstance(v, ast.Name) and v.id == vvar:
            return True
        if src_expr is None:
            return False
        s = norm(src_expr)
        return norm(v) in ('%s[%s]' % (s, kvar), '%s.get(%s)' % (s, kvar))

    def comp(self, kind: str, key: ast.AST, value: ast.AST, gens: List[ast.comprehension]) -> DictAbs:
        if len(gens) != 1 or gens[0].is_async:
            raise Unsupported('comprehension with %d generators' % len(gens))
        g = gens[0]
        cond: ast.AST = TRUE
        src = self.items_of(g.iter)
        kvar = vvar = None
        src_expr = None
        if src is not None and isinstance(g.target, ast.Tuple) and len(g.target.elts) == 2 \
                and all(isinstance(x, ast.Name) for x in g.target.elts):
            kvar, vvar = g.target.elts[0].id, g.target.elts[1].id
        else:
            src = self.keys_of(g.iter)
            if src is not None and isinstance(g.target, ast.Name):
                kvar = g.target.id
                x = g.iter
                while isinstance(x, ast.Call) and (call_name(x) in ('list', 'tuple') or isinstance(x.func, ast.Attribute)):
                    x = x.args[0] if call_name(x) in ('list', 'tuple') else x.func.value
                src_expr = x
                if getattr(src, 'keys_src', None):
                    src_expr = ast.parse(src.keys_src, mode='eval').body
        if kvar is None:
            # entries drawn from something that is not a known mapping
            kv = norm(g.target)
            for c in g.ifs:
                cond = _and(cond, c)
            return DictAbs(kind, [Part(norm(g.iter), norm(key), norm(value), cond)])
        for c in g.ifs:
            cond = _and(cond, _kname(c, kvar))
        key_ok = isinstance(key, ast.Name) and key.id == kvar
        val_ok = self._value_is_entry(value, kvar, vvar, src_expr)
        out = DictAbs(kind)
        for p in src.parts:
            out.parts.append(Part(p.source, p.key if key_ok else norm(key), p.value if val_ok else norm(value), _and(p.cond, cond)))
        if src.consts:
            raise Unsupported('iteration over a mapping with literal entries')
        return out

    def ev(self, e: ast.AST):
        d = self.as_dict(e)
        if d is not None:
            return d
        if isinstance(e, ast.Dict):
            if not e.keys:
                return DictAbs('dict')
            if len(e.keys) == 1 and e.keys[0] is None:
                s = self.as_dict(e.values[0])
                if s is not None:
                    return s.copy('dict')
            raise Unsupported('dict display')
        if isinstance(e, ast.DictComp):
            return self.comp('dict', e.key, e.value, e.generators)
        if isinstance(e, (ast.ListComp, ast.GeneratorExp)) and len(e.generators) == 1 and isinstance(e.elt, ast.Name) \
                and isinstance(e.generators[0].target, ast.Name) and e.elt.id == e.generators[0].target.id and not e.generators[0].is_async:
            # a (filtered) list of the keys of a known mapping: `[k for k in m if c(k)]` - a view of m's entries restricted to c
            g = e.generators[0]
            src = self.keys_of(g.iter)
            if src is not None and not src.consts:
                cond: ast.AST = TRUE
                for c in g.ifs:
                    cond = _and(cond, _kname(c, g.target.id))
                out = DictAbs('keys', [Part(p_.source, p_.key, p_.value, _and(p_.cond, cond)) for p_ in src.parts])
                x = g.iter
                while isinstance(x, ast.Call):
                    x = x.args[0] if call_name(x) in ('list', 'tuple') else x.func.value
                out.keys_src = getattr(src, 'keys_src', None) or norm(x)
                return out
        if isinstance(e, ast.Call):
            cn = call_name(e)
            if isinstance(e.func, ast.Attribute) and e.func.attr == 'copy' and not e.args:
                s = self.as_dict(e.func.value)
                if s is not None:
                    return s.copy()
            if cn in ('dict', 'OrderedDict') and not e.keywords and (isinstance(e.func, ast.Name) or norm(e.func) == 'collections.OrderedDict'):
                if not e.args:
                    return DictAbs(cn)
                if len(e.args) == 1:
                    a = e.args[0]
                    s = self.as_dict(a) or self.items_of(a)
                    if s is not None:
                        return s.copy(cn)
                    if isinstance(a, (ast.GeneratorExp, ast.ListComp)) and isinstance(a.elt, ast.Tuple) and len(a.elt.elts) == 2:
                        return self.comp(cn, a.elt.elts[0], a.elt.elts[1], a.generators)
                    inner = self.ev(a)
                    if isinstance(inner, DictAbs):
                        return inner.copy(cn)
                raise Unsupported('%s(%s)' % (cn, norm(e)[:40]))
        return norm(e)

    # ---- statements -------------------------------------------------------------------------------------------------
    def run(self, body: List[ast.stmt]):
        for st in body:
            if self.result is not None:
                raise Unsupported('statement after return')
            if isinstance(st, ast.Expr) and isinstance(st.value, ast.Constant):
                continue
            if isinstance(st, ast.Expr) and isinstance(st.value, ast.Call) and norm(st.value.func).startswith('logger.'):
                continue
            if isinstance(st, ast.Assign) and len(st.targets) == 1:
                t = st.targets[0]
                if isinstance(t, ast.Name):
                    self.env[t.id] = self.ev(st.value)
                    continue
                if isinstance(t, ast.Subscript) and isinstance(t.slice, ast.Constant):
                    d = self.as_dict(t.value)
                    if d is None:
                        raise Unsupported('store into %s' % norm(t.value))
                    d.consts[t.slice.value] = self.ev(st.value)
                    continue
                raise Unsupported('assignment to %s' % norm(t))
            if isinstance(st, ast.For) and not st.orelse:
                self.loop(st)
                continue
            if isinstance(st, ast.Return) and st.value is not None:
                self.result = self.ev(st.value)
                continue
            raise Unsupported('statement %s' % norm(st)[:60])

    def loop(self, st: ast.For):
        src = self.items_of(st.iter)
        kvar = vvar = None
        src_expr = None
        if src is not None and isinstance(st.target, ast.Tuple) and len(st.target.elts) == 2 \
                and all(isinstance(x, ast.Name) for x in st.target.elts):
            kvar, vvar = st.target.elts[0].id, st.target.elts[1].id
        else:
            src = self.keys_of(st.iter)
            if src is not None and isinstance(st.target, ast.Name):
                kvar = st.target.id
                x = st.iter
                while isinstance(x, ast.Call):
                    x = x.args[0] if call_name(x) in ('list', 'tuple') else x.func.value
                src_expr = x
                if getattr(src, 'keys_src', None):
                    src_expr = ast.parse(src.keys_src, mode='eval').body
        if kvar is None or src is None:
            raise Unsupported('loop over %s' % norm(st.iter)[:50])
        if src.consts or len(src.parts) != 1:
            raise Unsupported('loop over a mapping that is not a plain filtered copy')
        sp = src.parts[0].copy()       # snapshot: the loop may delete from the dict it iterates a copy of
        live_iter = self.as_dict(st.iter) is not None or (isinstance(st.iter, ast.Call) and call_name(st.iter) in ('keys', 'items'))

        def walk(stmts, path: ast.AST):
            for s in stmts:
                if isinstance(s, ast.If):
                    walk(s.body, _and(path, _kname(s.test, kvar)))
                    walk(s.orelse, _and(path, _not(_kname(s.test, kvar))))
                elif isinstance(s, ast.Pass) or (isinstance(s, ast.Expr) and isinstance(s.value, ast.Constant)):
                    pass
                elif isinstance(s, ast.Delete) and len(s.targets) == 1 and isinstance(s.targets[0], ast.Subscript) \
                        and isinstance(s.targets[0].slice, ast.Name) and s.targets[0].slice.id == kvar:
                    self._remove(s.targets[0].value, sp, path, live_iter and self.as_dict(s.targets[0].value) is src)
                elif isinstance(s, ast.Expr) and isinstance(s.value, ast.Call) and isinstance(s.value.func, ast.Attribute) \
                        and s.value.func.attr == 'pop' and s.value.args and isinstance(s.value.args[0], ast.Name) \
                        and s.value.args[0].id == kvar:
                    self._remove(s.value.func.value, sp, path, live_iter and self.as_dict(s.value.func.value) is src)
                elif isinstance(s, ast.Assign) and len(s.targets) == 1 and isinstance(s.targets[0], ast.Subscript) \
                        and isinstance(s.targets[0].slice, ast.Name) and s.targets[0].slice.id == kvar:
                    d = self.as_dict(s.targets[0].value)
                    if d is None:
                        raise Unsupported('store into %s' % norm(s.targets[0].value))
                    val_ok = self._value_is_entry(s.value, kvar, vvar, src_expr)
                    d.parts.append(Part(sp.source, sp.key, sp.value if val_ok else norm(s.value), _and(sp.cond, path)))
                else:
                    raise Unsupported('loop statement %s' % norm(s)[:60])
        walk(st.body, TRUE)

    def _remove(self, target: ast.AST, sp: Part, path: ast.AST, mutates_iterated: bool):
        d = self.as_dict(target)
        if d is None:
            raise Unsupported('delete from %s' % norm(target))
        if mutates_iterated:
            raise Unsupported('the iterated mapping is modified in the loop')
        hit = False
        for p in d.parts:
            if p.source == sp.source and p.key == K:
                # the loop visits every key of sp.source for which sp.cond holds
                p.cond = _and(p.cond, _not(_and(sp.cond, path)))
                hit = True
        if not hit and d.parts:
            raise Unsupported('delete of keys of %s from a mapping built from %s' % (sp.source, d.parts[0].source))


# ---- deciding a condition for a class of keys ----------------------------------------------------------------------------------
def cond_truth(e: ast.AST, key: str, members: Dict[str, bool]) -> Optional[bool]:
    """truth of a condition over the canonical key variable for the concrete key string `key`, where `members[name]` says
    whether the key is a member of the collection called `name`"""
    if isinstance(e, ast.Constant):
        return bool(e.value)
    if isinstance(e, ast.UnaryOp) and isinstance(e.op, ast.Not):
        t = cond_truth(e.operand, key, members)
        return None if t is None else not t
    if isinstance(e, ast.BoolOp):
        ts = [cond_truth(v, key, members) for v in e.values]
        if isinstance(e.op, ast.And):
            if any(t is False for t in ts):
                return False
            return None if any(t is None for t in ts) else True
        if any(t is True for t in ts):
            return True
        return None if any(t is None for t in ts) else False
    if isinstance(e, ast.Compare) and len(e.ops) == 1:
        l, op, r = e.left, e.ops[0], e.comparators[0]

        def is_k(x):
            return isinstance(x, ast.Name) and x.id == K

        def const(x):
            return x.value if isinstance(x, ast.Constant) and isinstance(x.value, str) else None
        if isinstance(op, (ast.Eq, ast.NotEq)):
            c = const(r) if is_k(l) else const(l) if is_k(r) else None
            if c is None:
                return None
            return (key == c) == isinstance(op, ast.Eq)
        if isinstance(op, (ast.In, ast.NotIn)) and is_k(l):
            if isinstance(r, (ast.Tuple, ast.List, ast.Set)) and all(const(x) is not None for x in r.elts):
                return (key in [const(x) for x in r.elts]) == isinstance(op, ast.In)
            if isinstance(r, ast.Name) and r.id in members:
                return members[r.id] == isinstance(op, ast.In)
    return None


# ---- E11b: ordered mappings built from several sources, under conditions ---------------------------------------------------------
class OPart:
    """entries (key(K), value(K)) for every element K of `source` for which cond(K) holds - or, with whole=True, every entry of the
    mapping `source` as it is; contributed on the paths where all of `when` hold; `seq` orders the contributions"""

    def __init__(self, source: str, key: str, value: str, cond: ast.AST, when, seq: int, whole: bool = False):
        self.source, self.key, self.value, self.cond, self.when, self.seq, self.whole = source, key, value, cond, tuple(when), seq, whole

    def __repr__(self):
        return '#%d %s%s%s' % (self.seq, ('entries of %s' % self.source) if self.whole else '{%s: %s for %s in %s if %s}' % (
            self.key, self.value, K, self.source, norm(self.cond)), ' when ' if self.when else '', ' and '.join(
                ('' if p else 'not ') + t for t, p in self.when))


class OAbs:
    def __init__(self, kind: str, parts=None):
        self.kind = kind            # 'pairs' (a list of pairs) | 'dict' | 'OrderedDict'
        self.parts: List[OPart] = parts if parts is not None else []

    def __repr__(self):
        return '%s[%s]' % (self.kind, '; '.join(map(repr, self.parts)))


class OrderedFlow:
    """Abstract run of a function body for the ordered mappings / pair lists it builds.  Supported: empty containers, pair-list
    comprehensions, insert loops, `.extend(E.items())` / `.update(E.items())` / `.update(E)`, OrderedDict(pairs) / dict(pairs),
    plain aliases, and `if` statements (the path condition is recorded with every contribution).  Anything else that touches a
    tracked container makes it unknown."""

    def __init__(self, fn_node: ast.AST, alpha=None):
        from .guards import canon_atom
        self.canon_atom = canon_atom
        self.alpha = alpha
        self.env: Dict[str, Any] = {}
        self.aliases: Dict[str, ast.AST] = {}
        self.seq = 0
        self.bad: Dict[str, str] = {}
        self.snapshots: List[tuple] = []        # (call node, abstract value of its arguments' names at that point)
        self.false_flags: set = set()           # locals bound to False so far and not re-bound
        self.flag_meaning: Dict[str, ast.AST] = {}      # found-flags: `flag` means `C in SRC`
        self._block(list(fn_node.body), [])

    def _src(self, e: ast.AST) -> str:
        while isinstance(e, ast.Call) and isinstance(e.func, ast.Name) and e.func.id in ('list', 'tuple') and len(e.args) == 1 and not e.keywords:
            e = e.args[0]
        if isinstance(e, ast.Name) and e.id in self.aliases:
            return self._src(self.aliases[e.id])
        return self.alpha.text(e) if self.alpha is not None else norm(e)

    def _next(self) -> int:
        self.seq += 1
        return self.seq

    @staticmethod
    def _empty(e) -> Optional[str]:
        if isinstance(e, ast.List) and not e.elts:
            return 'pairs'
        if isinstance(e, ast.Dict) and not e.keys:
            return 'dict'
        if isinstance(e, ast.Call) and not e.args and not e.keywords:
            n = call_name(e)
            if n == 'list':
                return 'pairs'
            if n in ('dict', 'OrderedDict'):
                return n
        return None

    def _value(self, e: ast.AST, when):
        k = self._empty(e)
        if k:
            return OAbs(k)
        if isinstance(e, ast.Name) and isinstance(self.env.get(e.id), OAbs):
            return self.env[e.id]
        if isinstance(e, ast.ListComp) and len(e.generators) == 1 and isinstance(e.elt, ast.Tuple) and len(e.elt.elts) == 2 \
                and isinstance(e.generators[0].target, ast.Name):
            g = e.generators[0]
            t = g.target.id
            cond: ast.AST = TRUE
            for c in g.ifs:
                cond = _and(cond, _kname(c, t))
            return OAbs('pairs', [OPart(self._src(g.iter), norm(_kname(e.elt.elts[0], t)), norm(_kname(e.elt.elts[1], t)), cond, when, self._next())])
        if isinstance(e, ast.Call) and call_name(e) in ('dict', 'OrderedDict') and len(e.args) == 1 and not e.keywords:
            inner = self._value(e.args[0], when)
            if isinstance(inner, OAbs):
                return OAbs(call_name(e), list(inner.parts))
        return None

    def _spoil(self, st):
        for n in ast.walk(st):
            if isinstance(n, ast.Name) and n.id in self.env and not isinstance(n.ctx, ast.Load):
                self.bad[n.id] = norm(st)[:60]
            if isinstance(n, ast.Call) and isinstance(n.func, ast.Attribute) and isinstance(n.func.value, ast.Name) \
                    and n.func.value.id in self.env and n.func.attr in ('append', 'extend', 'update', 'insert', 'pop', 'remove', 'clear',
                                                                        'setdefault', 'popitem', 'move_to_end', 'sort', 'reverse'):
                self.bad[n.func.value.id] = norm(n)[:60]
            if isinstance(n, ast.Subscript) and isinstance(n.ctx, (ast.Store, ast.Del)) and isinstance(n.value, ast.Name) and n.value.id in self.env:
                self.bad[n.value.id] = norm(st)[:60]

    def _block(self, stmts, when):
        for st in stmts:
            if isinstance(st, ast.Assign) and len(st.targets) == 1 and isinstance(st.targets[0], ast.Name) \
                    and isinstance(st.value, ast.Constant) and st.value.value is False and st.targets[0].id not in self.env:
                self.false_flags.add(st.targets[0].id)
                self.flag_meaning.pop(st.targets[0].id, None)
                continue
            if isinstance(st, ast.For) and not st.orelse and isinstance(st.target, ast.Tuple) and len(st.target.elts) == 2 \
                    and all(isinstance(x, ast.Name) for x in st.target.elts) and isinstance(st.iter, ast.Call) \
                    and isinstance(st.iter.func, ast.Attribute) and st.iter.func.attr == 'items' and not st.iter.args and len(st.body) == 1:
                # `for k, v in E.items(): d[k] = v` is d.update(E.items())
                b = st.body[0]
                kn, vn = st.target.elts[0].id, st.target.elts[1].id
                if isinstance(b, ast.Assign) and len(b.targets) == 1 and isinstance(b.targets[0], ast.Subscript) \
                        and isinstance(b.targets[0].value, ast.Name) and isinstance(self.env.get(b.targets[0].value.id), OAbs) \
                        and isinstance(b.targets[0].slice, ast.Name) and b.targets[0].slice.id == kn and isinstance(b.value, ast.Name) and b.value.id == vn:
                    self.env[b.targets[0].value.id].parts.append(OPart(self._src(st.iter.func.value), K, 'V', TRUE, when, self._next(), whole=True))
                    continue
            if isinstance(st, ast.Assign) and len(st.targets) == 1 and isinstance(st.targets[0], ast.Name):
                v = self._value(st.value, when)
                name = st.targets[0].id
                if isinstance(v, OAbs):
                    if name in self.env and self.env[name] is not v and not self._same_shape(name):
                        # bound on several paths: keep them all (each part carries its own `when`)
                        self.env[name] = OAbs(v.kind if v.kind == self.env[name].kind else 'mixed', self.env[name].parts + v.parts)
                    else:
                        self.env[name] = v
                    continue
                if name in self.env:
                    self.bad[name] = norm(st)[:60]
                elif isinstance(st.value, (ast.Name, ast.Attribute, ast.Subscript, ast.Call)):
                    self.aliases[name] = st.value
                continue
            if isinstance(st, ast.Expr) and isinstance(st.value, ast.Call) and isinstance(st.value.func, ast.Attribute) \
                    and isinstance(st.value.func.value, ast.Name) and isinstance(self.env.get(st.value.func.value.id), OAbs):
                c = st.value
                d = self.env[c.func.value.id]
                if c.func.attr in ('extend', 'update') and len(c.args) == 1 and not c.keywords:
                    a = c.args[0]
                    if isinstance(a, ast.Call) and isinstance(a.func, ast.Attribute) and a.func.attr == 'items' and not a.args:
                        d.parts.append(OPart(self._src(a.func.value), K, 'V', TRUE, when, self._next(), whole=True))
                        continue
                    if c.func.attr == 'update' and isinstance(a, (ast.Name, ast.Attribute)):
                        d.parts.append(OPart(self._src(a), K, 'V', TRUE, when, self._next(), whole=True))
                        continue
                self._spoil(st)
                continue
            if isinstance(st, ast.For) and not st.orelse and isinstance(st.target, ast.Name):
                if self._loop(st, when):
                    continue
                self._spoil(st)
                continue
            if isinstance(st, ast.If):
                test = st.test
                if isinstance(test, ast.Name) and test.id in self.flag_meaning:
                    test = self.flag_meaning[test.id]          # a found-flag: what it stands for
                t, p = self.canon_atom(self.alpha.rewrite(test) if self.alpha is not None else test)
                self._block(st.body, when + [(t, p)])
                self._block(st.orelse, when + [(t, not p)])
                continue
            if isinstance(st, (ast.Expr, ast.Return, ast.Assign)):
                for c in [n for n in ast.walk(st) if isinstance(n, ast.Call)]:
                    for a in list(c.args) + [k.value for k in c.keywords]:
                        if isinstance(a, ast.Name) and isinstance(self.env.get(a.id), OAbs):
                            self.snapshots.append((c, a.id, OAbs(self.env[a.id].kind, list(self.env[a.id].parts)), list(when)))
            if isinstance(st, (ast.Try, ast.With, ast.While)):
                self._spoil(st)
                continue
            # other statements: only a problem when they write a tracked container
            if not isinstance(st, (ast.Expr, ast.Return, ast.Raise, ast.Pass)):
                self._spoil(st)

    def _same_shape(self, name) -> bool:
        return False

    def _loop(self, lo: ast.For, when) -> bool:
        t = lo.target.id
        src = self._src(lo.iter)
        adds = []

        def walk(stmts, path):
            for s in stmts:
                if isinstance(s, ast.If):
                    if not walk(s.body, _and(path, _kname(s.test, t))):
                        return False
                    if not walk(s.orelse, _and(path, _not(_kname(s.test, t)))):
                        return False
                elif isinstance(s, ast.Assign) and len(s.targets) == 1 and isinstance(s.targets[0], ast.Subscript) \
                        and isinstance(s.targets[0].value, ast.Name) and isinstance(self.env.get(s.targets[0].value.id), OAbs):
                    adds.append((s.targets[0].value.id, norm(_kname(s.targets[0].slice, t)), norm(_kname(s.value, t)), path))
                elif isinstance(s, ast.Expr) and isinstance(s.value, ast.Call) and isinstance(s.value.func, ast.Attribute) \
                        and s.value.func.attr == 'append' and isinstance(s.value.func.value, ast.Name) \
                        and isinstance(self.env.get(s.value.func.value.id), OAbs) and len(s.value.args) == 1 \
                        and isinstance(s.value.args[0], ast.Tuple) and len(s.value.args[0].elts) == 2:
                    e = s.value.args[0]
                    adds.append((s.value.func.value.id, norm(_kname(e.elts[0], t)), norm(_kname(e.elts[1], t)), path))
                elif isinstance(s, (ast.Pass,)) or (isinstance(s, ast.Expr) and isinstance(s.value, ast.Constant)):
                    pass
                elif isinstance(s, ast.Expr) and isinstance(s.value, ast.Call) and norm(s.value.func).startswith('logger.'):
                    pass
                elif isinstance(s, ast.Assign) and len(s.targets) == 1 and isinstance(s.targets[0], ast.Name) and s.targets[0].id in self.false_flags \
                        and isinstance(s.value, ast.Constant) and s.value.value is True:
                    flags.append((s.targets[0].id, path))       # a found-flag: set when an element satisfies the path condition
                else:
                    return False
            return True
        flags = []
        if not walk(lo.body, TRUE) or not adds:
            return False
        for fname, path in flags:
            # `flag` was False and becomes True iff some element K of the source satisfies K == C: it means `C in SOURCE`
            c = None
            if isinstance(path, ast.Compare) and len(path.ops) == 1 and isinstance(path.ops[0], ast.Eq):
                a_, b_ = path.left, path.comparators[0]
                if isinstance(a_, ast.Name) and a_.id == K and isinstance(b_, ast.Constant):
                    c = b_
                elif isinstance(b_, ast.Name) and b_.id == K and isinstance(a_, ast.Constant):
                    c = a_
            if c is None or [x for x, _ in flags].count(fname) != 1:
                self.false_flags.discard(fname)
                continue
            it = lo.iter
            while isinstance(it, ast.Call) and isinstance(it.func, ast.Name) and it.func.id in ('list', 'tuple') and len(it.args) == 1:
                it = it.args[0]
            if isinstance(it, ast.Name) and it.id in self.aliases:
                it = self.aliases[it.id]
            self.flag_meaning[fname] = ast.Compare(c, [ast.In()], [it])
            self.false_flags.discard(fname)
        for name, key, value, path in adds:
            self.env[name].parts.append(OPart(src, key, value, path, when, self._next()))
        return True
