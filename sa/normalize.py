"""Canonical form of yatiml's syntax trees, applied before any rule looks at them.

Rules are phrased over this canonical form so that behaviour-preserving respellings do not reach them:

 N0  `if <platform probe that is true on every supported interpreter>: A else: B` -> A   (cfg._FOLD_TRUE)
 N1  `v = e` immediately followed by `return v` (v not captured by a nested def) ->  `return e`
 N2  `not (a OP b)`  ->  `a NEGOP b`   (==/!=, is/is not, in/not in, </>=, >/<=);  `not not x` in a test position -> `x`
     `CONST == x` / `CONST != x`  ->  `x == CONST` / `x != CONST`
 N3  `if not T: A else: B`  ->  `if T: B else: A`;  `if a != b: A else: B` -> `if a == b: B else: A`
     (likewise `is not`, `not in`), for statements with a non-empty else and for conditional expressions
 N4  an `else: pass` arm is dropped
 N5  a temporary with exactly one binding and one use, the use sitting at the head of the very next statement, is inlined
     (`c = f(x); if c:` -> `if f(x):`)
 N5b the same for a temporary bound in several places when each binding is consumed once further down its own straight-line
     block (only plain assignments to other names in between) and nothing else reads it
 N9  `a, b = x, y` -> `a = x; b = y`;   N10  `X if X else Y` -> `X or Y` for a plain name/attribute chain X
 N13 `any(f(v) for v in (A, B))` -> `f(A) or f(B)` (all -> and);  N14 `if T: return False; return E` -> `return not T and E`,
     `if T: return True; return E` -> `return T or E`
 N12 in a loop body `if c: continue` followed by REST -> `if not c: REST`
 N11 `for v in (A, B): BODY` over a short display of names/literals is unrolled
 N8  a private or ALL_CAPS module-level name bound once to a literal is replaced by that literal where it is read
 N15 `if a: v = X else: v = Y` + `S(v)` (v has no other use; X, Y names or constants) -> `if a: S(X) else: S(Y)`
 N16 a leaf of an if-chain ends in `v = CONST` and the next statement is `if TEST(v): S` with S ending in return/raise and TEST
     true for CONST -> that leaf continues with S (jump threading; the dead store goes)
 N17 `if any(C for t in xs): S` (S ends in return/raise) -> `for t in xs: if C: S`; as the last statement of a function
     `if not any(C for t in xs): S` -> `for t in xs: if C: return` then S
 N19 a local bound once at the top of a function to a plain attribute chain whose attributes the function never assigns
     (`registered = self.__registered_classes`) is replaced by the chain where it is read
 N21 `cast(T, e)` -> `e`;  N14b `if T: return True` + `return False` -> `return T` for boolean-valued T
 N23 `v = A; if C: ..; v = B` + the only use `S(v)` (A a plain chain or constant that the arms leave alone, every override in tail
     position) -> the arms that do not override end in `v = A` (N15 then sinks S into the arms)
 N24 `return next((E for T in XS if C), D)` -> `for T in XS: if C: return E` then `return D`
 N25 `v = D.get(K)` tested with `v is [not] None` -> the tests become `K [not] in D`, the other reads of v become `D[K]`
 N26 a list display that is only iterated over or tested for membership (`for x in [a, b]`, `x in [a, b]`) is a tuple display
 N26b an empty list standing in for "nothing" that is only measured or iterated (`len(E or [])`, `ds = E or []` used in len /
     enumerate / zip / for only) is an empty tuple
 N27 `chain.from_iterable(map(F, XS))` -> `(m for c in XS for m in F(c))`;  N28 `list(<generator expression>)` -> the list comprehension
 N29 an annotated assignment inside a function `x: T = e` is `x = e`
 N31 `names = set(CHAIN)` that is only asked `x in names` is CHAIN for that purpose
 N32 `if bool(e):` -> `if e:`;  N33 `t = E; X.a = t` ... reads of t -> `X.a = E` ... reads of X.a (store-to-load forwarding)
 N34 `g = (x for x in XS if C)` iterated once by `for y in g: BODY` -> `for x in XS: if C: BODY`
 N57 a loop over an empty display is dropped;  N58 `for x in list(CHAIN)` (body does not write CHAIN) -> `for x in CHAIN`
 N34c/d `for y in (b for a in XS for b in YS)` / `[b for a in XS for b in a]` -> nested loops
 N35 a flag that only records that the loop was left by break (`f = False; for ..: f = True; break` + `if A and not f: S`) -> for .. else: `if A: S`
 N18 a self-assignment `x = x` is dropped
 N6  `v = []` directly followed by `for t in xs: [if c:] v.append(e)` -> `v = [e for t in xs if c]`

Positions (lineno) are kept from the original nodes so that reports still point into the file.
"""
import ast
from typing import List

NEG = {ast.Eq: ast.NotEq, ast.NotEq: ast.Eq, ast.Is: ast.IsNot, ast.IsNot: ast.Is, ast.In: ast.NotIn, ast.NotIn: ast.In,
       ast.Lt: ast.GtE, ast.GtE: ast.Lt, ast.Gt: ast.LtE, ast.LtE: ast.Gt}
NEGATIVE = (ast.NotEq, ast.IsNot, ast.NotIn)


def _captured(fn: ast.AST, name: str) -> bool:
    """is `name` mentioned inside a nested def/lambda/class of fn (a possible closure capture)?"""
    for n in ast.walk(fn):
        if n is not fn and isinstance(n, (ast.FunctionDef, ast.AsyncFunctionDef, ast.Lambda, ast.ClassDef)):
            if any(isinstance(x, ast.Name) and x.id == name for x in ast.walk(n)):
                return True
    return False


_CONTENT_MUTATORS = {'append', 'extend', 'insert', 'remove', 'pop', 'clear', 'sort', 'reverse', 'update', 'setdefault', 'popitem', 'add',
                     'discard', 'difference_update', 'intersection_update', 'symmetric_difference_update', 'move_to_end'}
_PURE_CALLS = {'isinstance', 'issubclass', 'len', 'str', 'repr', 'type', 'hasattr', 'getattr', 'int', 'bool', 'float', 'cast',
               'list', 'tuple', 'set', 'dict', 'sorted', 'id', 'any', 'all', 'min', 'max'}


def _known_not_none(fn, load, v: str, sentinel=None) -> bool:
    """is the read `load` of local v only reached when `v is not None` has been established?  (an enclosing `if v is not None:` /
    the else of `if v is None:`, an earlier `if v is None: <leave>` in an enclosing block, an earlier `v is not None and ..` operand)"""
    parents = {}
    for x in ast.walk(fn):
        for c in ast.iter_child_nodes(x):
            parents[id(c)] = x

    def is_test(e, positive: bool) -> bool:
        """e being true (positive) / false (not positive) implies v is not None"""
        if isinstance(e, ast.Compare) and len(e.ops) == 1 and isinstance(e.left, ast.Name) and e.left.id == v \
                and ((sentinel is None and isinstance(e.comparators[0], ast.Constant) and e.comparators[0].value is None)
                     or (sentinel is not None and isinstance(e.comparators[0], ast.Name) and e.comparators[0].id == sentinel)):
            return isinstance(e.ops[0], ast.IsNot) if positive else isinstance(e.ops[0], ast.Is)
        if isinstance(e, ast.UnaryOp) and isinstance(e.op, ast.Not):
            return is_test(e.operand, not positive)
        if isinstance(e, ast.BoolOp):
            if isinstance(e.op, ast.And) and positive:
                return any(is_test(x, True) for x in e.values)
            if isinstance(e.op, ast.Or) and not positive:
                return any(is_test(x, False) for x in e.values)
        return False

    def leaves(stmts) -> bool:
        return bool(stmts) and (isinstance(stmts[-1], (ast.Return, ast.Raise, ast.Continue, ast.Break)) or (
            isinstance(stmts[-1], ast.If) and leaves(stmts[-1].body) and leaves(stmts[-1].orelse)))
    cur = load
    while id(cur) in parents:
        p = parents[id(cur)]
        if isinstance(p, ast.If):
            if any(cur is x for x in p.body) and is_test(p.test, True):
                return True
            if any(cur is x for x in p.orelse) and is_test(p.test, False):
                return True
        if isinstance(p, ast.IfExp):
            if cur is p.body and is_test(p.test, True):
                return True
            if cur is p.orelse and is_test(p.test, False):
                return True
        if isinstance(p, ast.BoolOp):
            k = [i for i, x in enumerate(p.values) if x is cur]
            if k:
                earlier = p.values[:k[0]]
                if isinstance(p.op, ast.And) and any(is_test(x, True) for x in earlier):
                    return True
                if isinstance(p.op, ast.Or) and any(is_test(x, False) for x in earlier):
                    return True
        for fld in ('body', 'orelse', 'finalbody'):
            blk = getattr(p, fld, None)
            if isinstance(blk, list) and any(cur is x for x in blk):
                k = [i for i, x in enumerate(blk) if x is cur][0]
                for e in blk[:k]:
                    if isinstance(e, ast.If):
                        if is_test(e.test, False) and leaves(e.body):
                            return True         # `if v is None: return`
                        if is_test(e.test, True) and e.orelse and leaves(e.orelse):
                            return True
        if isinstance(p, (ast.FunctionDef, ast.AsyncFunctionDef, ast.Lambda)) and p is not fn:
            return False
        cur = p
    return False


def _is_yaml_child(fn, name: str) -> bool:
    """a local bound (once) to an element of a node's child list: the loop variable of `for k, v in X.value`, or a target of
    `k, v = X.value[i]` / `v = X.value[i][j]` - PyYAML's composer puts nodes there, never None"""
    stores = [n for n in ast.walk(fn) if isinstance(n, ast.Name) and n.id == name and not isinstance(n.ctx, ast.Load)]
    if len(stores) != 1:
        return False

    def child_list(e) -> bool:
        return isinstance(e, ast.Attribute) and e.attr == 'value' and _is_chain(e)
    for st in ast.walk(fn):
        if isinstance(st, (ast.For, ast.comprehension)) and any(x is stores[0] for x in ast.walk(st.target)):
            return child_list(st.iter)
        if isinstance(st, ast.Assign) and any(x is stores[0] for t in st.targets for x in ast.walk(t)):
            v = st.value
            while isinstance(v, ast.Subscript) and isinstance(v.slice, ast.Constant):
                v = v.value
                if child_list(v):
                    return True
            return False
    return False


def _dfs(n):
    """nodes in program (depth-first, source) order"""
    yield n
    for c in ast.iter_child_nodes(n):
        yield from _dfs(c)


_NONNULL_RESULTS = [set()]            # names of the module's functions whose return annotation is a class (not Optional / None)
_MUTABLE_ATTRS = [set(), False]       # (attributes written outside __init__ or mutated in place, computed?) for the module at hand


def _compute_mutable_attrs(tree: ast.Module):
    out = set()
    for fn in [n for n in ast.walk(tree) if isinstance(n, (ast.FunctionDef, ast.AsyncFunctionDef))]:
        for n in ast.walk(fn):
            if isinstance(n, ast.Attribute) and isinstance(n.ctx, (ast.Store, ast.Del)) and fn.name != '__init__':
                out.add(n.attr)
            if isinstance(n, ast.Subscript) and isinstance(n.ctx, (ast.Store, ast.Del)) and isinstance(n.value, ast.Attribute):
                out.add(n.value.attr)
            if isinstance(n, ast.Call) and isinstance(n.func, ast.Attribute) and isinstance(n.func.value, ast.Attribute) \
                    and n.func.attr in ('append', 'extend', 'insert', 'pop', 'remove', 'clear', 'update', 'setdefault', 'popitem', 'add',
                                        'discard', 'sort', 'reverse'):
                out.add(n.func.value.attr)
            if isinstance(n, ast.AugAssign) and isinstance(n.target, ast.Attribute):
                out.add(n.target.attr)
    for n in ast.walk(tree):
        if isinstance(n, ast.Call) and isinstance(n.func, ast.Name) and n.func.id in ('setattr', 'delattr') and len(n.args) >= 2:
            if isinstance(n.args[1], ast.Constant):
                out.add(n.args[1].value)
            else:
                _MUTABLE_ATTRS[0], _MUTABLE_ATTRS[1] = set(), False
                return
    _MUTABLE_ATTRS[0], _MUTABLE_ATTRS[1] = out, True


def _filter_independent(comp, body) -> bool:
    """May `for y in [x for x in XS if C]: BODY` be read as `for x in XS: if C: BODY`?  Always for a generator (it is consumed
    lazily, element by element); for a list - built before the first iteration - only when BODY cannot change what C and XS read:
    no name they read (other than the element itself) is rebound in BODY, passed to a call in BODY or the receiver of one."""
    if isinstance(comp, ast.GeneratorExp):
        return True
    g0 = comp.generators[0]
    elem = {x.id for x in ast.walk(g0.target) if isinstance(x, ast.Name)}
    # an object that is only read through attributes which the module sets in __init__ and nowhere else (and never mutates in
    # place) - `self.__registered_classes.values()` - does not make the filter depend on what the body does with the object
    stable_roots = set()
    for e in [g0.iter] + list(g0.ifs):
        parents_ = {}
        for x in ast.walk(e):
            for c in ast.iter_child_nodes(x):
                parents_[id(c)] = x
        for x in ast.walk(e):
            if isinstance(x, ast.Name) and x.id not in elem:
                p_ = parents_.get(id(x))
                if isinstance(p_, ast.Attribute) and p_.value is x and p_.attr not in _MUTABLE_ATTRS[0] and _MUTABLE_ATTRS[1]:
                    stable_roots.add(id(x))
    reads = {x.id for e in [g0.iter] + list(g0.ifs) for x in ast.walk(e) if isinstance(x, ast.Name) and id(x) not in stable_roots} - elem
    if not g0.ifs:
        # nothing is filtered: only the iterable itself matters, and a list copy of it is what a loop over it would see unless
        # BODY changes the collection
        pass
    touched = set()
    for b in body:
        for x in ast.walk(b):
            if isinstance(x, ast.Name) and not isinstance(x.ctx, ast.Load):
                touched.add(x.id)
            elif isinstance(x, (ast.Attribute, ast.Subscript)) and not isinstance(x.ctx, ast.Load):
                touched |= {y.id for y in ast.walk(x.value) if isinstance(y, ast.Name)}
            elif isinstance(x, ast.Call):
                if (isinstance(x.func, ast.Name) and x.func.id in _PURE_CALLS) or (
                        isinstance(x.func, ast.Attribute) and (x.func.attr == 'format' or (
                            isinstance(x.func.value, ast.Name) and x.func.value.id in ('logger', 'logging')))):
                    continue
                for a in list(x.args) + [k.value for k in x.keywords]:
                    touched |= {y.id for y in ast.walk(a) if isinstance(y, ast.Name)}
                if isinstance(x.func, ast.Attribute):
                    touched |= {y.id for y in ast.walk(x.func.value) if isinstance(y, ast.Name)}
    return not (reads & touched)


class _Norm(ast.NodeTransformer):
    def __init__(self):
        self.fn_stack: List[ast.AST] = []

    # ---- N2 ------------------------------------------------------------------------------------
    def visit_UnaryOp(self, n: ast.UnaryOp):
        self.generic_visit(n)
        if isinstance(n.op, ast.Not):
            o = n.operand
            if isinstance(o, ast.Compare) and len(o.ops) == 1 and type(o.ops[0]) in NEG:
                return ast.copy_location(ast.Compare(o.left, [NEG[type(o.ops[0])]()], o.comparators), n)
            if isinstance(o, ast.UnaryOp) and isinstance(o.op, ast.Not) and isinstance(
                    o.operand, (ast.Compare, ast.BoolOp)):
                return o.operand
        return n

    def visit_Compare(self, n: ast.Compare):
        self.generic_visit(n)
        if len(n.ops) == 1 and isinstance(n.ops[0], (ast.In, ast.NotIn)) and isinstance(n.comparators[0], ast.List):
            n.comparators[0] = ast.copy_location(ast.Tuple(n.comparators[0].elts, ast.Load()), n.comparators[0])
        if (len(n.ops) == 1 and isinstance(n.ops[0], (ast.Eq, ast.NotEq)) and isinstance(n.left, ast.Constant)
                and not isinstance(n.comparators[0], ast.Constant)):
            return ast.copy_location(ast.Compare(n.comparators[0], n.ops, [n.left]), n)
        return n

    def visit_AnnAssign(self, n: ast.AnnAssign):
        # N29: an annotated assignment inside a function is the assignment (a bare annotation `x: T` is dropped)
        self.generic_visit(n)
        if not self.fn_stack:
            return n
        if n.value is None:
            return ast.copy_location(ast.Pass(), n)
        return ast.copy_location(ast.Assign([n.target], n.value, lineno=n.lineno), n)

    def visit_BoolOp(self, n: ast.BoolOp):
        # N22: `a or (b or c)` -> `a or b or c`
        self.generic_visit(n)
        flat = []
        for v in n.values:
            if isinstance(v, ast.BoolOp) and type(v.op) is type(n.op):
                flat.extend(v.values)
            else:
                flat.append(v)
        n.values = flat
        return n

    # ---- N13 -----------------------------------------------------------------------------------
    def visit_Call(self, n: ast.Call):
        self.generic_visit(n)
        # N27: chain.from_iterable(map(F, XS)) / chain.from_iterable(<comprehension of E>) -> (m for .. for m in E)
        fname = n.func.attr if isinstance(n.func, ast.Attribute) else None
        if fname == 'from_iterable' and len(n.args) == 1 and not n.keywords and (
                (isinstance(n.func.value, ast.Name) and n.func.value.id == 'chain')
                or (isinstance(n.func.value, ast.Attribute) and n.func.value.attr == 'chain')):
            a = n.args[0]
            used = {x.id for x in ast.walk(self.fn_stack[-1]) if isinstance(x, ast.Name)} if self.fn_stack else set()
            fresh = [nm for nm in ('m', 'each', 'elem', 'm_', 'c_', 'x_') if nm not in used]
            if isinstance(a, ast.Call) and isinstance(a.func, ast.Name) and a.func.id == 'map' and len(a.args) == 2 and not a.keywords \
                    and len(fresh) >= 2:
                cv, mv = fresh[0], fresh[1]
                inner = ast.Call(a.args[0], [ast.Name(cv, ast.Load())], [])
                return ast.copy_location(ast.GeneratorExp(ast.Name(mv, ast.Load()), [
                    ast.comprehension(ast.Name(cv, ast.Store()), a.args[1], [], 0),
                    ast.comprehension(ast.Name(mv, ast.Store()), inner, [], 0)]), n)
            if isinstance(a, (ast.GeneratorExp, ast.ListComp)) and fresh:
                mv = fresh[0]
                return ast.copy_location(ast.GeneratorExp(ast.Name(mv, ast.Load()), list(a.generators) + [
                    ast.comprehension(ast.Name(mv, ast.Store()), a.elt, [], 0)]), n)
        # N28: list(<generator expression>) is the list comprehension
        if isinstance(n.func, ast.Name) and n.func.id == 'list' and len(n.args) == 1 and not n.keywords and isinstance(n.args[0], ast.GeneratorExp):
            return ast.copy_location(ast.ListComp(n.args[0].elt, n.args[0].generators), n)
        # N21: typing.cast(T, e) is e
        if isinstance(n.func, ast.Name) and n.func.id == 'cast' and len(n.args) == 2 and not n.keywords:
            return n.args[1]
        if (isinstance(n.func, ast.Name) and n.func.id in ('any', 'all') and len(n.args) == 1 and not n.keywords
                and isinstance(n.args[0], (ast.GeneratorExp, ast.ListComp)) and len(n.args[0].generators) == 1):
            g = n.args[0].generators[0]
            if (isinstance(g.target, ast.Name) and isinstance(g.iter, (ast.Tuple, ast.List)) and 0 < len(g.iter.elts) <= 8
                    and not g.ifs and all(isinstance(x, ast.Constant) or _is_chain(x) for x in g.iter.elts)):
                import copy
                vals = [_subst(copy.deepcopy(n.args[0].elt), {g.target.id: el}) for el in g.iter.elts]
                if len(vals) == 1:
                    return ast.copy_location(vals[0], n)
                return ast.copy_location(ast.BoolOp(ast.Or() if n.func.id == 'any' else ast.And(), vals), n)
        return n

    # ---- N3 ------------------------------------------------------------------------------------
    @staticmethod
    def _positive(test: ast.expr):
        """(positive form, True) if `test` is a negative spelling, else (test, False)"""
        if isinstance(test, ast.UnaryOp) and isinstance(test.op, ast.Not):
            return test.operand, True
        if isinstance(test, ast.Compare) and len(test.ops) == 1 and isinstance(test.ops[0], NEGATIVE):
            return ast.copy_location(ast.Compare(test.left, [NEG[type(test.ops[0])]()], test.comparators), test), True
        return test, False

    def visit_If(self, n: ast.If):
        self.generic_visit(n)
        # N32: `if bool(e):` is `if e:`
        while isinstance(n.test, ast.Call) and isinstance(n.test.func, ast.Name) and n.test.func.id == 'bool' and len(n.test.args) == 1 \
                and not n.test.keywords:
            n.test = n.test.args[0]
        # N0: platform probes that are constant on every supported interpreter (the same table the CFG folds)
        try:
            from .cfg import _FOLD_TRUE
            if ast.unparse(n.test) in _FOLD_TRUE:
                return n.body
        except ImportError:
            pass
        if len(n.orelse) == 1 and isinstance(n.orelse[0], ast.Pass):
            n.orelse = []
        if n.orelse:
            t, swapped = self._positive(n.test)
            if swapped:
                n.test, n.body, n.orelse = t, n.orelse, n.body
        return n

    def visit_IfExp(self, n: ast.IfExp):
        self.generic_visit(n)
        t, swapped = self._positive(n.test)
        if swapped:
            n.test, n.body, n.orelse = t, n.orelse, n.body
        # N10: `X if X else Y` -> `X or Y` (X a plain name/attribute chain: evaluating it twice or once is the same)
        if ast.dump(n.test) == ast.dump(n.body) and _is_chain(n.test):
            return ast.copy_location(ast.BoolOp(ast.Or(), [n.body, n.orelse]), n)
        return n

    # ---- N1 ------------------------------------------------------------------------------------
    @staticmethod
    def _continue_guards(body):
        """N12: in a loop body, `if c: continue` followed by REST  ->  `if not c: REST`"""
        for i, s in enumerate(body):
            if isinstance(s, ast.If) and not s.orelse and len(s.body) == 1 and isinstance(s.body[0], ast.Continue) and i + 1 < len(body):
                rest = _Norm._continue_guards(body[i + 1:])
                neg = ast.copy_location(ast.UnaryOp(ast.Not(), s.test), s.test)
                return body[:i] + [ast.copy_location(ast.If(neg, rest, []), s)]
            if (isinstance(s, ast.If) and not s.orelse and len(s.body) > 1 and isinstance(s.body[-1], ast.Continue) and i + 1 < len(body)
                    and not any(isinstance(x, (ast.Continue, ast.Break)) for st in s.body[:-1] for x in ast.walk(st))):
                # `if c: S..; continue` followed by REST  ->  `if c: S.. else: REST`
                rest = _Norm._continue_guards(body[i + 1:])
                return body[:i] + [ast.copy_location(ast.If(s.test, s.body[:-1], rest), s)]
            if isinstance(s, ast.If) and s.orelse and i + 1 < len(body) and len(body) - i - 1 <= 4:
                # an if/elif chain one of whose arms ends in `continue`, followed by a short REST: REST moves into the arms that
                # fall through, the `continue` goes
                import copy
                arms = []
                cur = s
                while True:
                    arms.append(cur.body)
                    if len(cur.orelse) == 1 and isinstance(cur.orelse[0], ast.If):
                        cur = cur.orelse[0]
                        continue
                    arms.append(cur.orelse)
                    last_if = cur
                    break
                ends = [a and isinstance(a[-1], ast.Continue) for a in arms]
                nested_jump = any(isinstance(x, (ast.Continue, ast.Break)) for a in arms for st in (a[:-1] if a and isinstance(a[-1], ast.Continue) else a)
                                  for x in ast.walk(st))
                rest_raw = body[i + 1:]
                if any(ends) and not nested_jump and not any(isinstance(x, (ast.FunctionDef, ast.ClassDef, ast.For, ast.While, ast.Try))
                                                              for st in rest_raw for x in ast.walk(st)):
                    rest = _Norm._continue_guards(rest_raw)
                    for a, e in zip(arms, ends):
                        if e:
                            a.pop()
                            if not a:
                                a.append(ast.copy_location(ast.Pass(), s))
                        elif a and isinstance(a[-1], (ast.Return, ast.Raise)):
                            pass
                        elif a is last_if.orelse and not a:
                            last_if.orelse = copy.deepcopy(rest)
                        else:
                            a.extend(copy.deepcopy(rest))
                    return body[:i] + [s]
        return body

    def visit_For(self, n: ast.For):
        n.body = self._continue_guards(n.body)
        self.generic_visit(n)
        # N26: a list display that is only iterated over is a tuple display
        if isinstance(n.iter, ast.List):
            n.iter = ast.copy_location(ast.Tuple(n.iter.elts, ast.Load()), n.iter)
        # `for t in iter(XS)` is `for t in XS`
        if isinstance(n.iter, ast.Call) and isinstance(n.iter.func, ast.Name) and n.iter.func.id == 'iter' and len(n.iter.args) == 1 \
                and not n.iter.keywords:
            n.iter = n.iter.args[0]
        # N57: a loop over an empty display never runs
        if isinstance(n.iter, (ast.Tuple, ast.List)) and not n.iter.elts and not n.orelse:
            return ast.copy_location(ast.Pass(), n)
        # N58: a loop over a snapshot `list(CHAIN)` / `tuple(CHAIN)` of a collection that the body does not itself write is a loop
        # over the collection
        if (isinstance(n.iter, ast.Call) and isinstance(n.iter.func, ast.Name) and n.iter.func.id in ('list', 'tuple')
                and len(n.iter.args) == 1 and not n.iter.keywords and _is_chain(n.iter.args[0]) and isinstance(n.iter.args[0], ast.Attribute)):
            chain = ast.unparse(n.iter.args[0])
            writes = False
            for b in n.body:
                for x in ast.walk(b):
                    if isinstance(x, (ast.Attribute, ast.Subscript)) and not isinstance(x.ctx, ast.Load) and ast.unparse(x).startswith(chain):
                        writes = True
                    if isinstance(x, ast.Call) and isinstance(x.func, ast.Attribute) and ast.unparse(x.func.value) == chain:
                        writes = True
            if not writes:
                n.iter = n.iter.args[0]
        # N34d: `for y in [b for a in XS for b in a]: BODY` -> `for a in XS: for b in a: BODY[y:=b]` (the list is built first: only when
        # BODY cannot change what XS reads)
        it = n.iter
        if (isinstance(it, ast.ListComp) and len(it.generators) == 2 and not any(g.is_async or g.ifs for g in it.generators)
                and isinstance(it.elt, ast.Name) and isinstance(it.generators[1].target, ast.Name) and it.elt.id == it.generators[1].target.id
                and all(isinstance(x, ast.Name) for x in ast.walk(it.generators[0].target) if not isinstance(x, (ast.Tuple, ast.List, ast.expr_context)))
                and {x.id for x in ast.walk(it.generators[1].iter) if isinstance(x, ast.Name)}
                <= {x.id for x in ast.walk(it.generators[0].target) if isinstance(x, ast.Name)}
                and isinstance(n.target, ast.Name) and not n.orelse and self.fn_stack):
            probe = ast.ListComp(ast.Constant(None), [it.generators[0]])
            fn = self.fn_stack[-1]
            inside = {id(x) for x in ast.walk(it)}
            gen_names = {x.id for x in ast.walk(it.generators[0].target) if isinstance(x, ast.Name)} | {it.generators[1].target.id}
            yv = n.target.id
            clash = any(isinstance(x, ast.Name) and x.id in gen_names - {yv} and id(x) not in inside for x in ast.walk(fn))
            if not clash and _filter_independent(probe, n.body):
                g1, g2 = it.generators
                bv = g2.target.id
                if bv != yv:
                    for b in n.body:
                        for x in [x for x in ast.walk(b) if isinstance(x, ast.Name) and x.id == yv]:
                            x.id = bv
                for x in list(ast.walk(g1.target)) + [g2.target]:
                    if isinstance(x, (ast.Name, ast.Tuple, ast.List)):
                        x.ctx = ast.Store()
                inner = ast.copy_location(ast.For(g2.target, g2.iter, n.body, [], lineno=n.lineno), n)
                return ast.copy_location(ast.For(g1.target, g1.iter, [inner], [], lineno=n.lineno), n)
        # N34c: `for y in (b for a in XS for b in YS): BODY` -> `for a in XS: for b in YS: BODY[y:=b]` (a generator: consumed lazily)
        it = n.iter
        if (isinstance(it, ast.GeneratorExp) and len(it.generators) == 2 and not any(g.is_async or g.ifs for g in it.generators)
                and isinstance(it.elt, ast.Name) and isinstance(it.generators[1].target, ast.Name)
                and it.elt.id == it.generators[1].target.id and isinstance(n.target, ast.Name) and not n.orelse and self.fn_stack):
            g1, g2 = it.generators
            fn = self.fn_stack[-1]
            inside = {id(x) for x in ast.walk(it)}
            gen_names = {x.id for g in (g1, g2) for x in ast.walk(g.target) if isinstance(x, ast.Name)}
            yv = n.target.id
            clash = any(isinstance(x, ast.Name) and x.id in gen_names - {yv} and id(x) not in inside for x in ast.walk(fn))
            if not clash:
                bv = g2.target.id
                if bv != yv:
                    for b in n.body:
                        for x in [x for x in ast.walk(b) if isinstance(x, ast.Name) and x.id == yv]:
                            x.id = bv
                for g in (g1, g2):
                    for x in ast.walk(g.target):
                        if isinstance(x, ast.Name):
                            x.ctx = ast.Store()
                inner = ast.copy_location(ast.For(g2.target, g2.iter, n.body, [], lineno=n.lineno), n)
                inner = self.visit_For(inner) if isinstance(g2.iter, (ast.Tuple, ast.List)) else inner
                return ast.copy_location(ast.For(g1.target, g1.iter, [inner] if isinstance(inner, ast.stmt) else inner, [], lineno=n.lineno), n)
        # N34 (direct form): `for y in (x for x in XS if C): BODY` -> `for x in XS: if C: BODY[y:=x]`
        it = n.iter
        # ... with a tuple target repeated as the element: `for i, x in [(i, x) for i, x in XS if C]` -> `for i, x in XS: if C:`
        if (isinstance(it, (ast.GeneratorExp, ast.ListComp)) and len(it.generators) == 1 and not it.generators[0].is_async
                and isinstance(it.elt, ast.Tuple) and isinstance(it.generators[0].target, ast.Tuple) and isinstance(n.target, ast.Tuple)
                and all(isinstance(x, ast.Name) for x in it.elt.elts + it.generators[0].target.elts + n.target.elts)
                and [x.id for x in it.elt.elts] == [x.id for x in it.generators[0].target.elts] == [x.id for x in n.target.elts]
                and _filter_independent(it, n.body)):
            g0 = it.generators[0]
            body = n.body
            if g0.ifs:
                cond = g0.ifs[0] if len(g0.ifs) == 1 else ast.BoolOp(ast.And(), list(g0.ifs))
                body = [ast.copy_location(ast.If(cond, body, []), n)]
            return ast.copy_location(ast.For(n.target, g0.iter, body, n.orelse, lineno=n.lineno), n)
        if (isinstance(it, (ast.GeneratorExp, ast.ListComp)) and len(it.generators) == 1 and not it.generators[0].is_async
                and isinstance(it.elt, ast.Name) and isinstance(it.generators[0].target, ast.Name)
                and it.elt.id == it.generators[0].target.id and isinstance(n.target, ast.Name) and self.fn_stack):
            g0 = it.generators[0]
            xv, yv = g0.target.id, n.target.id
            inside = {id(x) for x in ast.walk(it)}
            fn = self.fn_stack[-1]
            clash = xv != yv and any(isinstance(x, ast.Name) and x.id == xv and id(x) not in inside for x in ast.walk(fn))
            if not clash and _filter_independent(it, n.body):
                body = n.body
                if xv != yv:
                    for b in body:
                        for x in [x for x in ast.walk(b) if isinstance(x, ast.Name) and x.id == yv]:
                            x.id = xv
                if g0.ifs:
                    cond = g0.ifs[0] if len(g0.ifs) == 1 else ast.BoolOp(ast.And(), list(g0.ifs))
                    body = [ast.copy_location(ast.If(cond, body, []), n)]
                g0.target.ctx = ast.Store()
                return ast.copy_location(ast.For(g0.target, g0.iter, body, n.orelse, lineno=n.lineno), n)
        return n

    def visit_comprehension(self, n: ast.comprehension):
        self.generic_visit(n)
        if isinstance(n.iter, ast.List):
            n.iter = ast.copy_location(ast.Tuple(n.iter.elts, ast.Load()), n.iter)
        return n

    def visit_While(self, n: ast.While):
        n.body = self._continue_guards(n.body)
        self.generic_visit(n)
        return n

    @staticmethod
    def _measured_only(fn):
        """N26b: an empty list that stands in for "nothing" and is only measured or iterated over (`len(E or [])`,
        `ds = E or []` with ds used in len()/enumerate()/zip()/for/`in` only; likewise `E if E else []`) is an empty tuple"""
        parents = {}
        for x in ast.walk(fn):
            for c in ast.iter_child_nodes(x):
                parents[id(c)] = x

        def passive(use):
            """the value at `use` is only measured / iterated"""
            p = parents.get(id(use))
            if isinstance(p, ast.Call) and isinstance(p.func, ast.Name) and p.func.id in ('len', 'enumerate', 'zip', 'reversed', 'iter',
                                                                                          'any', 'all', 'tuple') and use in p.args:
                return True
            if isinstance(p, (ast.For, ast.comprehension)) and p.iter is use:
                return True
            if isinstance(p, ast.Compare) and len(p.ops) == 1 and isinstance(p.ops[0], (ast.In, ast.NotIn)) and p.comparators[0] is use:
                return True
            return False

        def empties(e):
            """the empty-list leaves of a default expression: `X or []`, `X if c else []`"""
            if isinstance(e, ast.BoolOp) and isinstance(e.op, ast.Or) and isinstance(e.values[-1], ast.List) and not e.values[-1].elts:
                return [(e.values, len(e.values) - 1)]
            if isinstance(e, ast.IfExp):
                out = []
                if isinstance(e.orelse, ast.List) and not e.orelse.elts:
                    out.append((e, 'orelse'))
                if isinstance(e.body, ast.List) and not e.body.elts:
                    out.append((e, 'body'))
                return out
            return []

        def retuple(slots):
            for holder, where in slots:
                if isinstance(holder, list):
                    holder[where] = ast.copy_location(ast.Tuple([], ast.Load()), holder[where])
                else:
                    setattr(holder, where, ast.copy_location(ast.Tuple([], ast.Load()), getattr(holder, where)))
        for x in list(ast.walk(fn)):
            if isinstance(x, (ast.BoolOp, ast.IfExp)) and empties(x):
                if passive(x):
                    retuple(empties(x))
                    continue
                p = parents.get(id(x))
                if isinstance(p, ast.Assign) and len(p.targets) == 1 and isinstance(p.targets[0], ast.Name) and p.value is x:
                    v = p.targets[0].id
                    stores = [y for y in ast.walk(fn) if isinstance(y, ast.Name) and y.id == v and not isinstance(y.ctx, ast.Load)]
                    loads = [y for y in ast.walk(fn) if isinstance(y, ast.Name) and y.id == v and isinstance(y.ctx, ast.Load)]
                    if len(stores) == 1 and loads and all(passive(y) for y in loads) and not _captured(fn, v):
                        retuple(empties(x))

    def _visit_fn(self, n):
        self._measured_only(n)
        self.fn_stack.append(n)
        self._search_loops(n, n.body, True)
        self._next_to_loop(n, n.body)
        self.generic_visit(n)
        self.fn_stack.pop()
        self._propagate_chain_aliases(n)
        self._lookup_via_get(n)
        self._fold_blocks(n, n)
        self._propagate_block_temps(n)
        return n

    @staticmethod
    def _lookup_via_get(fn):
        """N25: `v = D.get(K)` (v bound once; D, K plain chains the function does not assign) whose value is tested with
        `v is None` / `v is not None`  ->  the tests become `K not in D` / `K in D`, the other reads of v become `D[K]`"""
        import copy
        stored_attrs = {n.attr for n in ast.walk(fn) if isinstance(n, ast.Attribute) and isinstance(n.ctx, (ast.Store, ast.Del))}
        stored_names = {n.id for n in ast.walk(fn) if isinstance(n, ast.Name) and not isinstance(n.ctx, ast.Load)}
        for blk in _Norm._blocks(fn):
            for st in list(blk):
                if not (isinstance(st, ast.Assign) and len(st.targets) == 1 and isinstance(st.targets[0], ast.Name)
                        and isinstance(st.value, ast.Call) and isinstance(st.value.func, ast.Attribute) and st.value.func.attr == 'get'
                        and len(st.value.args) in (1, 2) and not st.value.keywords and _is_chain(st.value.func.value)
                        and (_is_chain(st.value.args[0]) or isinstance(st.value.args[0], ast.Constant))):
                    continue
                # N25b: `v = D.get(K, S)` with S a module-level `S = object()` sentinel, tested with `v is [not] S`
                sentinel = None
                if len(st.value.args) == 2:
                    s_ = st.value.args[1]
                    if isinstance(s_, ast.Name) and s_.id in _SENTINELS and s_.id not in stored_names:
                        sentinel = s_.id
                    elif not (isinstance(s_, ast.Constant) and s_.value is None):
                        continue
                v, D, K = st.targets[0].id, st.value.func.value, st.value.args[0]
                chain_attrs = {n.attr for x in (D, K) for n in ast.walk(x) if isinstance(n, ast.Attribute)}
                chain_names = {n.id for x in (D, K) for n in ast.walk(x) if isinstance(n, ast.Name)}
                # names that only the header of a loop around this statement binds are fixed for the binding and all reads of v,
                # provided those reads are in the body of that loop too
                clash = chain_names & stored_names
                # a name bound exactly once, by a top-level assignment of the function that comes before this statement's top-level
                # ancestor, has one value from there on.  (These refinements serve the sentinel form only: the None form cannot tell
                # an absent key from a stored None and stays confined to the tables it was confirmed on.)
                for nm in (sorted(clash) if sentinel is not None else []):
                    sts = [n for n in ast.walk(fn) if isinstance(n, ast.Name) and n.id == nm and not isinstance(n.ctx, ast.Load)]
                    if len(sts) != 1:
                        continue
                    tops = [k for k, top in enumerate(fn.body) if isinstance(top, ast.Assign) and any(t is sts[0] for t in top.targets)]
                    here = [k for k, top in enumerate(fn.body) if any(x is st for x in ast.walk(top))]
                    if tops and here and tops[0] < here[0] and nm not in {a.arg for a in ast.walk(fn.args) if isinstance(a, ast.arg)}:
                        clash = clash - {nm}
                if clash and sentinel is not None:
                    loops = [lo for lo in ast.walk(fn) if isinstance(lo, ast.For) and any(x is st for b in lo.body for x in ast.walk(b))]
                    for lo in loops:
                        tn = {n.id for n in ast.walk(lo.target) if isinstance(n, ast.Name)}
                        if clash <= tn:
                            elsewhere = [n for n in ast.walk(fn) if isinstance(n, ast.Name) and n.id in clash
                                         and not isinstance(n.ctx, ast.Load) and not any(n is t for t in ast.walk(lo.target))]
                            inside = {id(x) for b in lo.body for x in ast.walk(b)}
                            v_loads = [n for n in ast.walk(fn) if isinstance(n, ast.Name) and n.id == v]
                            if not elsewhere and all(id(n) in inside for n in v_loads):
                                clash = set()
                            break
                attr_clash = chain_attrs & stored_attrs
                if attr_clash and sentinel is not None:
                    # stores of those attributes that come after the last read of v, outside every loop around the binding, cannot
                    # come between the binding and a read
                    order0 = {id(x): k for k, x in enumerate(_dfs(fn))}
                    v_nodes = [n for n in ast.walk(fn) if isinstance(n, ast.Name) and n.id == v]
                    last = max([order0.get(id(n), 0) for n in v_nodes] or [0])
                    loops0 = [lo for lo in ast.walk(fn) if isinstance(lo, (ast.For, ast.While)) and any(x is st for x in ast.walk(lo))]
                    in_loops = {id(x) for lo in loops0 for x in ast.walk(lo)}
                    bad = [n for n in ast.walk(fn) if isinstance(n, ast.Attribute) and isinstance(n.ctx, (ast.Store, ast.Del))
                           and n.attr in attr_clash and (order0.get(id(n), 0) <= last or id(n) in in_loops)]
                    if not bad:
                        attr_clash = set()
                if attr_clash or clash or _captured(fn, v):
                    continue
                stores = [n for n in ast.walk(fn) if isinstance(n, ast.Name) and n.id == v and not isinstance(n.ctx, ast.Load)]
                if len(stores) != 1:
                    continue
                tests = [c for c in ast.walk(fn) if isinstance(c, ast.Compare) and len(c.ops) == 1 and isinstance(c.ops[0], (ast.Is, ast.IsNot))
                         and isinstance(c.left, ast.Name) and c.left.id == v
                         and ((sentinel is None and isinstance(c.comparators[0], ast.Constant) and c.comparators[0].value is None)
                              or (sentinel is not None and isinstance(c.comparators[0], ast.Name) and c.comparators[0].id == sentinel))]
                loads = [n for n in ast.walk(fn) if isinstance(n, ast.Name) and n.id == v and isinstance(n.ctx, ast.Load)]
                order = {id(x): k for k, x in enumerate(_dfs(fn))}
                if not tests or any(order.get(id(n), 0) <= order.get(id(st), 0) for n in loads):
                    continue
                # which reads know that the key was there?  Those under a `v is not None` guard: only they may become D[K];
                # the others read D.get(K) (None when the key is absent), exactly as before
                test_ids = {id(c.left) for c in tests}
                guarded = {id(n) for n in loads if id(n) not in test_ids and _known_not_none(fn, n, v, sentinel)}
                for c in tests:
                    op = ast.In() if isinstance(c.ops[0], ast.IsNot) else ast.NotIn()
                    new = ast.copy_location(ast.Compare(copy.deepcopy(K), [op], [copy.deepcopy(D)]), c)
                    _replace(fn, c, new)
                for n in [n for n in ast.walk(fn) if isinstance(n, ast.Name) and n.id == v and isinstance(n.ctx, ast.Load)]:
                    if id(n) in guarded:
                        _replace(fn, n, ast.copy_location(ast.Subscript(copy.deepcopy(D), copy.deepcopy(K), ast.Load()), n))
                    else:
                        _replace(fn, n, ast.copy_location(copy.deepcopy(st.value), n))
                blk.remove(st)
                if not blk:
                    blk.append(ast.copy_location(ast.Pass(), st))

    @staticmethod
    def _propagate_chain_aliases(fn):
        """N19: a local bound once to a plain attribute chain (`reg = self.__registered`) or to a total test of such chains
        (`is_mapping = isinstance(node, yaml.MappingNode)`), whose names and attributes the function never assigns, is replaced by that
        expression wherever it is read - all reads must come later in the block of the binding (so the binding dominates them)"""
        import copy
        stored_attrs = {n.attr for n in ast.walk(fn) if isinstance(n, ast.Attribute) and isinstance(n.ctx, (ast.Store, ast.Del))}
        args = {a.arg for a in ast.walk(fn.args) if isinstance(a, ast.arg)}

        def total(e):
            if _is_chain(e) and isinstance(e, ast.Attribute):
                return True
            if isinstance(e, ast.Compare) and any(isinstance(n, ast.Attribute) for n in ast.walk(e)):
                pass
            if isinstance(e, ast.Call) and isinstance(e.func, ast.Name) and e.func.id in ('isinstance', 'issubclass', 'hasattr') \
                    and len(e.args) == 2 and not e.keywords and _is_chain(e.args[0]):
                b = e.args[1]
                return isinstance(b, ast.Constant) or _is_chain(b) or (isinstance(b, ast.Tuple) and all(_is_chain(x) for x in b.elts))
            def operand(x):
                # a plain chain, a constant, or a view of a mapping held in a chain (`self._registered_classes.values()`)
                return _is_chain(x) or isinstance(x, ast.Constant) or (
                    isinstance(x, ast.Call) and isinstance(x.func, ast.Attribute) and x.func.attr in ('values', 'keys', 'items')
                    and not x.args and not x.keywords and _is_chain(x.func.value) and isinstance(x.func.value, ast.Attribute))
            if isinstance(e, ast.Compare) and len(e.ops) == 1 and isinstance(e.ops[0], (ast.In, ast.NotIn, ast.Is, ast.IsNot)) \
                    and all(operand(x) for x in (e.left, e.comparators[0])):
                return True
            return False
        for blk in _Norm._blocks(fn):
            for st in list(blk):
                if not (isinstance(st, ast.Assign) and len(st.targets) == 1 and isinstance(st.targets[0], ast.Name)):
                    continue
                # N31: `names = set(CHAIN)` that is only ever asked `x in names` is CHAIN for that purpose
                if (isinstance(st.value, ast.Call) and isinstance(st.value.func, ast.Name) and st.value.func.id in ('set', 'frozenset')
                        and len(st.value.args) == 1 and not st.value.keywords and _is_chain(st.value.args[0])
                        and isinstance(st.value.args[0], ast.Attribute)):
                    v0 = st.targets[0].id
                    uses = [n for n in ast.walk(fn) if isinstance(n, ast.Name) and n.id == v0 and isinstance(n.ctx, ast.Load)]
                    member = [c.comparators[0] for c in ast.walk(fn) if isinstance(c, ast.Compare) and len(c.ops) == 1
                              and isinstance(c.ops[0], (ast.In, ast.NotIn))]
                    if uses and all(any(u is m for m in member) for u in uses):
                        st.value = st.value.args[0]
                if not total(st.value):
                    continue
                v = st.targets[0].id
                chain_attrs = {n.attr for n in ast.walk(st.value) if isinstance(n, ast.Attribute)}
                roots = {n.id for n in ast.walk(st.value) if isinstance(n, ast.Name)}
                if v in args or _captured(fn, v):
                    continue
                limit = None
                if chain_attrs & stored_attrs:
                    # the chain is assigned in this function: fine when that happens in one later statement of this block whose
                    # right-hand side is the last thing that reads the alias (`old = self.n; ..; self.n = K(old.a, old.b)`)
                    later_ = blk[blk.index(st) + 1:]
                    writers = [x for x in later_ if any(isinstance(n, ast.Attribute) and isinstance(n.ctx, (ast.Store, ast.Del))
                                                        and n.attr in chain_attrs for n in ast.walk(x))]
                    all_writers = [n for n in ast.walk(fn) if isinstance(n, ast.Attribute) and isinstance(n.ctx, (ast.Store, ast.Del))
                                   and n.attr in chain_attrs]
                    if len(writers) != 1 or not isinstance(writers[0], ast.Assign) or len(all_writers) != 1 \
                            or not any(all_writers[0] is t for t in writers[0].targets):
                        continue
                    limit = writers[0]
                stores = [n for n in ast.walk(fn) if isinstance(n, ast.Name) and n.id == v and not isinstance(n.ctx, ast.Load)]
                # stores of the roots that come after the binding in program order (inlined code keeps the line numbers of the
                # helper it came from, so positions cannot be compared)
                order = {id(x): k for k, x in enumerate(_dfs(fn))}
                root_stores = [n for n in ast.walk(fn) if isinstance(n, ast.Name) and n.id in roots and not isinstance(n.ctx, ast.Load)
                               and order.get(id(n), 0) > order.get(id(st), 0)]
                if len(stores) != 1 or root_stores:
                    continue
                # a membership test speaks about the *contents* of its container: it cannot travel past a statement that changes them
                if isinstance(st.value, ast.Compare) and isinstance(st.value.ops[0], (ast.In, ast.NotIn)):
                    box = st.value.comparators[0]
                    if isinstance(box, ast.Call):
                        box = box.func.value
                    btxt = ast.unparse(box)
                    changed_later = False
                    for n in ast.walk(fn):
                        if order.get(id(n), 0) <= order.get(id(st), 0):
                            continue
                        if isinstance(n, ast.Call) and isinstance(n.func, ast.Attribute) and n.func.attr in _CONTENT_MUTATORS \
                                and ast.unparse(n.func.value) == btxt:
                            changed_later = True
                        elif isinstance(n, ast.Subscript) and isinstance(n.ctx, (ast.Store, ast.Del)) and ast.unparse(n.value) == btxt:
                            changed_later = True
                        elif isinstance(n, ast.AugAssign) and ast.unparse(n.target) == btxt:
                            changed_later = True
                    if changed_later:
                        continue
                loads = [n for n in ast.walk(fn) if isinstance(n, ast.Name) and n.id == v and isinstance(n.ctx, ast.Load)]
                later = blk[blk.index(st) + 1:]
                in_later = {id(n) for x in later for n in ast.walk(x)}
                if not loads or any(id(n) not in in_later for n in loads):
                    continue
                if limit is not None:
                    before = later[:later.index(limit)]
                    allowed = {id(n) for x in before for n in ast.walk(x)} | {id(n) for n in ast.walk(limit.value)}
                    if any(id(n) not in allowed for n in loads):
                        continue
                for n in loads:
                    _replace(fn, n, ast.copy_location(copy.deepcopy(st.value), n))
                blk.remove(st)
                if not blk:
                    blk.append(ast.copy_location(ast.Pass(), st))

    @staticmethod
    def _blocks(fn):
        out = []

        def rec(node):
            for fld in ('body', 'orelse', 'finalbody'):
                v = getattr(node, fld, None)
                if isinstance(v, list) and v and isinstance(v[0], ast.stmt):
                    out.append(v)
                    for c in v:
                        if not isinstance(c, (ast.FunctionDef, ast.AsyncFunctionDef, ast.ClassDef)):
                            rec(c)
            for h in getattr(node, 'handlers', []) or []:
                out.append(h.body)
                for c in h.body:
                    rec(c)
        rec(fn)
        return out

    @staticmethod
    def _propagate_block_temps(fn):
        """N5b: a local every binding of which (`v = e`) is consumed exactly once further down the same straight-line block - only
        plain assignments to other names in between - and that is read nowhere else, is replaced by its value at each use.
        One local per round, and the facts are collected afresh after each: the value of one temporary may be (a read of) another
        (`h = E; text = h; K(text)`), and a use recorded before the first substitution has moved by the time of the second - the
        second would then rewrite a statement that is already gone and delete a definition whose use is still there."""
        for _round in range(64):
            if not _Norm._propagate_one_block_temp(fn):
                break

    @staticmethod
    def _propagate_one_block_temp(fn) -> bool:
        pairs = {}
        for blk in _Norm._blocks(fn):
            for i, s in enumerate(blk):
                if not (isinstance(s, ast.Assign) and len(s.targets) == 1 and isinstance(s.targets[0], ast.Name)):
                    continue
                if isinstance(s.value, (ast.Yield, ast.YieldFrom, ast.Await)):
                    continue
                v = s.targets[0].id
                free = {n.id for n in ast.walk(s.value) if isinstance(n, ast.Name)}
                if v in free:
                    pairs.setdefault(v, []).append(None)
                    continue
                hit = None
                for j in range(i + 1, len(blk)):
                    t = blk[j]
                    uses = [n for h in _head_exprs(t) for n in ast.walk(h) if isinstance(n, ast.Name) and n.id == v
                            and isinstance(n.ctx, ast.Load)]
                    if uses:
                        all_uses = [n for n in ast.walk(t) if isinstance(n, ast.Name) and n.id == v]
                        if len(uses) == 1 and len(all_uses) == 1:
                            hit = (blk, s, t, uses[0])
                        break
                    if (isinstance(t, ast.Assign) and len(t.targets) == 1 and isinstance(t.targets[0], ast.Name)
                            and t.targets[0].id != v and t.targets[0].id not in free
                            and not any(isinstance(n, ast.Name) and n.id == v for n in ast.walk(t))
                            and not isinstance(t.value, (ast.Yield, ast.YieldFrom, ast.Await))):
                        continue
                    # a literal (constants, displays of constants and global names) can be carried across any statement that
                    # neither mentions the temporary nor re-binds a name of the literal
                    if (_literal(s.value) and not any(isinstance(n, ast.Name) and (n.id == v or (n.id in free and not isinstance(n.ctx, ast.Load)))
                                                      for n in ast.walk(t))
                            and not isinstance(t, (ast.FunctionDef, ast.AsyncFunctionDef, ast.ClassDef))):
                        continue
                    break
                pairs.setdefault(v, []).append(hit)
        args = {a.arg for a in ast.walk(fn.args) if isinstance(a, ast.arg)}
        for v, ps in pairs.items():
            if v in args or any(p is None for p in ps) or _captured(fn, v):
                continue
            loads = [n for n in ast.walk(fn) if isinstance(n, ast.Name) and n.id == v and isinstance(n.ctx, ast.Load)]
            stores = [n for n in ast.walk(fn) if isinstance(n, ast.Name) and n.id == v and not isinstance(n.ctx, ast.Load)]
            handlers = [h for h in ast.walk(fn) if isinstance(h, ast.ExceptHandler) and h.name == v]
            if handlers or len(loads) != len(ps) or len(stores) != len(ps) or len({id(p[3]) for p in ps}) != len(ps):
                continue
            for blk, s, t, use in ps:
                _replace(t, use, s.value)
                blk[:] = [x for x in blk if x is not s] or [ast.copy_location(ast.Pass(), s)]
            return True
        return False

    visit_FunctionDef = _visit_fn
    visit_AsyncFunctionDef = _visit_fn

    def _fold_blocks(self, fn, node):
        for fld in ('body', 'orelse', 'finalbody', 'handlers'):
            v = getattr(node, fld, None)
            if not isinstance(v, list):
                continue
            if v and isinstance(v[0], ast.stmt):
                setattr(node, fld, self._fold(fn, v))
            for c in getattr(node, fld):
                if not isinstance(c, (ast.FunctionDef, ast.AsyncFunctionDef, ast.ClassDef)):
                    self._fold_blocks(fn, c)

    def _fold(self, fn, stmts):
        out: list = []
        i = 0
        stmts = self._boolean_returns(stmts)
        stmts = self._split_tuple_assignments(stmts)
        stmts = self._loops_to_comprehensions(fn, stmts)
        while i < len(stmts):
            s = stmts[i]
            nx = stmts[i + 1] if i + 1 < len(stmts) else None
            # N18: `x = x`
            if (isinstance(s, ast.Assign) and len(s.targets) == 1 and isinstance(s.targets[0], ast.Name)
                    and isinstance(s.value, ast.Name) and s.value.id == s.targets[0].id and len(stmts) > 1):
                i += 1
                continue
            if (isinstance(s, ast.Assign) and len(s.targets) == 1 and isinstance(s.targets[0], ast.Name)
                    and nx is not None and not _captured(fn, s.targets[0].id)):
                v = s.targets[0].id
                # N1: v = e; return v
                if isinstance(nx, ast.Return) and isinstance(nx.value, ast.Name) and nx.value.id == v:
                    out.append(ast.copy_location(ast.Return(s.value), s))
                    i += 2
                    continue
                # N5: a temporary with one binding and one use, the use being in the very next statement
                loads = [n for n in ast.walk(fn) if isinstance(n, ast.Name) and n.id == v and isinstance(n.ctx, ast.Load)]
                stores = [n for n in ast.walk(fn) if isinstance(n, ast.Name) and n.id == v and not isinstance(n.ctx, ast.Load)]
                if len(loads) == 1 and len(stores) == 1 and not isinstance(s.value, (ast.Yield, ast.YieldFrom, ast.Await)):
                    head = _head_exprs(nx)
                    if any(loads[0] is n for h in head for n in ast.walk(h)):
                        _replace(nx, loads[0], s.value)
                        i += 1
                        continue
            # N34: a filtering generator bound to a name and iterated once: `g = (x for x in XS if C); for y in g: BODY`
            #      -> `for x in XS: if C: BODY[y:=x]`
            if (isinstance(s, ast.Assign) and len(s.targets) == 1 and isinstance(s.targets[0], ast.Name)
                    and isinstance(s.value, (ast.GeneratorExp, ast.ListComp)) and len(s.value.generators) == 1
                    and isinstance(nx, ast.For) and isinstance(nx.iter, ast.Name) and nx.iter.id == s.targets[0].id
                    and isinstance(s.value.elt, ast.Name) and isinstance(s.value.generators[0].target, ast.Name)
                    and s.value.elt.id == s.value.generators[0].target.id and isinstance(nx.target, ast.Name)
                    and not _captured(fn, s.targets[0].id)):
                import copy
                gname = s.targets[0].id
                uses = [n for n in ast.walk(fn) if isinstance(n, ast.Name) and n.id == gname]
                g0 = s.value.generators[0]
                xv, yv = g0.target.id, nx.target.id
                inside = {id(n) for n in ast.walk(s.value)}
                clash = xv != yv and any(isinstance(n, ast.Name) and n.id == xv and id(n) not in inside for n in ast.walk(fn))
                if len(uses) == 2 and not clash and not g0.is_async and _filter_independent(s.value, nx.body):
                    body = nx.body
                    if xv != yv:
                        for b in body:
                            for n in [n for n in ast.walk(b) if isinstance(n, ast.Name) and n.id == yv]:
                                n.id = xv
                    if g0.ifs:
                        cond = g0.ifs[0] if len(g0.ifs) == 1 else ast.BoolOp(ast.And(), list(g0.ifs))
                        body = [ast.copy_location(ast.If(cond, body, []), nx)]
                    g0.target.ctx = ast.Store()
                    out.append(ast.copy_location(ast.For(g0.target, g0.iter, body, nx.orelse, lineno=nx.lineno), nx))
                    i += 2
                    continue
            # N35: a flag that only records whether the loop was left by `break`: `f = False; for ..: ..; f = True; break`
            #      + `if A and not f: S`  ->  for .. else: `if A: S`
            nx2b = stmts[i + 2] if i + 2 < len(stmts) else None
            if (isinstance(s, ast.Assign) and len(s.targets) == 1 and isinstance(s.targets[0], ast.Name)
                    and isinstance(s.value, ast.Constant) and s.value.value is False and isinstance(nx, ast.For) and not nx.orelse
                    and isinstance(nx2b, ast.If) and not nx2b.orelse and not _captured(fn, s.targets[0].id)):
                if self._flag_to_for_else(fn, s, nx, nx2b):
                    out.append(nx)
                    i += 3
                    continue
            # N33: store-to-load forwarding through a temporary: `t = E; X.a = t` ... reads of t  ->  `X.a = E` ... reads of X.a
            if (isinstance(s, ast.Assign) and len(s.targets) == 1 and isinstance(s.targets[0], ast.Name) and isinstance(nx, ast.Assign)
                    and len(nx.targets) == 1 and isinstance(nx.targets[0], ast.Attribute) and _is_chain(nx.targets[0])
                    and isinstance(nx.value, ast.Name) and nx.value.id == s.targets[0].id and not _captured(fn, s.targets[0].id)):
                import copy
                t = s.targets[0].id
                tgt = nx.targets[0]
                tgt_txt = ast.unparse(tgt)
                stores_t = [n for n in ast.walk(fn) if isinstance(n, ast.Name) and n.id == t and not isinstance(n.ctx, ast.Load)]
                other_attr_stores = [n for n in ast.walk(fn) if isinstance(n, ast.Attribute) and isinstance(n.ctx, (ast.Store, ast.Del))
                                     and n is not tgt and n.attr == tgt.attr and ast.unparse(n) == tgt_txt]
                base_names = {n.id for n in ast.walk(tgt) if isinstance(n, ast.Name)}
                later = stmts[i + 2:]
                in_later = {id(n) for x in later for n in ast.walk(x)}
                loads = [n for n in ast.walk(fn) if isinstance(n, ast.Name) and n.id == t and isinstance(n.ctx, ast.Load) and n is not nx.value]
                rebinds = any(isinstance(n, ast.Name) and n.id in base_names and not isinstance(n.ctx, ast.Load) for x in later for n in ast.walk(x))
                if len(stores_t) == 1 and not other_attr_stores and not rebinds and all(id(n) in in_later for n in loads):
                    for n in loads:
                        new = copy.deepcopy(tgt)
                        for x in ast.walk(new):
                            if hasattr(x, 'ctx'):
                                x.ctx = ast.Load()
                        _replace(fn, n, ast.copy_location(new, n))
                    out.append(ast.copy_location(ast.Assign([tgt], s.value, lineno=s.lineno), nx))
                    i += 2
                    continue
            # N23: a default that is conditionally overridden before its only use: `v = A; if C: ..; v = B; S(v)` -> the default is
            # written into the arms that do not override it (N15 then sinks S)
            nx2 = stmts[i + 2] if i + 2 < len(stmts) else None
            if (isinstance(s, ast.Assign) and len(s.targets) == 1 and isinstance(s.targets[0], ast.Name) and isinstance(nx, ast.If)
                    and nx2 is not None and isinstance(nx2, (ast.Expr, ast.Assign, ast.Return, ast.Raise))
                    and (isinstance(s.value, ast.Constant) or _is_chain(s.value))):
                if self._default_into_arms(fn, s, nx, nx2):
                    i += 1          # the default assignment is gone; continue with the if statement
                    continue
            # N16t: total jump threading - every leaf of the selection binds v to a value for which `v is [not] None` is decided:
            # each leaf continues with the arm of the following if/else that it selects, and the if/else goes
            if isinstance(s, ast.If) and isinstance(nx, ast.If) and nx.orelse and self._thread_total(fn, s, nx):
                out.append(s)
                i += 2
                continue
            # N16: jump threading - a leaf of an if-chain binds v to a constant and the very next statement is a guard on v
            if isinstance(s, ast.If) and isinstance(nx, ast.If) and not nx.orelse and nx.body \
                    and isinstance(nx.body[-1], (ast.Return, ast.Raise)):
                if self._thread_guard(fn, s, nx):
                    out.append(s)
                    i += 2
                    continue
            # N15: an if-chain that only selects a value for a temporary used once, in the very next statement
            if isinstance(s, ast.If) and nx is not None and isinstance(nx, (ast.Expr, ast.Assign, ast.Return, ast.Raise, ast.For)):
                sunk = self._sink_selector(fn, s, nx)
                if sunk is not None:
                    out.append(sunk)
                    i += 2
                    continue
            out.append(s)
            i += 1
        return out

    @staticmethod
    def _next_to_loop(fn, stmts):
        """N24: `return next((E for T in XS if C), D)` -> `for T in XS: if C: return E` followed by `return D`"""
        i = 0
        while i < len(stmts):
            s = stmts[i]
            if (isinstance(s, ast.Return) and isinstance(s.value, ast.Call) and isinstance(s.value.func, ast.Name) and s.value.func.id == 'next'
                    and len(s.value.args) == 2 and not s.value.keywords and isinstance(s.value.args[0], ast.GeneratorExp)
                    and len(s.value.args[0].generators) == 1 and not s.value.args[0].generators[0].is_async
                    and isinstance(s.value.args[1], (ast.Constant, ast.Name))):
                ge = s.value.args[0]
                g = ge.generators[0]
                tv = {n.id for n in ast.walk(g.target) if isinstance(n, ast.Name)}
                inside = {id(n) for n in ast.walk(ge)}
                clash = any(isinstance(n, ast.Name) and n.id in tv and id(n) not in inside for n in ast.walk(fn))
                if not clash:
                    ret = ast.copy_location(ast.Return(ge.elt), s)
                    inner = ret
                    if g.ifs:
                        cond = g.ifs[0] if len(g.ifs) == 1 else ast.BoolOp(ast.And(), list(g.ifs))
                        inner = ast.copy_location(ast.If(cond, [ret], []), s)
                    for n in ast.walk(g.target):
                        if isinstance(n, ast.Name):
                            n.ctx = ast.Store()
                    loop = ast.copy_location(ast.For(g.target, g.iter, [inner], [], lineno=s.lineno), s)
                    stmts[i:i + 1] = [loop, ast.copy_location(ast.Return(s.value.args[1]), s)]
                    i += 2
                    continue
            # N24b: `v = next((E for T in XS if C), None)` + `if v is not None: BODY` (v not used otherwise)
            #        -> `for T in XS: if C: v = E; BODY; break`
            nx = stmts[i + 1] if i + 1 < len(stmts) else None
            if (isinstance(s, ast.Assign) and len(s.targets) == 1 and isinstance(s.targets[0], ast.Name) and isinstance(s.value, ast.Call)
                    and isinstance(s.value.func, ast.Name) and s.value.func.id == 'next' and len(s.value.args) == 2 and not s.value.keywords
                    and isinstance(s.value.args[0], ast.GeneratorExp) and len(s.value.args[0].generators) == 1
                    and isinstance(s.value.args[1], ast.Constant) and s.value.args[1].value is None
                    and isinstance(nx, ast.If) and isinstance(nx.test, ast.Compare) and len(nx.test.ops) == 1
                    and isinstance(nx.test.ops[0], (ast.IsNot, ast.Is)) and isinstance(nx.test.left, ast.Name) and nx.test.left.id == s.targets[0].id
                    and isinstance(nx.test.comparators[0], ast.Constant) and nx.test.comparators[0].value is None
                    and not any(isinstance(n, ast.Name) and n.id == s.targets[0].id
                                for b in (nx.orelse if isinstance(nx.test.ops[0], ast.IsNot) else nx.body) for n in ast.walk(b))):
                v = s.targets[0].id
                found_body, missing_body = (nx.body, nx.orelse) if isinstance(nx.test.ops[0], ast.IsNot) else (nx.orelse, nx.body)
                if not found_body:
                    found_body = [ast.copy_location(ast.Pass(), nx)]
                ge = s.value.args[0]
                g = ge.generators[0]
                tv = {n.id for n in ast.walk(g.target) if isinstance(n, ast.Name)}
                inside = {id(n) for n in ast.walk(ge)}
                same = isinstance(ge.elt, ast.Name) and ge.elt.id == v
                clash = any(isinstance(n, ast.Name) and n.id in (tv - ({v} if same else set())) and id(n) not in inside for n in ast.walk(fn))
                in_if = {id(n) for n in ast.walk(nx)}
                other_uses = [n for n in ast.walk(fn) if isinstance(n, ast.Name) and n.id == v and id(n) not in in_if and id(n) not in inside
                              and n is not s.targets[0]]
                jumps = any(isinstance(n, (ast.Break, ast.Continue)) for b in nx.body + nx.orelse for n in ast.walk(b))
                if not clash and not other_uses and not jumps and not g.is_async:
                    import copy
                    body = list(found_body)
                    if isinstance(ge.elt, ast.Name):
                        # the found element simply *is* the loop variable
                        for b in body:
                            for n in [n for n in ast.walk(b) if isinstance(n, ast.Name) and n.id == v and isinstance(n.ctx, ast.Load)]:
                                _replace(b, n, ast.copy_location(ast.Name(ge.elt.id, ast.Load()), n))
                    else:
                        body = [ast.copy_location(ast.Assign([ast.Name(v, ast.Store())], ge.elt, lineno=s.lineno), s)] + body
                    if not isinstance(body[-1], (ast.Return, ast.Raise)):
                        body.append(ast.copy_location(ast.Break(), nx))
                    inner = body
                    if g.ifs:
                        cond = g.ifs[0] if len(g.ifs) == 1 else ast.BoolOp(ast.And(), list(g.ifs))
                        inner = [ast.copy_location(ast.If(cond, body, []), nx)]
                    for n in ast.walk(g.target):
                        if isinstance(n, ast.Name):
                            n.ctx = ast.Store()
                    stmts[i:i + 2] = [ast.copy_location(ast.For(g.target, g.iter, inner, list(missing_body), lineno=s.lineno), s)]
                    i += 1
                    continue
            for fld in ('body', 'orelse', 'finalbody'):
                v = getattr(s, fld, None)
                if isinstance(v, list) and v and isinstance(v[0], ast.stmt) and not isinstance(s, (ast.FunctionDef, ast.AsyncFunctionDef, ast.ClassDef)):
                    _Norm._next_to_loop(fn, v)
            for h in getattr(s, 'handlers', []) or []:
                _Norm._next_to_loop(fn, h.body)
            i += 1

    @staticmethod
    def _search_loops(fn, stmts, tail: bool):
        """N17: `if any(C for t in xs): S` (S ends in return/raise)  ->  `for t in xs: if C: S`;
        in tail position of a function, `if not any(C for t in xs): S`  ->  `for t in xs: if C: return` followed by S"""
        i = 0
        while i < len(stmts):
            s = stmts[i]
            last = tail and i == len(stmts) - 1
            if isinstance(s, ast.If):
                t, neg = s.test, False
                if isinstance(t, ast.UnaryOp) and isinstance(t.op, ast.Not):
                    t, neg = t.operand, True
                if (isinstance(t, ast.Call) and isinstance(t.func, ast.Name) and t.func.id == 'any' and len(t.args) == 1 and not t.keywords
                        and isinstance(t.args[0], (ast.GeneratorExp, ast.ListComp)) and len(t.args[0].generators) == 1
                        and not t.args[0].generators[0].is_async and not s.orelse and s.body
                        and isinstance(s.body[-1], (ast.Return, ast.Raise)) and (not neg or last)):
                    g = t.args[0].generators[0]
                    tv = {n.id for n in ast.walk(g.target) if isinstance(n, ast.Name)}
                    inside = {id(n) for n in ast.walk(t)}
                    clash = any(isinstance(n, ast.Name) and n.id in tv and id(n) not in inside for n in ast.walk(fn))
                    if not clash and not any(isinstance(n, (ast.Break, ast.Continue)) for b in s.body for n in ast.walk(b)):
                        cond = t.args[0].elt
                        for c in reversed(g.ifs):
                            cond = ast.copy_location(ast.BoolOp(ast.And(), [c, cond]), cond)
                        if not neg:
                            inner = ast.copy_location(ast.If(cond, s.body, []), s)
                            stmts[i] = ast.copy_location(ast.For(g.target, g.iter, [inner], [], lineno=s.lineno), s)
                        else:
                            inner = ast.copy_location(ast.If(cond, [ast.copy_location(ast.Return(None), s)], []), s)
                            stmts[i:i + 1] = [ast.copy_location(ast.For(g.target, g.iter, [inner], [], lineno=s.lineno), s)] + s.body
                        for n in ast.walk(g.target):
                            if isinstance(n, ast.Name):
                                n.ctx = ast.Store()
                        i += 1
                        continue
                _Norm._search_loops(fn, s.body, last)
                _Norm._search_loops(fn, s.orelse, last)
            elif isinstance(s, (ast.For, ast.While, ast.With, ast.Try)):
                for fld in ('body', 'orelse', 'finalbody'):
                    v = getattr(s, fld, None)
                    if isinstance(v, list):
                        _Norm._search_loops(fn, v, False)
                for h in getattr(s, 'handlers', []) or []:
                    _Norm._search_loops(fn, h.body, False)
            i += 1

    @staticmethod
    def _flag_to_for_else(fn, s: ast.Assign, loop: ast.For, after: ast.If) -> bool:
        f = s.targets[0].id
        names = [n for n in ast.walk(fn) if isinstance(n, ast.Name) and n.id == f]
        stores = [n for n in names if not isinstance(n.ctx, ast.Load)]
        loads = [n for n in names if isinstance(n.ctx, ast.Load)]
        # the test after the loop: `not f` or `A and not f` (any position)
        t = after.test
        parts = list(t.values) if isinstance(t, ast.BoolOp) and isinstance(t.op, ast.And) else [t]
        notf = [p for p in parts if isinstance(p, ast.UnaryOp) and isinstance(p.op, ast.Not) and isinstance(p.operand, ast.Name) and p.operand.id == f]
        if len(notf) != 1 or len(loads) != 1 or loads[0] is not notf[0].operand:
            return False
        # inside the loop: every `f = True` is directly followed by break; every break of this loop is directly preceded by `f = True`
        sets, breaks = [], []

        def scan(block, in_inner_loop):
            for k, st in enumerate(block):
                if isinstance(st, ast.Assign) and len(st.targets) == 1 and isinstance(st.targets[0], ast.Name) and st.targets[0].id == f:
                    if not (isinstance(st.value, ast.Constant) and st.value.value is True):
                        return False
                    # flag set, then (after anything that cannot leave the block) the block ends in break
                    if in_inner_loop or not isinstance(block[-1], ast.Break):
                        return False
                    sets.append(st)
                if isinstance(st, ast.Break) and not in_inner_loop:
                    breaks.append((block, st))
                if isinstance(st, (ast.Return, ast.Raise)):
                    pass
                for fld in ('body', 'orelse', 'finalbody'):
                    v = getattr(st, fld, None)
                    if isinstance(v, list) and v and isinstance(v[0], ast.stmt):
                        if not scan(v, in_inner_loop or isinstance(st, (ast.For, ast.While))):
                            return False
                for h in getattr(st, 'handlers', []) or []:
                    if not scan(h.body, in_inner_loop):
                        return False
            return True
        if not scan(loop.body, False) or not sets or len(stores) != len(sets) + 1:
            return False
        for block, b in breaks:
            if not any(any(x is st for x in block) for st in sets):
                return False
        for st in sets:
            for block, b in breaks:
                if any(x is st for x in block):
                    block.remove(st)
        rest = [p for p in parts if p is not notf[0]]
        if rest:
            cond = rest[0] if len(rest) == 1 else ast.copy_location(ast.BoolOp(ast.And(), rest), t)
            loop.orelse = [ast.copy_location(ast.If(cond, after.body, []), after)]
        else:
            loop.orelse = list(after.body)
        return True

    @staticmethod
    def _default_into_arms(fn, s: ast.Assign, cond: ast.If, use: ast.stmt) -> bool:
        import copy
        v = s.targets[0].id
        if _captured(fn, v):
            return False
        loads = [n for n in ast.walk(fn) if isinstance(n, ast.Name) and n.id == v and isinstance(n.ctx, ast.Load)]
        if len(loads) != 1 or not any(loads[0] is n for h in _head_exprs(use) for n in ast.walk(h)):
            return False
        inner = [n for n in ast.walk(cond) if isinstance(n, ast.Name) and n.id == v]
        if not inner or any(isinstance(n.ctx, ast.Load) for n in inner):
            return False
        all_stores = [n for n in ast.walk(fn) if isinstance(n, ast.Name) and n.id == v and not isinstance(n.ctx, ast.Load)]
        if len(all_stores) != len(inner) + 1:
            return False
        # the default must mean the same after the arms have run: its names are not re-bound and its attributes not stored in there
        dnames = {n.id for n in ast.walk(s.value) if isinstance(n, ast.Name)}
        dattrs = {n.attr for n in ast.walk(s.value) if isinstance(n, ast.Attribute)}
        for n in ast.walk(cond):
            if isinstance(n, ast.Name) and n.id in dnames and not isinstance(n.ctx, ast.Load):
                return False
            if isinstance(n, ast.Attribute) and n.attr in dattrs and isinstance(n.ctx, (ast.Store, ast.Del)):
                return False
        # every assignment to v sits in tail position
        tails = []

        def tail_positions(block):
            if not block:
                return
            last = block[-1]
            tails.append(last)
            if isinstance(last, ast.If):
                tail_positions(last.body)
                tail_positions(last.orelse)
        tails.append(cond)
        tail_positions(cond.body)
        tail_positions(cond.orelse)
        for n in ast.walk(cond):
            if isinstance(n, ast.Assign) and any(isinstance(x, ast.Name) and x.id == v for t in n.targets for x in ast.walk(t)):
                if not (len(n.targets) == 1 and isinstance(n.targets[0], ast.Name) and any(n is t for t in tails)):
                    return False
            elif isinstance(n, (ast.AugAssign, ast.AnnAssign, ast.For, ast.With, ast.NamedExpr)) and any(
                    isinstance(x, ast.Name) and x.id == v and not isinstance(x.ctx, ast.Load) for x in ast.walk(n)):
                return False

        def complete(block, loc):
            if block and isinstance(block[-1], ast.Assign) and isinstance(block[-1].targets[0], ast.Name) and block[-1].targets[0].id == v:
                return
            if block and isinstance(block[-1], (ast.Return, ast.Raise, ast.Continue, ast.Break)):
                return
            if block and isinstance(block[-1], ast.If):
                complete(block[-1].body, block[-1])
                complete(block[-1].orelse, block[-1])
                return
            block.append(ast.copy_location(ast.Assign([ast.Name(v, ast.Store())], copy.deepcopy(s.value), lineno=getattr(loc, 'lineno', 0)), loc))
        complete(cond.body, cond)
        complete(cond.orelse, cond)
        return True

    @staticmethod
    def _thread_total(fn, s: ast.If, nx: ast.If) -> bool:
        import copy
        t = nx.test
        if not (isinstance(t, ast.Compare) and len(t.ops) == 1 and isinstance(t.ops[0], (ast.Is, ast.IsNot)) and isinstance(t.left, ast.Name)
                and isinstance(t.comparators[0], ast.Constant) and t.comparators[0].value is None):
            return False
        v = t.left.id
        if _captured(fn, v) or any(isinstance(n, (ast.Break, ast.Continue)) for b in nx.body + nx.orelse for n in ast.walk(b)):
            return False
        none_arm, obj_arm = (nx.body, nx.orelse) if isinstance(t.ops[0], ast.Is) else (nx.orelse, nx.body)
        leaves = []

        def is_none(e):
            if isinstance(e, ast.Constant):
                return e.value is None
            if isinstance(e, (ast.JoinedStr, ast.Tuple, ast.List, ast.Dict, ast.Set)):
                return False
            if isinstance(e, ast.Name) and _is_yaml_child(fn, e.id):
                return False
            if isinstance(e, ast.Call) and isinstance(e.func, ast.Attribute) and e.func.attr in _NONNULL_RESULTS[0]:
                return False
            return None

        def collect(n: ast.If) -> bool:
            for arm in (n.body, n.orelse):
                if not arm:
                    return False
                last = arm[-1]
                if isinstance(last, ast.If):
                    if not collect(last):
                        return False
                elif isinstance(last, (ast.Return, ast.Raise)):
                    continue
                elif isinstance(last, ast.Assign) and len(last.targets) == 1 and isinstance(last.targets[0], ast.Name) \
                        and last.targets[0].id == v and is_none(last.value) is not None:
                    leaves.append((arm, is_none(last.value)))
                else:
                    return False
            return True
        if not collect(s) or not leaves:
            return False
        # v must not be bound anywhere else before (the selection is its only source)
        for arm, none in leaves:
            arm.extend(copy.deepcopy(b) for b in (none_arm if none else obj_arm))
        return True

    @staticmethod
    def _thread_guard(fn, s: ast.If, nx: ast.If):
        """`if a: ..; v = None  else: ..; v = e` + `if v is None: S` (S ends in return/raise)  ->  the leaf that binds the constant
        continues with S directly (and loses the then dead store); the guard stays for the other leaves"""
        import copy
        t = nx.test
        neg = False
        residual = None
        if isinstance(t, ast.BoolOp) and isinstance(t.op, ast.Or) and len(t.values) >= 2 and isinstance(t.values[0], ast.Compare) \
                and len(t.values[0].ops) == 1 and isinstance(t.values[0].ops[0], ast.Is) and isinstance(t.values[0].left, ast.Name) \
                and isinstance(t.values[0].comparators[0], ast.Constant) and t.values[0].comparators[0].value is None and not nx.orelse:
            # `if v is None or REST: S`: a leaf that binds None takes S, a leaf that binds an object is left with `if REST: S`
            residual = t.values[1] if len(t.values) == 2 else ast.BoolOp(ast.Or(), list(t.values[1:]))
            t = t.values[0]
        if isinstance(t, ast.UnaryOp) and isinstance(t.op, ast.Not):
            t, neg = t.operand, True
        if isinstance(t, ast.Name):
            v, decide = t.id, (lambda c: bool(c) != neg)
        elif (isinstance(t, ast.Compare) and len(t.ops) == 1 and isinstance(t.left, ast.Name)
              and isinstance(t.comparators[0], ast.Constant) and isinstance(t.ops[0], (ast.Is, ast.IsNot, ast.Eq, ast.NotEq))):
            v, k, op = t.left.id, t.comparators[0].value, t.ops[0]
            if isinstance(op, (ast.Is, ast.IsNot)) and not (k is None or isinstance(k, bool)):
                return

            def decide(c, k=k, op=op, neg=neg):
                same = (c is k) if (k is None or isinstance(k, bool) or c is None or isinstance(c, bool)) else (c == k and type(c) is type(k))
                return (same if isinstance(op, (ast.Is, ast.Eq)) else not same) != neg
        else:
            return
        if _captured(fn, v) or any(isinstance(n, (ast.Break, ast.Continue)) for b in nx.body for n in ast.walk(b)):
            return
        mentions = any(isinstance(n, ast.Name) and n.id == v for b in nx.body for n in ast.walk(b))

        class _NonNull:
            pass
        nonnull = _NonNull()

        def value_of(e):
            """(decidable, representative value) of a leaf's right-hand side: constants, and - for tests against None - expressions
            that are never None (string formatting, displays)"""
            if isinstance(e, ast.Constant):
                return True, e.value
            never_none = isinstance(e, (ast.JoinedStr, ast.Tuple, ast.List, ast.Dict, ast.Set, ast.ListComp, ast.DictComp, ast.SetComp)) or (
                isinstance(e, ast.Call) and isinstance(e.func, ast.Attribute) and e.func.attr in ('format', 'join')
                and isinstance(e.func.value, ast.Constant) and isinstance(e.func.value.value, str)) or (
                # a method of this module whose declared result is an object, never None (`def get_attribute(..) -> Node`)
                isinstance(e, ast.Call) and isinstance(e.func, ast.Attribute) and e.func.attr in _NONNULL_RESULTS[0])
            if not never_none and isinstance(e, ast.Name):
                never_none = _is_yaml_child(fn, e.id)
            if never_none and isinstance(t, ast.Compare) and t.comparators[0].value is None and isinstance(t.ops[0], (ast.Is, ast.IsNot)):
                return True, nonnull
            return False, None
        total = [True]

        def leaves(n: ast.If):
            for arm in (n.body, n.orelse):
                if not arm:
                    total[0] = False
                    continue
                last = arm[-1]
                if isinstance(last, ast.If):
                    leaves(last)
                elif isinstance(last, (ast.Return, ast.Raise)):
                    pass
                elif (isinstance(last, ast.Assign) and len(last.targets) == 1 and isinstance(last.targets[0], ast.Name)
                      and last.targets[0].id == v and value_of(last.value)[0]):
                    if decide(value_of(last.value)[1]):
                        new = [copy.deepcopy(b) for b in nx.body]
                        if mentions:
                            arm.extend(new)
                        else:
                            arm[-1:] = new
                    elif residual is not None:
                        arm.append(ast.copy_location(ast.If(copy.deepcopy(residual), [copy.deepcopy(b) for b in nx.body], []), nx))
                else:
                    total[0] = False
        leaves(s)
        # every path through the selection was decided: the guard itself is dead
        return total[0]

    @staticmethod
    def _sink_selector(fn, s: ast.If, nx: ast.stmt):
        """`if a: v = X  elif b: v = Y  else: v = Z` + `S(v)`  ->  `if a: S(X) elif b: S(Y) else: S(Z)`
        (X, Y, Z plain names / attribute chains / constants; v has no other use)"""
        import copy
        leaves = []

        def atom(e) -> bool:
            if isinstance(e, ast.Tuple):
                return all(isinstance(x, ast.Constant) or _is_chain(x) for x in e.elts)
            return isinstance(e, ast.Constant) or _is_chain(e)

        # a constructor-like call `K(a, b)` over plain operands may be sunk too when the consuming statement is itself one call
        # over plain operands (`R.add(k, v)`): nothing that could observe the order of evaluation lies between the two
        calls_nx = [c for c in ast.walk(nx) if isinstance(c, ast.Call)]
        plain_consumer = (len(calls_nx) == 1 and _is_chain(calls_nx[0].func) and not any(isinstance(a, ast.Starred) for a in calls_nx[0].args)
                          and all(atom(a) for a in calls_nx[0].args) and all(k.arg is not None and atom(k.value) for k in calls_nx[0].keywords)
                          and isinstance(nx, ast.Expr) and nx.value is calls_nx[0])

        # `for t in v: BODY` consuming the selected collection: each arm evaluates its collection and loops at once, whatever it is
        loop_consumer = isinstance(nx, ast.For) and isinstance(nx.iter, ast.Name) and not nx.orelse

        def simple(e) -> bool:
            if atom(e) or loop_consumer:
                return True
            return (plain_consumer and isinstance(e, ast.Call) and _is_chain(e.func) and not e.keywords
                    and all(atom(a) for a in e.args))

        def collect(n: ast.If) -> bool:
            # every arm ends (after whatever else it does) in a nested selection or in `v = simple value`
            for arm in (n.body, n.orelse):
                if not arm:
                    return False
                last = arm[-1]
                if isinstance(last, ast.If):
                    if not collect(last):
                        return False
                    continue
                if isinstance(last, (ast.Raise, ast.Return, ast.Continue, ast.Break)):
                    continue        # this arm leaves: the consumer does not run for it
                if not (isinstance(last, ast.Assign) and len(last.targets) == 1 and isinstance(last.targets[0], ast.Name)
                        and simple(last.value)):
                    return False
                leaves.append(arm)
            return True
        if not collect(s) or len(leaves) < 2:
            return None
        names = {arm[-1].targets[0].id for arm in leaves}
        if len(names) != 1:
            return None
        v = next(iter(names))
        if _captured(fn, v):
            return None
        loads = [n for n in ast.walk(fn) if isinstance(n, ast.Name) and n.id == v and isinstance(n.ctx, ast.Load)]
        stores = [n for n in ast.walk(fn) if isinstance(n, ast.Name) and n.id == v and not isinstance(n.ctx, ast.Load)]
        if len(loads) != 1 or len(stores) != len(leaves):
            return None
        if not any(loads[0] is n for h in _head_exprs(nx) for n in ast.walk(h)):
            return None
        if isinstance(nx, ast.For) and not (loop_consumer and loads[0] is nx.iter):
            return None
        for arm in leaves:
            val = arm[-1].value
            st = copy.deepcopy(nx)
            for n in ast.walk(st):
                if isinstance(n, ast.Name) and n.id == v and isinstance(n.ctx, ast.Load):
                    _replace(st, n, copy.deepcopy(val))
                    break
            ast.copy_location(st, arm[-1])
            arm[-1:] = [st]
        return s

    @staticmethod
    def _boolean_returns(stmts):
        """N14: `if T: return False` directly followed by `return E`  ->  `return (not T) and E`;
        `if T: return True` directly followed by `return E`  ->  `return T or E`   (E not a constant)"""
        out = list(stmts)
        changed = True
        while changed:
            changed = False
            for i in range(len(out) - 1):
                s, nx = out[i], out[i + 1]
                if (isinstance(s, ast.If) and not s.orelse and len(s.body) == 1 and isinstance(s.body[0], ast.Return)
                        and isinstance(s.body[0].value, ast.Constant) and isinstance(s.body[0].value.value, bool)
                        and isinstance(nx, ast.Return) and isinstance(nx.value, ast.Constant) and isinstance(nx.value.value, bool)
                        and nx.value.value is not s.body[0].value.value and _boolean_valued(s.test)):
                    # `if T: return True` + `return False` -> `return T`   (T is a comparison / isinstance / and-or of such)
                    t = s.test
                    if s.body[0].value.value is False:
                        t = _Norm().visit(ast.copy_location(ast.UnaryOp(ast.Not(), t), t))
                    out[i:i + 2] = [ast.copy_location(ast.Return(t), s)]
                    changed = True
                    break
                if (isinstance(s, ast.If) and not s.orelse and len(s.body) == 1 and isinstance(s.body[0], ast.Return)
                        and isinstance(s.body[0].value, ast.Constant) and isinstance(s.body[0].value.value, bool)
                        and isinstance(nx, ast.Return) and nx.value is not None and not isinstance(nx.value, ast.Constant)):
                    if s.body[0].value.value is False:
                        t = s.test.operand if isinstance(s.test, ast.UnaryOp) and isinstance(s.test.op, ast.Not) else \
                            ast.copy_location(ast.UnaryOp(ast.Not(), s.test), s.test)
                        t = _Norm().visit(t)
                        new = ast.BoolOp(ast.And(), [t, nx.value])
                    else:
                        new = ast.BoolOp(ast.Or(), [s.test, nx.value])
                    out[i:i + 2] = [ast.copy_location(ast.Return(ast.copy_location(new, s)), s)]
                    changed = True
                    break
        return out

    @staticmethod
    def _split_tuple_assignments(stmts):
        """N9: `a, b = x, y` -> `a = x; b = y` when no right-hand side mentions a target of the statement"""
        out = []
        for s in stmts:
            if (isinstance(s, ast.Assign) and len(s.targets) == 1 and isinstance(s.targets[0], ast.Tuple)
                    and isinstance(s.value, ast.Tuple) and len(s.targets[0].elts) == len(s.value.elts)
                    and all(isinstance(t, ast.Name) for t in s.targets[0].elts)):
                names = {t.id for t in s.targets[0].elts}
                if not any(isinstance(n, ast.Name) and n.id in names for v in s.value.elts for n in ast.walk(v)):
                    for t, v in zip(s.targets[0].elts, s.value.elts):
                        out.append(ast.copy_location(ast.Assign([t], v, lineno=s.lineno), s))
                    continue
            out.append(s)
        return out

    @staticmethod
    def _loops_to_comprehensions(fn, stmts):
        """N6: `v = []` directly followed by `for t in xs: [if c:] v.append(e)`  ->  `v = [e for t in xs if c]`"""
        out = []
        i = 0
        while i < len(stmts):
            s = stmts[i]
            nx = stmts[i + 1] if i + 1 < len(stmts) else None
            if (isinstance(s, ast.Assign) and len(s.targets) == 1 and isinstance(s.targets[0], ast.Name)
                    and _is_empty_list(s.value) and isinstance(nx, ast.For) and not nx.orelse):
                v = s.targets[0].id
                conds = []
                body = nx.body
                while len(body) == 1 and isinstance(body[0], ast.If) and not body[0].orelse:
                    conds.append(body[0].test)
                    body = body[0].body
                # N6b: `v.extend(E)` in the loop -> one more generator: [m for t in xs if c for m in E]
                if (len(body) == 1 and isinstance(body[0], ast.Expr) and isinstance(body[0].value, ast.Call)
                        and isinstance(body[0].value.func, ast.Attribute) and body[0].value.func.attr == 'extend'
                        and isinstance(body[0].value.func.value, ast.Name) and body[0].value.func.value.id == v
                        and len(body[0].value.args) == 1 and not body[0].value.keywords):
                    src = body[0].value.args[0]
                    mentions = any(isinstance(n, ast.Name) and n.id == v for x in [src, nx.iter, nx.target] + conds for n in ast.walk(x))
                    used = {n.id for n in ast.walk(fn) if isinstance(n, ast.Name)}
                    free_names = [nm for nm in ('m', 'each', 'elem', 'm_') if nm not in used]
                    if not mentions and free_names:
                        mv = free_names[0]
                        comp = ast.ListComp(ast.Name(mv, ast.Load()), [ast.comprehension(nx.target, nx.iter, conds, 0),
                                                                        ast.comprehension(ast.Name(mv, ast.Store()), src, [], 0)])
                        out.append(ast.copy_location(ast.Assign([ast.Name(v, ast.Store())], ast.copy_location(comp, nx)), nx))
                        i += 2
                        continue
                if (len(body) == 1 and isinstance(body[0], ast.Expr) and isinstance(body[0].value, ast.Call)
                        and isinstance(body[0].value.func, ast.Attribute) and body[0].value.func.attr == 'append'
                        and isinstance(body[0].value.func.value, ast.Name) and body[0].value.func.value.id == v
                        and len(body[0].value.args) == 1 and not body[0].value.keywords):
                    elt = body[0].value.args[0]
                    mentions = any(isinstance(n, ast.Name) and n.id == v for x in [elt, nx.iter, nx.target] + conds for n in ast.walk(x))
                    if not mentions:
                        comp = ast.ListComp(elt, [ast.comprehension(nx.target, nx.iter, conds, 0)])
                        out.append(ast.copy_location(ast.Assign([ast.Name(v, ast.Store())], ast.copy_location(comp, nx)), nx))
                        i += 2
                        continue
            out.append(s)
            i += 1
        return out


def _boolean_valued(e: ast.AST) -> bool:
    """expressions whose value is True or False whatever their operands are"""
    if isinstance(e, ast.Compare):
        return all(isinstance(o, (ast.Is, ast.IsNot, ast.In, ast.NotIn)) for o in e.ops) or all(
            isinstance(x, (ast.Constant, ast.Name, ast.Attribute, ast.Call, ast.Subscript)) for x in [e.left] + e.comparators)
    if isinstance(e, ast.UnaryOp) and isinstance(e.op, ast.Not):
        return True
    if isinstance(e, ast.BoolOp):
        return all(_boolean_valued(v) for v in e.values)
    if isinstance(e, ast.Call) and isinstance(e.func, ast.Name) and e.func.id in ('isinstance', 'issubclass', 'hasattr', 'callable', 'bool', 'any', 'all'):
        return True
    return False


def _is_chain(e: ast.AST) -> bool:
    while isinstance(e, ast.Attribute):
        e = e.value
    return isinstance(e, ast.Name)


def _is_empty_list(e: ast.AST) -> bool:
    return (isinstance(e, ast.List) and not e.elts) or (isinstance(e, ast.Call) and isinstance(e.func, ast.Name)
                                                        and e.func.id == 'list' and not e.args and not e.keywords)


def _head_exprs(st: ast.stmt):
    """the expressions a statement evaluates before anything else of it runs"""
    if isinstance(st, (ast.If, ast.While)):
        return [st.test]
    if isinstance(st, ast.Return) and st.value is not None:
        return [st.value]
    if isinstance(st, ast.Expr):
        return [st.value]
    if isinstance(st, ast.Assign):
        return [st.value]
    if isinstance(st, ast.AnnAssign) and st.value is not None:
        return [st.value]
    if isinstance(st, ast.For):
        return [st.iter]
    if isinstance(st, ast.Raise) and st.exc is not None:
        return [st.exc]
    return []


def _replace(root: ast.AST, old: ast.AST, new: ast.AST):
    for n in ast.walk(root):
        for name, value in ast.iter_fields(n):
            if value is old:
                setattr(n, name, new)
                return
            if isinstance(value, list):
                for k, x in enumerate(value):
                    if x is old:
                        value[k] = new
                        return


def _literal(e: ast.AST, names_ok: bool = True) -> bool:
    if isinstance(e, ast.Constant):
        return True
    if isinstance(e, (ast.Tuple, ast.List, ast.Set)):
        # a display of literals, or of plain (dotted) names - classes, enum members - collected under one constant name
        return all(_literal(x, names_ok) or (names_ok and _is_chain(x)) for x in e.elts)
    if isinstance(e, ast.Call) and isinstance(e.func, ast.Name) and e.func.id in ('frozenset', 'tuple', 'set') and len(e.args) <= 1 \
            and not e.keywords:
        return all(_literal(x) for x in e.args)
    if isinstance(e, ast.Call) and isinstance(e.func, ast.Name) and e.func.id == 'type' and len(e.args) == 1 \
            and isinstance(e.args[0], ast.Constant) and e.args[0].value is None:
        return True         # type(None)
    if isinstance(e, ast.JoinedStr):
        return all(isinstance(v, ast.Constant) for v in e.values)
    if isinstance(e, ast.BinOp) and isinstance(e.op, ast.Add):
        return _literal(e.left) and _literal(e.right)
    return False


def _subst(e: ast.AST, binds) -> ast.AST:
    import copy

    class T(ast.NodeTransformer):
        def visit_Name(self, n):
            if isinstance(n.ctx, ast.Load) and n.id in binds:
                return ast.copy_location(copy.deepcopy(binds[n.id]), n)
            return n
    return T().visit(e)


def _key_dump(e: ast.AST) -> str:
    return ast.dump(e).replace('ctx=Store()', 'ctx=Load()')


def _fold(e: ast.AST, tables=None) -> ast.AST:
    """constant folding of string expressions: 'a' + 'b', 'sep'.join(('a', 'b')), '{}x'.format('a'), f-strings without
    holes; `TABLE[key]` for a module-level dict display TABLE (own or imported, never modified) whose key is spelt like `key`"""
    tables = tables or {}

    def s_(n):
        return n.value if isinstance(n, ast.Constant) and isinstance(n.value, str) else None

    class T(ast.NodeTransformer):
        def visit_BinOp(self, n):
            self.generic_visit(n)
            if isinstance(n.op, ast.Add) and s_(n.left) is not None and s_(n.right) is not None:
                return ast.copy_location(ast.Constant(n.left.value + n.right.value), n)
            return n

        def visit_JoinedStr(self, n):
            self.generic_visit(n)
            parts = []
            for v in n.values:
                if isinstance(v, ast.FormattedValue) and v.conversion == -1 and v.format_spec is None and s_(v.value) is not None:
                    parts.append(v.value.value)
                elif s_(v) is not None:
                    parts.append(v.value)
                else:
                    return n
            return ast.copy_location(ast.Constant(''.join(parts)), n)

        def visit_Call(self, n):
            self.generic_visit(n)
            f = n.func
            if isinstance(f, ast.Attribute) and s_(f.value) is not None and not n.keywords:
                if f.attr == 'join' and len(n.args) == 1 and isinstance(n.args[0], (ast.Tuple, ast.List)) \
                        and all(s_(x) is not None for x in n.args[0].elts):
                    return ast.copy_location(ast.Constant(f.value.value.join(x.value for x in n.args[0].elts)), n)
                if f.attr == 'format' and n.args and all(s_(x) is not None for x in n.args):
                    try:
                        return ast.copy_location(ast.Constant(f.value.value.format(*[x.value for x in n.args])), n)
                    except Exception:
                        return n
            return n

        def visit_Subscript(self, n):
            self.generic_visit(n)
            if isinstance(n.ctx, ast.Load) and isinstance(n.value, ast.Name) and n.value.id in tables:
                d = tables[n.value.id]
                want = _key_dump(n.slice)
                hits = [v for k, v in zip(d.keys, d.values) if k is not None and _key_dump(k) == want]
                if len(hits) == 1 and _literal(hits[0], names_ok=False):
                    import copy
                    return ast.copy_location(copy.deepcopy(hits[0]), n)
            return n
    return T().visit(e)


def module_constant_binds(tree: ast.Module, ext=None):
    """(binds, tables): module-level names bound exactly once to a literal (N8), resolved through constants defined from other
    constants - including those imported from other yatiml modules (`ext`: local name -> value) - and the dict displays that may
    be looked up at analysis time"""
    import copy
    import re as _re
    ext = ext or {}
    binds = {}
    counts = {}
    for st in tree.body:
        tgts = []
        if isinstance(st, ast.Assign):
            tgts = [t for t in st.targets]
            val = st.value
        elif isinstance(st, ast.AnnAssign) and st.value is not None:
            tgts = [st.target]
            val = st.value
        for t in tgts:
            for x in ast.walk(t):
                if isinstance(x, ast.Name):
                    counts[x.id] = counts.get(x.id, 0) + 1
            if isinstance(t, ast.Name) and _literal(val) and _re.match(r'^(_\w+|[A-Z][A-Z0-9_]*)$', t.id) and not t.id.startswith('__'):
                binds[t.id] = val
    # any other store of the name anywhere (global statements, loops at module level) disqualifies it
    for n in ast.walk(tree):
        if isinstance(n, ast.Global):
            for nm in n.names:
                binds.pop(nm, None)
    binds = {k: v for k, v in binds.items() if counts.get(k) == 1}
    tables = {}
    for st in tree.body:
        if isinstance(st, ast.Assign) and len(st.targets) == 1 and isinstance(st.targets[0], ast.Name) and isinstance(st.value, ast.Dict) \
                and counts.get(st.targets[0].id) == 1 and st.value.keys and not _table_modified(tree, st.targets[0].id):
            tables[st.targets[0].id] = st.value
    for nm, v in ext.items():
        if counts.get(nm):
            continue
        if isinstance(v, ast.Dict):
            tables[nm] = v
        else:
            binds[nm] = v
    # constants defined from other constants (_STR_TAG = _PREFIX + 'str'): resolve to a fixpoint, folding string concatenation
    cand = {}
    for st in tree.body:
        if isinstance(st, ast.Assign) and len(st.targets) == 1 and isinstance(st.targets[0], ast.Name) \
                and counts.get(st.targets[0].id) == 1 and _re.match(r'^(_\w+|[A-Z][A-Z0-9_]*)$', st.targets[0].id) \
                and not st.targets[0].id.startswith('__') and st.targets[0].id not in binds:
            cand[st.targets[0].id] = st
    for _ in range(4):
        progress = False
        for nm, st in list(cand.items()):
            v = _fold(_subst(copy.deepcopy(st.value), binds), tables)
            if _literal(v):
                binds[nm] = v
                del cand[nm]
                progress = True
        if not progress:
            break
    binds = {k: _fold(v, tables) for k, v in binds.items()}
    # a table whose values are defined from constants: fold them too
    for nm, d in list(tables.items()):
        if nm not in ext:
            d2 = copy.deepcopy(d)
            d2.values = [_fold(_subst(v, binds), tables) for v in d2.values]
            tables[nm] = d2
    return binds, tables


def _table_modified(tree: ast.AST, name: str) -> bool:
    for n in ast.walk(tree):
        if isinstance(n, ast.Subscript) and isinstance(n.ctx, (ast.Store, ast.Del)) and isinstance(n.value, (ast.Name, ast.Attribute)) \
                and (n.value.id if isinstance(n.value, ast.Name) else n.value.attr) == name:
            return True
        if isinstance(n, ast.Call) and isinstance(n.func, ast.Attribute) and n.func.attr in (
                'update', 'pop', 'popitem', 'clear', 'setdefault', '__setitem__', '__delitem__') \
                and isinstance(n.func.value, (ast.Name, ast.Attribute)) \
                and (n.func.value.id if isinstance(n.func.value, ast.Name) else n.func.value.attr) == name:
            return True
    return False


def module_exports(tree: ast.Module, ext=None):
    """what other modules may fold when they import a name from this one: its literal constants and its unmodified dict displays"""
    binds, tables = module_constant_binds(tree, ext)
    out = dict(binds)
    for nm, d in tables.items():
        if nm not in (ext or {}):
            out[nm] = d
    return out


def strip_casts(tree: ast.Module) -> ast.Module:
    """N21, applied before anything else looks at the tree: `cast(T, e)` / `typing.cast(T, e)` is `e`"""
    class T(ast.NodeTransformer):
        def visit_Call(self, n):
            self.generic_visit(n)
            if len(n.args) == 2 and not n.keywords and ((isinstance(n.func, ast.Name) and n.func.id == 'cast') or (
                    isinstance(n.func, ast.Attribute) and n.func.attr == 'cast' and isinstance(n.func.value, ast.Name)
                    and n.func.value.id in ('typing', 'typing_extensions'))):
                return n.args[1]
            return n
    return T().visit(tree)


def propagate_module_constants(tree: ast.Module, ext=None) -> ast.Module:
    """N8: a module-level name that is bound exactly once, to a literal (string, number, tuple/set of literals), and whose spelling
    marks it as a constant (_private or ALL_CAPS) is replaced by the literal wherever it is read and not shadowed; a lookup
    `TABLE[key]` in an unmodified module-level dict display with that very key is replaced by the value"""
    import copy
    binds, tables = module_constant_binds(tree, ext)
    if not binds and not tables:
        return tree

    class _Sub(ast.NodeTransformer):
        def __init__(self):
            self.shadow = [set()]

        def _scope(self, n):
            local = set()
            a = getattr(n, 'args', None)
            if a is not None:
                local |= {x.arg for x in a.posonlyargs + a.args + a.kwonlyargs + [y for y in (a.vararg, a.kwarg) if y]}
            for x in ast.walk(n):
                if isinstance(x, ast.Name) and isinstance(x.ctx, (ast.Store, ast.Del)):
                    local.add(x.id)
            self.shadow.append(self.shadow[-1] | local)
            self.generic_visit(n)
            self.shadow.pop()
            return n

        visit_FunctionDef = _scope
        visit_AsyncFunctionDef = _scope
        visit_Lambda = _scope

        def visit_Name(self, n):
            if isinstance(n.ctx, ast.Load) and n.id in binds and n.id not in self.shadow[-1]:
                inner = {x.id for x in ast.walk(binds[n.id]) if isinstance(x, ast.Name)}
                if inner & self.shadow[-1]:
                    return n            # a name inside the constant's value means something else here
                return ast.copy_location(copy.deepcopy(binds[n.id]), n)
            return n

        def visit_Subscript(self, n):
            self.generic_visit(n)
            if isinstance(n.ctx, ast.Load) and isinstance(n.value, ast.Name) and n.value.id in tables \
                    and n.value.id not in self.shadow[-1]:
                return _fold(n, tables)
            return n

        def visit_BinOp(self, n):
            self.generic_visit(n)
            return _fold(n) if isinstance(n.op, ast.Add) else n

    new_body = []
    sub = _Sub()
    for st in tree.body:
        if isinstance(st, (ast.FunctionDef, ast.AsyncFunctionDef, ast.ClassDef)):
            new_body.append(sub.visit(st))
        elif isinstance(st, (ast.For, ast.Expr, ast.If)):
            new_body.append(sub.visit(st))      # module-level registration code reads the constants too
        elif isinstance(st, (ast.Assign, ast.AnnAssign)) and st.value is not None and not (
                isinstance(st, ast.Assign) and len(st.targets) == 1 and isinstance(st.targets[0], ast.Name) and st.targets[0].id in binds):
            st.value = sub.visit(st.value)      # tables built from the constants (scalar_type_to_tag = {str: _STR_TAG, ..})
            new_body.append(st)
        else:
            new_body.append(st)
    tree.body = new_body
    return tree


def unroll_display_loops(tree: ast.Module) -> ast.Module:
    """N11: `for v in (A, B, ..): BODY` over a display of at most 8 plain names / literals, BODY free of break/continue and of
    stores to v, becomes BODY[v:=A]; BODY[v:=B]; .."""
    import copy

    def unroll(stmts):
        out = []
        for s in stmts:
            for fld in ('body', 'orelse', 'finalbody'):
                v = getattr(s, fld, None)
                if isinstance(v, list) and v and isinstance(v[0], ast.stmt) and not isinstance(s, (ast.FunctionDef, ast.AsyncFunctionDef, ast.ClassDef)):
                    setattr(s, fld, unroll(v))
            if isinstance(s, (ast.FunctionDef, ast.AsyncFunctionDef, ast.ClassDef)):
                s.body = unroll(s.body)
            for h in getattr(s, 'handlers', []) or []:
                h.body = unroll(h.body)
            if (isinstance(s, ast.For) and isinstance(s.target, ast.Name) and isinstance(s.iter, (ast.Tuple, ast.List))
                    and 0 < len(s.iter.elts) <= 8 and not s.orelse
                    and all(isinstance(x, ast.Constant) or _is_chain(x) for x in s.iter.elts)
                    and not any(isinstance(n, (ast.Break, ast.Continue)) for b in s.body for n in ast.walk(b))
                    and not any(isinstance(n, ast.Name) and n.id == s.target.id and not isinstance(n.ctx, ast.Load)
                                for b in s.body for n in ast.walk(b))):
                for el in s.iter.elts:
                    for b in s.body:
                        out.append(_subst(copy.deepcopy(b), {s.target.id: el}))
                continue
            out.append(s)
        return out
    tree.body = unroll(tree.body)
    return tree


def _compute_nonnull_results(tree: ast.Module):
    out, seen_other = set(), set()
    for fn in [n for n in ast.walk(tree) if isinstance(n, ast.FunctionDef)]:
        r = fn.returns
        plain = isinstance(r, (ast.Name, ast.Attribute)) and ast.unparse(r) not in ('None', 'Any', 'object') or (
            isinstance(r, ast.Constant) and isinstance(r.value, str) and r.value not in ('None',) and 'Optional' not in r.value)
        if plain and ast.unparse(r).strip("'") in ('Node', 'UnknownNode', 'yaml.Node'):
            out.add(fn.name)
        else:
            seen_other.add(fn.name)
    _NONNULL_RESULTS[0] = out - seen_other


_SENTINELS: set = set()


def _compute_sentinels(tree: ast.Module):
    """module-level `NAME = object()` bound once: a value nothing else can be identical to"""
    _SENTINELS.clear()
    stores = [n.id for n in ast.walk(tree) if isinstance(n, ast.Name) and not isinstance(n.ctx, ast.Load)]
    for st in tree.body:
        if isinstance(st, ast.Assign) and len(st.targets) == 1 and isinstance(st.targets[0], ast.Name) and isinstance(st.value, ast.Call) \
                and isinstance(st.value.func, ast.Name) and st.value.func.id == 'object' and not st.value.args and not st.value.keywords \
                and stores.count(st.targets[0].id) == 1:
            _SENTINELS.add(st.targets[0].id)


def normalize(tree: ast.Module, ext=None) -> ast.Module:
    _compute_mutable_attrs(tree)
    _compute_sentinels(tree)
    _compute_nonnull_results(tree)
    tree = propagate_module_constants(tree, ext)
    from .normalize2 import pre_normalize
    tree = pre_normalize(tree)
    tree = unroll_display_loops(tree)
    tree = _Norm().visit(tree)
    # a second pass: folding temporaries (N5) and boolean returns (N14) exposes new instances of the expression-level rewrites
    tree = pre_normalize(tree)
    tree = unroll_display_loops(tree)
    tree = _Norm().visit(tree)
    from .normalize2 import late_rewrites
    if late_rewrites(tree):
        ast.fix_missing_locations(tree)
        tree = pre_normalize(tree)
        tree = _Norm().visit(tree)
    tree = _DoubleNot().visit(tree)
    tree = unroll_display_loops(tree)       # display loops that the last pass exposed (nested generator fusion)
    ast.fix_missing_locations(tree)
    return tree


class _DoubleNot(ast.NodeTransformer):
    """`not not x` in a test position (if / while / conditional expression / operand of and, or, not) is x"""

    @staticmethod
    def _strip(e):
        while isinstance(e, ast.UnaryOp) and isinstance(e.op, ast.Not) and isinstance(e.operand, ast.UnaryOp) \
                and isinstance(e.operand.op, ast.Not):
            e = e.operand.operand
        return e

    def visit_If(self, n):
        self.generic_visit(n)
        n.test = self._strip(n.test)
        return n

    visit_While = visit_If
    visit_IfExp = visit_If

    def visit_BoolOp(self, n):
        self.generic_visit(n)
        n.values = [self._strip(v) for v in n.values]
        return n

    def visit_UnaryOp(self, n):
        self.generic_visit(n)
        if isinstance(n.op, ast.Not):
            n.operand = self._strip(n.operand)
        return n
