"""Canonical form of yatiml's syntax trees, applied before any rule looks at them.

Rules are phrased over this canonical form so that behaviour-preserving respellings do not reach them:

 N1  `v = e` immediately followed by `return v` (v not captured by a nested def) ->  `return e`
 N2  `not (a OP b)`  ->  `a NEGOP b`   (==/!=, is/is not, in/not in, </>=, >/<=);  `not not x` in a test position -> `x`
     `CONST == x` / `CONST != x`  ->  `x == CONST` / `x != CONST`
 N3  `if not T: A else: B`  ->  `if T: B else: A`;  `if a != b: A else: B` -> `if a == b: B else: A`
     (likewise `is not`, `not in`), for statements with a non-empty else and for conditional expressions
 N4  an `else: pass` arm is dropped

Positions (lineno) are kept from the original nodes so that reports still point into the file.
"""
import ast
from typing import List

NEG = {ast.Eq: ast.NotEq, ast.NotEq: ast.Eq, ast.Is: ast.IsNot, ast.IsNot: ast.Is, ast.In: ast.NotIn, ast.NotIn: ast.In,
       ast.Lt: ast.GtE, ast.GtE: ast.Lt, ast.Gt: ast.LtE, ast.LtE: ast.Gt}
NEGATIVE = (ast.NotEq, ast.IsNot, ast.NotIn)


def _captured(fn: ast.AST, name: str) -> bool:
    """is `name` mentioned inside a nested def/lambda/class of fn (a possible closure capture)?"""
    for n in ast.walk(fn):
        if n is not fn and isinstance(n, (ast.FunctionDef, ast.AsyncFunctionDef, ast.Lambda, ast.ClassDef)):
            if any(isinstance(x, ast.Name) and x.id == name for x in ast.walk(n)):
                return True
    return False


class _Norm(ast.NodeTransformer):
    def __init__(self):
        self.fn_stack: List[ast.AST] = []

    # ---- N2 ------------------------------------------------------------------------------------
    def visit_UnaryOp(self, n: ast.UnaryOp):
        self.generic_visit(n)
        if isinstance(n.op, ast.Not):
            o = n.operand
            if isinstance(o, ast.Compare) and len(o.ops) == 1 and type(o.ops[0]) in NEG:
                return ast.copy_location(ast.Compare(o.left, [NEG[type(o.ops[0])]()], o.comparators), n)
            if isinstance(o, ast.UnaryOp) and isinstance(o.op, ast.Not) and isinstance(
                    o.operand, (ast.Compare, ast.BoolOp)):
                return o.operand
        return n

    def visit_Compare(self, n: ast.Compare):
        self.generic_visit(n)
        if (len(n.ops) == 1 and isinstance(n.ops[0], (ast.Eq, ast.NotEq)) and isinstance(n.left, ast.Constant)
                and not isinstance(n.comparators[0], ast.Constant)):
            return ast.copy_location(ast.Compare(n.comparators[0], n.ops, [n.left]), n)
        return n

    # ---- N3 ------------------------------------------------------------------------------------
    @staticmethod
    def _positive(test: ast.expr):
        """(positive form, True) if `test` is a negative spelling, else (test, False)"""
        if isinstance(test, ast.UnaryOp) and isinstance(test.op, ast.Not):
            return test.operand, True
        if isinstance(test, ast.Compare) and len(test.ops) == 1 and isinstance(test.ops[0], NEGATIVE):
            return ast.copy_location(ast.Compare(test.left, [NEG[type(test.ops[0])]()], test.comparators), test), True
        return test, False

    def visit_If(self, n: ast.If):
        self.generic_visit(n)
        if len(n.orelse) == 1 and isinstance(n.orelse[0], ast.Pass):
            n.orelse = []
        if n.orelse:
            t, swapped = self._positive(n.test)
            if swapped:
                n.test, n.body, n.orelse = t, n.orelse, n.body
        return n

    def visit_IfExp(self, n: ast.IfExp):
        self.generic_visit(n)
        t, swapped = self._positive(n.test)
        if swapped:
            n.test, n.body, n.orelse = t, n.orelse, n.body
        return n

    # ---- N1 ------------------------------------------------------------------------------------
    def _visit_fn(self, n):
        self.fn_stack.append(n)
        self.generic_visit(n)
        self.fn_stack.pop()
        self._fold_blocks(n, n)
        return n

    visit_FunctionDef = _visit_fn
    visit_AsyncFunctionDef = _visit_fn

    def _fold_blocks(self, fn, node):
        for fld in ('body', 'orelse', 'finalbody', 'handlers'):
            v = getattr(node, fld, None)
            if not isinstance(v, list):
                continue
            if v and isinstance(v[0], ast.stmt):
                setattr(node, fld, self._fold(fn, v))
            for c in getattr(node, fld):
                if not isinstance(c, (ast.FunctionDef, ast.AsyncFunctionDef, ast.ClassDef)):
                    self._fold_blocks(fn, c)

    def _fold(self, fn, stmts):
        out = []
        i = 0
        while i < len(stmts):
            s = stmts[i]
            nx = stmts[i + 1] if i + 1 < len(stmts) else None
            if (isinstance(s, ast.Assign) and len(s.targets) == 1 and isinstance(s.targets[0], ast.Name)
                    and isinstance(nx, ast.Return) and isinstance(nx.value, ast.Name)
                    and nx.value.id == s.targets[0].id and not _captured(fn, s.targets[0].id)):
                out.append(ast.copy_location(ast.Return(s.value), s))
                i += 2
                continue
            out.append(s)
            i += 1
        return out


def normalize(tree: ast.Module) -> ast.Module:
    tree = _Norm().visit(tree)
    ast.fix_missing_locations(tree)
    return tree
