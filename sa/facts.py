"""Repository-specific fact extractors shared by the rule modules."""
import ast
from typing import Callable, Dict, List, Optional, Set, Tuple

from .model import AnalysisError, FunctionInfo, Program, walk_function, parent, ancestors
from .cfg import CFG, conj_atoms, expr_guards
from .guards import (Alpha, Copies, norm, card_admitted, name_subject, isinstance_atom, known_instance,
                     tag_equalities, call_name, const_str, Unknown, card_eval, CARD)

MUTATORS = {'append', 'extend', 'insert', 'pop', 'remove', 'clear', 'update', 'setdefault', 'popitem', 'sort',
            'reverse', 'move_to_end', 'add', 'discard', 'difference_update', 'intersection_update',
            'symmetric_difference_update', 'appendleft', 'popleft'}

CORE = 'tag:yaml.org,2002:'


class Fn:
    """A function with its CFG, copies and convenience queries."""

    def __init__(self, fi: FunctionInfo):
        self.fi = fi
        self.node = fi.node
        self.cfg: CFG = fi.cfg()
        self.copies = Copies(fi.node)
        self.alpha = Alpha(fi.node)
        self._changes: Dict[str, Set[int]] = {}

    def key(self, what: str = '') -> str:
        return '%s:%s' % (self.fi.key, what) if what else self.fi.key

    def loc(self, n: Optional[ast.AST] = None) -> str:
        return self.fi.loc(n)

    def walk(self):
        return walk_function(self.node)

    def calls(self, name: str) -> List[ast.Call]:
        return [n for n in self.walk() if isinstance(n, ast.Call) and call_name(n) == name]

    def nid(self, a: ast.AST) -> Optional[int]:
        return self.cfg.node_of(a)

    def first_nid(self, st: ast.AST) -> Optional[int]:
        """cfg node at which execution of statement `st` starts (the statement itself, or its first evaluated part)"""
        for n in ast.walk(st):
            if id(n) in self.cfg.owner:
                return self.cfg.owner[id(n)]
        return None

    def live(self, a: ast.AST) -> bool:
        n = self.nid(a)
        return n is not None and n in self.cfg.live()

    # ---- guards ---------------------------------------------------------------------------------
    def changes_of(self, var: str) -> Set[int]:
        """cfg nodes that (re)bind or mutate the local `var`"""
        if var in self._changes:
            return self._changes[var]
        out = set()
        for n in self.walk():
            hit = False
            if isinstance(n, ast.Name) and n.id == var and isinstance(n.ctx, (ast.Store, ast.Del)):
                # comprehension targets live in their own scope
                if any(isinstance(a, ast.comprehension) for a in [parent(n)] if a is not None):
                    continue
                hit = True
            elif isinstance(n, ast.Call) and isinstance(n.func, ast.Attribute) and n.func.attr in MUTATORS \
                    and isinstance(n.func.value, ast.Name) and n.func.value.id == var:
                hit = True
            elif isinstance(n, ast.Subscript) and isinstance(n.ctx, (ast.Store, ast.Del)) \
                    and isinstance(n.value, ast.Name) and n.value.id == var:
                hit = True
            if hit:
                nid = self.nid(n)
                if nid is not None:
                    out.add(nid)
        self._changes[var] = out
        return out

    def guards(self, a: ast.AST, stable_vars: Optional[List[str]] = None) -> List[Tuple[ast.AST, bool]]:
        """Atoms known to hold where expression/statement `a` is evaluated: dominating branches (dropping a branch
        when one of the locals it mentions is re-bound or mutated between the branch and `a`) plus the
        expression-level context (IfExp arms, short-circuit operands, comprehension filters)."""
        nid = self.nid(a)
        out: List[Tuple[ast.AST, bool]] = []
        if nid is not None:
            for b in self.cfg.guard_nodes(nid):
                names = {x.id for x in ast.walk(b.ast) if isinstance(x, ast.Name)}
                between = None
                stale = False
                for v in names:
                    ch = self.changes_of(v)
                    if not ch:
                        continue
                    if between is None:
                        between = self.cfg.between(b.id, nid)
                    if ch & between:
                        stale = True
                        break
                if not stale:
                    out += conj_atoms(b.ast, b.pol)
        out += expr_guards(a)
        out += self._loop_facts(a, nid)
        return out

    def _loop_facts(self, a: ast.AST, nid) -> List[Tuple[ast.AST, bool]]:
        """Inside `for T in L: ..` the collection L is not empty.  Together with an earlier guard clause `if L and P: <leave>` that was
        not taken (a check hoisted out of the loop: "if there is anything to do and P, give up") this gives `not P` in the loop body."""
        out: List[Tuple[ast.AST, bool]] = []
        if nid is None:
            return out
        loops = [l for l in enclosing_loops(a, self.node) if isinstance(l, ast.For) and isinstance(l.iter, ast.Name)]
        for lo in loops:
            L = lo.iter.id
            if len([n for n in self.walk() if isinstance(n, ast.Name) and n.id == L and not isinstance(n.ctx, ast.Load)]) != 1:
                continue
            ln = self.nid(lo.iter)
            if ln is None:
                ln = self.first_nid(lo)
            for st in self.walk():
                if not (isinstance(st, ast.If) and not st.orelse and st.body and isinstance(st.body[-1], (ast.Raise, ast.Return))
                        and isinstance(st.test, ast.BoolOp) and isinstance(st.test.op, ast.And) and len(st.test.values) == 2):
                    continue
                vals = st.test.values
                idx = [i for i, v in enumerate(vals) if isinstance(v, ast.Name) and v.id == L]
                if len(idx) != 1:
                    continue
                cands = [self.cfg.owner[id(n)] for n in ast.walk(st.test) if id(n) in self.cfg.owner]
                cands = [c_ for c_ in cands if ln is not None and self.cfg.dominates(c_, ln)]
                if not cands:
                    continue
                sn = cands[0]
                other = vals[1 - idx[0]]
                names = {x.id for x in ast.walk(other) if isinstance(x, ast.Name)}
                if any(self.changes_of(v) & self.cfg.between(sn, nid) for v in names if self.changes_of(v)):
                    continue
                out += conj_atoms(other, False)
        return out

    def card(self, a: ast.AST, var: str) -> Set[int]:
        """admitted len(var) in {0,1,2,3} (2,3 = '>= 2') where `a` is evaluated"""
        return card_admitted(self.guards(a), name_subject(var))

    def has_guard(self, a: ast.AST, text: str, pol: bool = True, expand: bool = True) -> bool:
        from .guards import canon_atom
        try:
            want = canon_atom(ast.parse(text, mode='eval').body, pol)
        except SyntaxError:
            want = None
        for g, p in self.guards(a):
            if p == pol and (norm(g) == text or (expand and self.copies.xnorm(g) == text)):
                return True
            # `x not in y` held false is `x in y` held true
            if want is not None and canon_atom(g, p) == want:
                return True
        return False

    def guard_texts(self, a: ast.AST) -> List[str]:
        return [('' if p else 'not ') + norm(g) for g, p in self.guards(a)]

    # ---- returns --------------------------------------------------------------------------------
    def returns(self) -> List[ast.Return]:
        out = []
        for nid in self.cfg.returns():
            n = self.cfg.nodes[nid]
            if n.kind == 'return':
                out.append(n.ast)
        return out

    def falls_off_end(self) -> bool:
        return any(self.cfg.nodes[n].kind == 'implicit-return' for n in self.cfg.returns())

    def raises(self) -> List[ast.Raise]:
        return [self.cfg.nodes[n].ast for n in self.cfg.raises()]


# ---- recogniser verdicts ----------------------------------------------------------------------------

def verdict(ret: ast.Return) -> Optional[Tuple[str, ast.AST, str, ast.AST]]:
    """(set-kind, set-expr, err-kind, err-expr) of `return S, E`; set-kind in EMPTY/ONE/VAR/COMP, err-kind OK/ERR/VAR"""
    v = ret.value
    if not isinstance(v, ast.Tuple) or len(v.elts) != 2:
        return None
    s, e = v.elts
    if isinstance(s, ast.Call) and isinstance(s.func, ast.Name) and s.func.id in ('set', 'list', 'frozenset') \
            and not s.args:
        sk = 'EMPTY'
    elif isinstance(s, (ast.Set, ast.List)) and len(s.elts) == 1 and not isinstance(s.elts[0], ast.Starred):
        sk = 'ONE'
    elif isinstance(s, (ast.Set, ast.List)) and len(s.elts) == 0:
        sk = 'EMPTY'
    elif isinstance(s, (ast.SetComp, ast.ListComp)):
        sk = 'COMP'
    else:
        sk = 'VAR'
    if isinstance(e, ast.Name) and e.id == 'REC_OK':
        ek = 'OK'
    elif isinstance(e, ast.Tuple):
        ek = 'ERR'
    else:
        ek = 'VAR'
    return sk, s, ek, e


def whole_collection_loop(loop: ast.For, allow_continue: bool = False) -> bool:
    """the loop visits every element: no break/return inside its body (nested function bodies excluded)"""
    for st in loop.body:
        for n in ast.walk(st):
            if isinstance(n, (ast.Break, ast.Return)):
                return False
            if isinstance(n, ast.Continue) and not allow_continue:
                return False
    return True


def loop_exits(loop: ast.For) -> List[ast.AST]:
    out = []
    for st in loop.body:
        for n in ast.walk(st):
            if isinstance(n, (ast.Break, ast.Return, ast.Continue)):
                out.append(n)
    return out


def enclosing_loops(a: ast.AST, fn_node: ast.AST) -> List[ast.AST]:
    out = []
    n = a
    p = parent(a)
    while p is not None and p is not fn_node:
        if isinstance(p, (ast.For, ast.While)) and any(n is s for s in p.body + p.orelse) or \
                isinstance(p, (ast.ListComp, ast.SetComp, ast.DictComp, ast.GeneratorExp)):
            out.append(p)
        n, p = p, parent(p)
    return out


def enclosing_stmt(a: ast.AST) -> ast.AST:
    n = a
    while not isinstance(n, ast.stmt):
        n = parent(n)
    return n


def str_format_const(e: ast.AST) -> Optional[str]:
    """'!{}'.format(X.__name__) -> '!<X.__name__>'; literal -> literal"""
    s = const_str(e)
    if s is not None:
        return s
    if isinstance(e, ast.Call) and isinstance(e.func, ast.Attribute) and e.func.attr == 'format' \
            and const_str(e.func.value) is not None and not e.keywords:
        fmt = const_str(e.func.value)
        parts = fmt.split('{}')
        if len(parts) - 1 == len(e.args):
            out = parts[0]
            for a, p in zip(e.args, parts[1:]):
                out += '<' + norm(a) + '>' + p
            return out
    if isinstance(e, ast.JoinedStr):
        out = ''
        for v in e.values:
            if isinstance(v, ast.Constant):
                out += str(v.value)
            elif isinstance(v, ast.FormattedValue) and v.format_spec is None and v.conversion == -1:
                out += '<' + norm(v.value) + '>'
            else:
                return None
        return out
    if isinstance(e, ast.BinOp) and isinstance(e.op, ast.Add):
        a, b = str_format_const(e.left), str_format_const(e.right)
        if a is not None or b is not None:
            return (a if a is not None else '<' + norm(e.left) + '>') + (b if b is not None else '<' + norm(e.right) + '>')
    return None


def dict_literal_items(e: ast.AST) -> Optional[List[Tuple[str, ast.AST]]]:
    if isinstance(e, ast.Dict):
        return [(norm(k), v) for k, v in zip(e.keys, e.values)]
    return None


def assigned_from(fn: Fn, name: str) -> List[ast.AST]:
    """all right-hand sides bound to local `name` (plain assignments only)"""
    out = []
    for n in fn.walk():
        if isinstance(n, ast.Assign):
            for t in n.targets:
                if isinstance(t, ast.Name) and t.id == name:
                    out.append(n.value)
                elif isinstance(t, ast.Tuple):
                    for i, el in enumerate(t.elts):
                        if isinstance(el, ast.Name) and el.id == name:
                            out.append(ast.Subscript(value=n.value, slice=ast.Constant(value=i), ctx=ast.Load()))
        elif isinstance(n, ast.AnnAssign) and isinstance(n.target, ast.Name) and n.target.id == name and n.value:
            out.append(n.value)
    return out


def reaching_defs(fn: Fn, use: ast.AST, var: str) -> List[ast.AST]:
    """assignment statements binding local `var` (plain or tuple targets) that can reach `use` without being overwritten"""
    defs = []
    for n in fn.walk():
        if isinstance(n, ast.Assign):
            for t in n.targets:
                if any(isinstance(x, ast.Name) and x.id == var and isinstance(x.ctx, ast.Store) for x in ast.walk(t)):
                    defs.append(n)
        elif isinstance(n, ast.AnnAssign) and isinstance(n.target, ast.Name) and n.target.id == var and n.value is not None:
            defs.append(n)
    un = fn.nid(use)
    out = []
    for d in defs:
        dn = fn.nid(d)
        if dn is None or un is None:
            continue
        others = {fn.nid(x) for x in defs if x is not d} - {dn, un}
        starts = [m for m, _ in fn.cfg.succ[dn]]
        reach = set()
        for m in starts:
            if m not in others:
                reach |= fn.cfg.reachable(m, avoid=others)
        inside = use is d or any(x is use for x in ast.walk(d))
        if un in reach or (un == dn and not inside):
            out.append(d)
    return out
