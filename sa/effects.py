"""E6 write effects: which objects (by root of their access path) a function may write, through callees.

Roots: 'param:<p>[.<field>]' (anything reachable from parameter p), 'self.<field>', 'global:<name>',
'class:<expr>' (a class object named in the code), 'fresh' (created in this activation), 'unknown'.
Flow-insensitive may-alias over locals; interprocedural by a fixpoint over name-resolved callees inside yatiml.
"""
import ast
from typing import Dict, List, Optional, Set, Tuple

from .model import Program, FunctionInfo, ClassInfo, walk_function, dotted_name, parent
from .guards import call_name, norm
from .facts import MUTATORS

FRESH_CALLS = {'getfullargspec', 'isclass', 'isabstract', 'list', 'dict', 'set', 'tuple', 'sorted', 'OrderedDict', 'str', 'int', 'float', 'bool', 'repr', 'len',
               'frozenset', 'deepcopy', 'enumerate', 'zip', 'map', 'filter', 'range', 'type', 'isinstance', 'issubclass',
               'hasattr', 'format', 'indent', 'get_close_matches', 'cjoin', 'any', 'all', 'reversed', 'bytes', 'id'}
# shallow copies: a fresh container whose elements alias the source's elements
SHALLOW = {'list', 'dict', 'set', 'tuple', 'sorted', 'OrderedDict', 'copy', 'reversed', 'enumerate', 'zip', 'frozenset'}
VIEW_METHODS = {'items', 'values', 'keys', 'copy'}          # fresh view/copy, elements alias
ALIAS_METHODS = {'get', 'pop', 'setdefault', 'popitem', '__getitem__'}   # returns an element
WRAPPERS = {'Node', 'UnknownNode'}      # wrapper objects: writes through them are writes to the wrapped node
PURE_STR_METHODS = {'format', 'join', 'replace', 'lower', 'upper', 'startswith', 'endswith', 'split', 'strip',
                    'items', 'keys', 'values', 'get', 'index', 'count', 'copy', 'issubset', 'union', 'write',
                    'debug', 'info', 'warning', 'error', 'open', 'match'}


class WriteEvent:
    def __init__(self, fi: FunctionInfo, node: ast.AST, roots: Set[str], how: str, via: Optional[str] = None):
        self.fi = fi
        self.node = node
        self.roots = roots
        self.how = how
        self.via = via

    def __repr__(self):
        return '<write %s %s at %s%s>' % (sorted(self.roots), self.how, self.fi.loc(self.node), ' via ' + self.via if self.via else '')


class FnEffects:
    def __init__(self, P: Program, fi: FunctionInfo, world: 'World'):
        self.P = P
        self.fi = fi
        self.world = world
        self.params = fi.params
        self.roots: Dict[str, Set[str]] = {}
        self.elems: Dict[str, Set[str]] = {}
        self.events: List[WriteEvent] = []
        self.call_sites: List[Tuple[ast.Call, List[FunctionInfo]]] = []
        self.locals: Set[str] = set()
        for n in walk_function(fi.node):
            if isinstance(n, ast.Name) and isinstance(n.ctx, (ast.Store, ast.Del)):
                self.locals.add(n.id)
            elif isinstance(n, ast.ExceptHandler) and n.name:
                self.locals.add(n.name)
        self._bind()

    # ---- alias computation -------------------------------------------------------------------------
    def _param_root(self, name: str) -> str:
        return 'self' if name == 'self' and self.fi.cls is not None else 'param:' + name

    def roots_of(self, e: ast.AST) -> Set[str]:
        if e is None:
            return set()
        if isinstance(e, ast.Name):
            if e.id in self.roots:
                return set(self.roots[e.id])
            if e.id in self.params:
                return {self._param_root(e.id)}
            if e.id in self.locals:
                return set()
            # closure variable of an enclosing function, class or global
            r = self.P.resolve_expr(self.fi.module, e, self.fi)
            if isinstance(r, ClassInfo):
                return {'class:' + r.key}
            if e.id in self.fi.module.constants:
                return {'global:%s.%s' % (self.fi.module.name, e.id)}
            if e.id in ('True', 'False', 'None'):
                return {'fresh'}
            p = self.fi.parent
            while p is not None:
                if e.id in p.params or any(isinstance(n, ast.Name) and n.id == e.id and isinstance(n.ctx, ast.Store)
                                           for n in walk_function(p.node)):
                    return {'closure:' + e.id}
                p = p.parent
            return {'global:' + e.id}
        if isinstance(e, ast.Attribute):
            base = self.roots_of(e.value)
            out = set()
            for b in base:
                if b == 'fresh':
                    out.add('fresh')
                elif b == 'self' or (b.startswith('param:') and b.count('.') == 0):
                    out.add(b + '.' + e.attr)
                else:
                    out.add(b)
            return out
        if isinstance(e, ast.Subscript):
            return self.roots_of(e.value) - {'fresh'} | self.elems_of(e.value) | \
                ({'fresh'} if self.roots_of(e.value) == {'fresh'} and not self.elems_of(e.value) else set())
        if isinstance(e, ast.Starred):
            return self.roots_of(e.value)
        if isinstance(e, (ast.Constant, ast.JoinedStr, ast.Compare, ast.BoolOp, ast.UnaryOp, ast.BinOp)):
            if isinstance(e, ast.BoolOp):
                out = set()
                for v in e.values:
                    out |= self.roots_of(v)
                return out
            return {'fresh'}
        if isinstance(e, ast.IfExp):
            return self.roots_of(e.body) | self.roots_of(e.orelse)
        if isinstance(e, (ast.List, ast.Tuple, ast.Set, ast.Dict, ast.ListComp, ast.SetComp, ast.DictComp,
                          ast.GeneratorExp, ast.Lambda)):
            return {'fresh'}
        if isinstance(e, ast.Call):
            nm = call_name(e)
            if isinstance(e.func, ast.Name):
                if nm in WRAPPERS:
                    out = set()
                    for a in e.args:
                        out |= self.roots_of(a)
                    return out - {'fresh'} or {'fresh'}
                if nm == 'cast' and len(e.args) == 2:
                    return self.roots_of(e.args[1])
                if nm in ('next', 'iter') and e.args:
                    return self.roots_of(e.args[0]) - {'fresh'} | self.elems_of(e.args[0]) or {'fresh'}
                if nm == 'getattr' and e.args:
                    return {r if r == 'fresh' else r for r in self.roots_of(e.args[0])}
                if nm in FRESH_CALLS or nm in SHALLOW:
                    return {'fresh'}
                r = self.P.resolve_expr(self.fi.module, e.func, self.fi)
                if isinstance(r, ClassInfo):
                    return {'fresh'}
                if isinstance(r, FunctionInfo):
                    return self.world.returns_of(r, [self.roots_of(a) for a in e.args], set())
                return {'fresh'} if not e.args else set().union(*[self.roots_of(a) for a in e.args]) | {'fresh'}
            if isinstance(e.func, ast.Attribute):
                recv = self.roots_of(e.func.value)
                if nm in VIEW_METHODS:
                    return {'fresh'}
                if nm in ALIAS_METHODS:
                    return recv - {'fresh'} | self.elems_of(e.func.value) or {'fresh'}
                cands = self.world.resolve_method(self.fi, e)
                if cands:
                    out = set()
                    for c in cands:
                        out |= self.world.returns_of(c, [self.roots_of(a) for a in e.args], recv)
                    return out
                r = self.P.resolve_expr(self.fi.module, e.func, self.fi)
                if isinstance(r, ClassInfo):
                    return {'fresh'}
                if nm in PURE_STR_METHODS or nm in MUTATORS or nm in FRESH_CALLS:
                    return {'fresh'}
                # unknown external method: may return something reachable from the receiver
                return recv | {'fresh'}
            return {'fresh'}
        if isinstance(e, ast.Await):
            return self.roots_of(e.value)
        if isinstance(e, ast.NamedExpr):
            return self.roots_of(e.value)
        return {'unknown'}

    def elems_of(self, e: ast.AST) -> Set[str]:
        """roots of the elements of a container expression that is itself fresh"""
        if isinstance(e, ast.Name):
            return set(self.elems.get(e.id, set()))
        if isinstance(e, (ast.List, ast.Tuple, ast.Set)):
            out = set()
            for x in e.elts:
                out |= self.roots_of(x) | self.elems_of(x)
            return out - {'fresh'}
        if isinstance(e, ast.Dict):
            out = set()
            for x in e.values:
                out |= self.roots_of(x)
            return out - {'fresh'}
        if isinstance(e, (ast.ListComp, ast.SetComp, ast.GeneratorExp)):
            return (self.roots_of(e.elt) | self.elems_of(e.elt)) - {'fresh'}
        if isinstance(e, ast.DictComp):
            return self.roots_of(e.value) - {'fresh'}
        if isinstance(e, ast.Call):
            nm = call_name(e)
            if (isinstance(e.func, ast.Name) and nm in SHALLOW and e.args):
                out = set()
                for a in e.args:
                    out |= (self.roots_of(a) - {'fresh'}) | self.elems_of(a)
                return out
            if isinstance(e.func, ast.Attribute) and nm in VIEW_METHODS:
                return (self.roots_of(e.func.value) - {'fresh'}) | self.elems_of(e.func.value)
            if isinstance(e.func, ast.Attribute) and nm == 'seq_items':
                return self.roots_of(e.func.value) - {'fresh'}
        if isinstance(e, ast.IfExp):
            return self.elems_of(e.body) | self.elems_of(e.orelse)
        return set()

    def _positional(self, v: ast.AST):
        """per-position (roots, elems) of a tuple-valued expression, when known"""
        if isinstance(v, ast.Tuple):
            return [(self.roots_of(x) or {'fresh'}, self.elems_of(x)) for x in v.elts]
        if isinstance(v, ast.Call):
            cands = []
            if isinstance(v.func, ast.Attribute):
                cands = self.world.resolve_method(self.fi, v)
                recv = self.roots_of(v.func.value)
            elif isinstance(v.func, ast.Name):
                r = self.P.resolve_expr(self.fi.module, v.func, self.fi)
                cands = [r] if isinstance(r, FunctionInfo) else []
                recv = set()
            if not cands:
                return None
            out = None
            for c in cands:
                pp = self.world._retpos.get(c.key)
                if pp is None:
                    return None
                amap = self._argmap(c, v, recv)
                mapped = []
                for rs, el in pp:
                    mapped.append((self.world.map_roots(rs, amap) or {'fresh'}, self.world.map_roots(el, amap) - {'fresh'}))
                if out is None:
                    out = mapped
                elif len(out) == len(mapped):
                    out = [(a | c_, b | d) for (a, b), (c_, d) in zip(out, mapped)]
                else:
                    return None
            return out
        return None

    def return_positions(self):
        rets = [n.value for n in walk_function(self.fi.node) if isinstance(n, ast.Return) and n.value is not None]
        if not rets or not all(isinstance(v, ast.Tuple) for v in rets) or len({len(v.elts) for v in rets}) != 1:
            return None
        n = len(rets[0].elts)
        out = [(set(), set()) for _ in range(n)]
        for v in rets:
            for i, x in enumerate(v.elts):
                out[i][0].update(self.roots_of(x) or {'fresh'})
                out[i][1].update(self.elems_of(x))
        return out

    def _bind_target(self, t: ast.AST, roots: Set[str], elems: Set[str]) -> bool:
        ch = False
        if isinstance(t, ast.Name):
            a = self.roots.setdefault(t.id, set())
            b = self.elems.setdefault(t.id, set())
            if not roots <= a:
                a |= roots
                ch = True
            if not elems <= b:
                b |= elems
                ch = True
        elif isinstance(t, (ast.Tuple, ast.List)):
            for x in t.elts:
                ch |= self._bind_target(x, roots | elems, elems)
        elif isinstance(t, ast.Starred):
            ch |= self._bind_target(t.value, roots, elems)
        return ch

    def _bind(self):
        nodes = list(walk_function(self.fi.node))
        for _ in range(6):
            ch = False
            for n in nodes:
                if isinstance(n, ast.Assign):
                    pos = self._positional(n.value)
                    if pos is not None and len(n.targets) == 1 and isinstance(n.targets[0], ast.Tuple) \
                            and len(n.targets[0].elts) == len(pos):
                        for t, (r, el) in zip(n.targets[0].elts, pos):
                            ch |= self._bind_target(t, r, el)
                        continue
                    r, el = self.roots_of(n.value), self.elems_of(n.value)
                    for t in n.targets:
                        ch |= self._bind_target(t, r, el)
                elif isinstance(n, ast.AnnAssign) and n.value is not None:
                    ch |= self._bind_target(n.target, self.roots_of(n.value), self.elems_of(n.value))
                elif isinstance(n, ast.AugAssign) and isinstance(n.target, ast.Name):
                    ch |= self._bind_target(n.target, set(), (self.roots_of(n.value) - {'fresh'}) | self.elems_of(n.value))
                elif isinstance(n, (ast.For, ast.comprehension)):
                    it = n.iter
                    r = (self.roots_of(it) - {'fresh'}) | self.elems_of(it)
                    ch |= self._bind_target(n.target, r or {'fresh'}, set())
                elif isinstance(n, ast.With):
                    for it in n.items:
                        if it.optional_vars is not None:
                            ch |= self._bind_target(it.optional_vars, {'fresh'}, set())
                elif isinstance(n, ast.Call) and isinstance(n.func, ast.Attribute) and isinstance(n.func.value, ast.Name) \
                        and n.func.attr in ('append', 'add', 'extend', 'insert', 'update') and n.args:
                    # elements flowing into a local container
                    v = n.func.value.id
                    add = set()
                    for a in n.args:
                        add |= (self.roots_of(a) - {'fresh'}) | self.elems_of(a)
                    b = self.elems.setdefault(v, set())
                    if not add <= b:
                        b |= add
                        ch = True
            if not ch:
                break

    # ---- write events ------------------------------------------------------------------------------
    def collect(self):
        self.events = []
        self.call_sites = []
        for n in walk_function(self.fi.node):
            if isinstance(n, (ast.Attribute, ast.Subscript)) and isinstance(n.ctx, (ast.Store, ast.Del)):
                rs = self.roots_of(n.value)
                how = ('store .%s' % n.attr) if isinstance(n, ast.Attribute) else 'item store'
                if isinstance(n, ast.Attribute):
                    # a store to self.x in a method writes the object self, field x
                    rs = {(r + '.' + n.attr) if r == 'self' else r for r in rs}
                self.events.append(WriteEvent(self.fi, n, rs, how))
            elif isinstance(n, ast.AugAssign) and isinstance(n.target, ast.Name):
                rs = self.roots_of(n.target)
                if rs - {'fresh'}:
                    self.events.append(WriteEvent(self.fi, n, rs, 'augmented assignment'))
            elif isinstance(n, ast.Call):
                nm = call_name(n)
                if isinstance(n.func, ast.Name) and nm in ('setattr', 'delattr') and n.args:
                    self.events.append(WriteEvent(self.fi, n, self.roots_of(n.args[0]), nm))
                    continue
                cands: List[FunctionInfo] = []
                recv = set()
                if isinstance(n.func, ast.Attribute):
                    recv = self.roots_of(n.func.value)
                    cands = self.world.resolve_method(self.fi, n)
                    if not cands and nm in MUTATORS:
                        self.events.append(WriteEvent(self.fi, n, recv, 'mutator .%s()' % nm))
                elif isinstance(n.func, ast.Name):
                    r = self.P.resolve_expr(self.fi.module, n.func, self.fi)
                    if isinstance(r, FunctionInfo):
                        cands = [r]
                    elif isinstance(r, ClassInfo) and '__init__' in r.methods and r.module.name.startswith('yatiml'):
                        cands = [r.methods['__init__']]
                        recv = {'fresh'}
                    elif r is None:
                        cands = self.world.resolve_local_callable(self.fi, n.func.id)
                        if cands:
                            recv = {'self'}
                if cands:
                    self.call_sites.append((n, cands))
                    for c in cands:
                        summ = self.world.summary(c)
                        argmap = self._argmap(c, n, recv)
                        for root in summ:
                            head, _, rest = root.partition('.')
                            key = head
                            if key in argmap:
                                rs = set()
                                for a in argmap[key]:
                                    if a == 'fresh':
                                        continue
                                    rs.add(a + ('.' + rest if rest and (a == 'self' or (a.startswith('param:') and '.' not in a)) else ''))
                                if rs:
                                    self.events.append(WriteEvent(self.fi, n, rs, 'call', via=c.key + ' writes ' + root))
                            elif root.startswith(('global:', 'class:', 'closure:')):
                                self.events.append(WriteEvent(self.fi, n, {root}, 'call', via=c.key + ' writes ' + root))

    def _argmap(self, callee: FunctionInfo, call: ast.Call, recv: Set[str]) -> Dict[str, Set[str]]:
        m: Dict[str, Set[str]] = {}
        ps = list(callee.params)
        if callee.cls is not None and ps and ps[0] in ('self', 'cls') and isinstance(call.func, ast.Attribute) \
                or (callee.name == '__init__' and callee.cls is not None and isinstance(call.func, ast.Name)):
            m['self'] = recv
            ps = ps[1:]
        for p, a in zip(ps, call.args):
            m['param:' + p] = self.roots_of(a) | self.elems_of(a)
        for k in call.keywords:
            if k.arg:
                m['param:' + k.arg] = self.roots_of(k.value) | self.elems_of(k.value)
        return m

    def return_roots(self) -> Set[str]:
        out = set()
        for n in walk_function(self.fi.node):
            if isinstance(n, ast.Return) and n.value is not None:
                out |= self.roots_of(n.value) | self.elems_of(n.value)
            elif isinstance(n, (ast.Yield, ast.YieldFrom)) and n.value is not None:
                out |= self.roots_of(n.value) | self.elems_of(n.value)
        return out or {'fresh'}

    def summary(self) -> Set[str]:
        out = set()
        for ev in self.events:
            for r in ev.roots:
                if r in ('fresh',):
                    continue
                out.add(r)
        return out


class World:
    """all yatiml functions with their effects, solved to a fixpoint"""

    def __init__(self, P: Program):
        self.P = P
        self.fns: Dict[str, FnEffects] = {}
        self._summ: Dict[str, Set[str]] = {}
        self._ret: Dict[str, Set[str]] = {}
        self._retpos: Dict[str, Optional[list]] = {}
        self._by_name: Dict[str, List[FunctionInfo]] = {}
        funcs = list(P.yatiml_functions())
        for fi in funcs:
            if fi.cls is not None:
                self._by_name.setdefault(fi.name, []).append(fi)
        for fi in funcs:
            self._summ[fi.key] = set()
            self._ret[fi.key] = {'fresh'}       # least fixpoint: start from "returns nothing aliased"
        for fi in funcs:
            self.fns[fi.key] = FnEffects(P, fi, self)
        for _ in range(8):
            changed = False
            for fe in self.fns.values():
                fe._bind()
                fe.collect()
                s = fe.summary()
                if s != self._summ[fe.fi.key]:
                    self._summ[fe.fi.key] = s
                    changed = True
                rr = fe.return_roots()
                if rr != self._ret.get(fe.fi.key):
                    self._ret[fe.fi.key] = rr
                    changed = True
                rp = fe.return_positions()
                if rp != self._retpos.get(fe.fi.key):
                    self._retpos[fe.fi.key] = rp
                    changed = True
            if not changed:
                break

    def summary(self, fi: FunctionInfo) -> Set[str]:
        return self._summ.get(fi.key, set())

    def map_roots(self, roots: Set[str], amap: Dict[str, Set[str]]) -> Set[str]:
        out = set()
        for r in roots:
            head = r.split('.')[0]
            if head in amap:
                out |= amap[head]
            elif r.startswith('param:') or r == 'self' or r.startswith('self.'):
                out.add('fresh')
            else:
                out.add(r)
        return out

    def returns_of(self, fi: FunctionInfo, arg_roots: List[Set[str]], recv: Set[str]) -> Set[str]:
        """roots of what a yatiml callee may return, from its own return summary mapped through the arguments"""
        ann = fi.node.returns
        txt = norm(ann) if ann is not None else ''
        if txt in ('None', 'bool', 'str', 'int', "'str'", 'float'):
            return {'fresh'}
        ret = self._ret.get(fi.key)
        if ret is None:
            out = {'fresh'} | recv
            for a in arg_roots:
                out |= a
            return out
        ps = list(fi.params)
        amap: Dict[str, Set[str]] = {}
        if fi.cls is not None and ps and ps[0] in ('self', 'cls'):
            amap['self'] = recv
            ps = ps[1:]
        for p_, a in zip(ps, arg_roots):
            amap['param:' + p_] = a
        out = set()
        for r in ret:
            head = r.split('.')[0]
            if head in amap:
                out |= amap[head]
            elif r.startswith('param:') or r == 'self' or r.startswith('self.'):
                out.add('fresh')        # parameter not supplied positionally (default / keyword): no alias known
            else:
                out.add(r)
        return out or {'fresh'}

    def resolve_local_callable(self, caller: FunctionInfo, name: str) -> List[FunctionInfo]:
        """a call `v(...)` through a local that was bound to method references (`v = self.__recognize_list`): all of them"""
        out: List[FunctionInfo] = []
        for n in walk_function(caller.node):
            if isinstance(n, ast.Assign) and any(isinstance(t, ast.Name) and t.id == name for t in n.targets) \
                    and isinstance(n.value, ast.Attribute) and isinstance(n.value.value, ast.Name) \
                    and n.value.value.id in ('self', 'cls') and caller.cls is not None:
                m = self.P.lookup_method(caller.cls, n.value.attr)
                if m is not None and m.module.name.startswith('yatiml') and m not in out:
                    out.append(m)
        return out

    def resolve_method(self, caller: FunctionInfo, call: ast.Call) -> List[FunctionInfo]:
        f = call.func
        if not isinstance(f, ast.Attribute):
            return []
        name = f.attr
        if isinstance(f.value, ast.Name) and f.value.id in ('self', 'cls') and caller.cls is not None:
            m = self.P.lookup_method(caller.cls, name)
            if m is not None:
                return [m] if m.module.name.startswith('yatiml') else []
        if isinstance(f.value, ast.Call) and isinstance(f.value.func, ast.Name) and f.value.func.id == 'super':
            return []
        if name.startswith('__') and name.endswith('__') and name != '__init__':
            return []
        if name in ('__init__',):
            return []
        cands = [m for m in self._by_name.get(name, [])]
        # a receiver that is a module (yaml.dump, json.dumps, os.path...) is external
        if isinstance(f.value, ast.Name) and f.value.id in caller.module.imports:
            return []
        if isinstance(f.value, ast.Attribute) and dotted_name(f.value) and dotted_name(f.value).split('.')[0] in caller.module.imports:
            return []
        return cands


_world_cache: Dict[int, World] = {}


def world(P: Program) -> World:
    if id(P) not in _world_cache:
        _world_cache.clear()
        _world_cache[id(P)] = World(P)
    return _world_cache[id(P)]


def call_closure(W: World, root_keys: List[str]) -> List[FunctionInfo]:
    """yatiml functions reachable from the roots through name-resolved calls (user hooks are not followed)"""
    seen: Dict[str, FunctionInfo] = {}
    stack = [W.P.func(k) for k in root_keys]
    while stack:
        fi = stack.pop()
        if fi.key in seen:
            continue
        seen[fi.key] = fi
        fe = W.fns.get(fi.key)
        if fe is None:
            continue
        for _, cands in fe.call_sites:
            for c in cands:
                if c.key not in seen:
                    stack.append(c)
    return list(seen.values())


def direct_writes(W: World, fis: List[FunctionInfo]) -> List[WriteEvent]:
    out = []
    for fi in fis:
        fe = W.fns.get(fi.key)
        if fe is None:
            continue
        for ev in fe.events:
            if ev.how == 'call':
                continue
            roots = ev.roots - {'fresh'}
            if not roots:
                continue
            if ev.how == 'augmented assignment' and 'fresh' in ev.roots:
                continue
            out.append(ev)
    return out
