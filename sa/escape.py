"""E6 escape sets: which exception classes may leave a function, through explicit raises and callees, minus what the
enclosing handlers catch. Exception hierarchy from the sources (yatiml.exceptions, yaml.error) plus the builtins."""
import ast
from typing import Dict, List, Optional, Set, Tuple

from .model import Program, FunctionInfo, ClassInfo, walk_function, dotted_name, parent
from .guards import call_name, norm

BUILTIN_BASES = {
    'BaseException': None, 'Exception': 'BaseException', 'RuntimeError': 'Exception', 'ValueError': 'Exception',
    'TypeError': 'Exception', 'KeyError': 'LookupError', 'IndexError': 'LookupError', 'LookupError': 'Exception',
    'AttributeError': 'Exception', 'NotImplementedError': 'RuntimeError', 'RecursionError': 'RuntimeError',
    'StopIteration': 'Exception', 'AssertionError': 'Exception', 'OSError': 'Exception', 'UnicodeError': 'ValueError',
    'UnicodeDecodeError': 'UnicodeError', 'UnicodeEncodeError': 'UnicodeError', 'GeneratorExit': 'BaseException',
    'ArithmeticError': 'Exception', 'OverflowError': 'ArithmeticError', 'ZeroDivisionError': 'ArithmeticError',
}


class Hierarchy:
    def __init__(self, P: Program):
        self.base: Dict[str, Optional[str]] = dict(BUILTIN_BASES)
        for m in P.modules.values():
            for c in m.classes.values():
                if c.base_exprs:
                    b = dotted_name(c.base_exprs[0])
                    if b:
                        b = b.split('.')[-1]
                        if c.name not in self.base and (b in self.base or b.endswith('Error') or b.endswith('Exception')):
                            self.base[c.name] = b
        # fixpoint for classes whose base was registered later
        for _ in range(3):
            for m in P.modules.values():
                for c in m.classes.values():
                    if c.name not in self.base and c.base_exprs:
                        b = dotted_name(c.base_exprs[0])
                        if b and b.split('.')[-1] in self.base:
                            self.base[c.name] = b.split('.')[-1]

    def ancestors(self, c: str) -> List[str]:
        out = [c]
        while c in self.base and self.base[c] is not None:
            c = self.base[c]
            out.append(c)
        return out

    def is_sub(self, c: str, b: str) -> bool:
        return b in self.ancestors(c)


class Origin:
    def __init__(self, cls: str, fi: FunctionInfo, node: ast.AST, chain: Tuple[str, ...] = ()):
        self.cls = cls
        self.fi = fi
        self.node = node
        self.chain = chain

    def key(self) -> str:
        return '%s:raise %s' % (self.fi.key, self.cls)

    def __repr__(self):
        return '<%s at %s via %s>' % (self.cls, self.fi.loc(self.node), ' <- '.join(self.chain))


def enclosing_try_bodies(n: ast.AST, fn_node: ast.AST) -> List[ast.Try]:
    out = []
    c = n
    p = parent(n)
    while p is not None and p is not fn_node:
        if isinstance(p, ast.Try) and any(c is s for s in p.body):
            out.append(p)
        c, p = p, parent(p)
    return out


def handler_names(h: ast.ExceptHandler) -> Optional[List[str]]:
    if h.type is None:
        return None
    ts = h.type.elts if isinstance(h.type, ast.Tuple) else [h.type]
    return [(dotted_name(t) or norm(t)).split('.')[-1] for t in ts]


class Escapes:
    def __init__(self, P: Program, resolve):
        """resolve(caller FunctionInfo, Call) -> list of yatiml FunctionInfo callees"""
        self.P = P
        self.H = Hierarchy(P)
        self.resolve = resolve
        self.esc: Dict[str, Dict[Tuple[str, str, int], Origin]] = {}
        funcs = list(P.yatiml_functions())
        for fi in funcs:
            self.esc[fi.key] = {}
        for _ in range(12):
            changed = False
            for fi in funcs:
                new = self._compute(fi)
                if set(new) != set(self.esc[fi.key]):
                    self.esc[fi.key] = new
                    changed = True
            if not changed:
                break

    def caught(self, cls: str, n: ast.AST, fi: FunctionInfo) -> bool:
        for t in enclosing_try_bodies(n, fi.node):
            for h in t.handlers:
                names = handler_names(h)
                if names is None or any(self.H.is_sub(cls, x) for x in names):
                    return True
        return False

    def classes(self, key: str) -> Set[str]:
        return {k[0] for k in self.esc.get(key, {})}

    def _compute(self, fi: FunctionInfo) -> Dict[Tuple[str, str, int], Origin]:
        out: Dict[Tuple[str, str, int], Origin] = {}
        cfg = fi.cfg()
        live = cfg.live()
        for n in walk_function(fi.node):
            if isinstance(n, ast.Raise):
                nid = cfg.node_of(n)
                if nid is not None and nid not in live:
                    continue        # dead code (e.g. after an if/else whose arms all return)
                if n.exc is None:
                    # re-raise of what the handler caught: exactly what the protected statements let out and this handler takes -
                    # the handler adds no exception of its own (what user code raises inside is the hook's contract, see R08.2)
                    h = next((a for a in _anc(n) if isinstance(a, ast.ExceptHandler)), None)
                    t = parent(h) if h is not None else None
                    names = handler_names(h) if h is not None else None
                    if not isinstance(t, ast.Try):
                        continue

                    def taken(cls_):
                        if names is not None and not any(self.H.is_sub(cls_, x) for x in names):
                            return False
                        for h2 in t.handlers:           # an earlier handler of the same try takes it first
                            if h2 is h:
                                break
                            n2 = handler_names(h2)
                            if n2 is None or any(self.H.is_sub(cls_, x) for x in n2):
                                return False
                        return True

                    def inner_caught(cls_, x):
                        for t2 in enclosing_try_bodies(x, fi.node):
                            if t2 is t:
                                return False
                            for h2 in t2.handlers:
                                n2 = handler_names(h2)
                                if n2 is None or any(self.H.is_sub(cls_, y) for y in n2):
                                    return True
                        return False
                    for st in t.body:
                        for x in ast.walk(st):
                            if isinstance(x, ast.Raise) and x.exc is not None:
                                e2 = x.exc.func if isinstance(x.exc, ast.Call) else x.exc
                                c2 = (dotted_name(e2) or norm(e2)).split('.')[-1]
                                if taken(c2) and not inner_caught(c2, x) and not self.caught(c2, h, fi):
                                    out.setdefault((c2, fi.key, x.lineno), Origin(c2, fi, x))
                            elif isinstance(x, ast.Call):
                                for g in self.resolve(fi, x):
                                    for k, o in self.esc.get(g.key, {}).items():
                                        if taken(k[0]) and not inner_caught(k[0], x) and not self.caught(k[0], h, fi) and k not in out:
                                            out[k] = Origin(k[0], o.fi, o.node, (fi.qual + ':%d' % x.lineno,) + o.chain)
                    continue
                e = n.exc.func if isinstance(n.exc, ast.Call) else n.exc
                c = (dotted_name(e) or norm(e)).split('.')[-1]
                if not self.caught(c, n, fi):
                    out.setdefault((c, fi.key, n.lineno), Origin(c, fi, n))
            elif isinstance(n, ast.Call):
                nid = cfg.node_of(n)
                if nid is not None and nid not in live:
                    continue
                for g in self.resolve(fi, n):
                    for k, o in self.esc.get(g.key, {}).items():
                        if not self.caught(k[0], n, fi):
                            if k not in out:
                                out[k] = Origin(k[0], o.fi, o.node, (fi.qual + ':%d' % n.lineno,) + o.chain)
        return out


def _anc(n):
    p = parent(n)
    while p is not None:
        yield p
        p = parent(p)
