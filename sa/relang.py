"""E8 regular languages: Python `re` pattern -> NFA -> DFA over a partitioned alphabet.

Decides equalities / inclusions between the languages of PyYAML-style resolver patterns for strings of
every length, with a shortest counter-example. `regexp.match` semantics (anchored at the start, prefix
match unless the pattern asserts the end) is modelled exactly; `$` is end of string (plain scalars
contain no line breaks: they are folded by the scanner).
"""
import re
from typing import Dict, FrozenSet, List, Optional, Sequence, Set, Tuple

try:
    import re._parser as sre_parse
    import re._constants as sre_c
except ImportError:  # pragma: no cover
    import sre_parse
    import sre_constants as sre_c

from .model import AnalysisError

MAXCH = 0x110000
ALLOWED_FLAGS = re.X | re.U | re.I


def parse(pattern: str, flags: int = 0):
    if flags & ~ALLOWED_FLAGS:
        raise AnalysisError('unsupported regex flags %r' % flags)
    try:
        return sre_parse.parse(pattern, flags)
    except Exception as e:
        raise AnalysisError('cannot parse regex %r: %s' % (pattern, e))


_LOWER_CLASSES: Dict[int, Set[int]] = {}


def case_variants(cp: int) -> Set[int]:
    """code points that `re` with IGNORECASE treats like cp (same lower-case form, plus sre's special-case fixes)"""
    if not _LOWER_CLASSES:
        for x in range(MAXCH):
            lo = ord(chr(x).lower()) if len(chr(x).lower()) == 1 else x
            _LOWER_CLASSES.setdefault(lo, set()).add(x)
        try:
            from re._compiler import _ignorecase_fixes as fixes
        except Exception:   # pragma: no cover
            fixes = {}
        for k, vs in fixes.items():
            grp = set(vs) | {k}
            for g in list(grp):
                grp |= _LOWER_CLASSES.get(g, set())
            for g in grp:
                _LOWER_CLASSES[g] = set(grp) | _LOWER_CLASSES.get(g, set())
    lo = ord(chr(cp).lower()) if len(chr(cp).lower()) == 1 else cp
    return set(_LOWER_CLASSES.get(lo, {cp})) | {cp}


_CAT_PRED = None
_CAT_BOUNDS: Dict[str, List[int]] = {}


def _cat_pred(cat):
    """(name, predicate on a code point, negated?) of an sre category for str patterns (Unicode semantics, as `re` uses)"""
    name = str(cat)
    neg = 'NOT_' in name
    if 'DIGIT' in name:
        return 'digit', (lambda c: chr(c).isdecimal()), neg
    if 'SPACE' in name:
        return 'space', (lambda c: chr(c).isspace()), neg
    if 'WORD' in name:
        return 'word', (lambda c: chr(c).isalnum() or c == 95), neg
    raise AnalysisError('unsupported regex category %s' % name)


def _cat_bounds(cat) -> List[int]:
    name, pred, _ = _cat_pred(cat)
    if name not in _CAT_BOUNDS:
        b = []
        prev = False
        for c in range(MAXCH):
            v = pred(c)
            if v != prev:
                b.append(c)
                prev = v
        _CAT_BOUNDS[name] = b
    return _CAT_BOUNDS[name]


def _boundaries(tree, out: Set[int], icase: bool = False):
    if icase:
        tmp: Set[int] = set()
        _boundaries(tree, tmp, False)
        out |= tmp
        for op, av in tree:
            _icase_points(op, av, out)
        return
    for op, av in tree:
        if op is sre_c.LITERAL or op is sre_c.NOT_LITERAL:
            out.update((av, av + 1))
        elif op is sre_c.ANY:
            out.update((10, 11))
        elif op is sre_c.IN:
            for o2, a2 in av:
                if o2 is sre_c.LITERAL:
                    out.update((a2, a2 + 1))
                elif o2 is sre_c.RANGE:
                    out.update((a2[0], a2[1] + 1))
                elif o2 is sre_c.NEGATE:
                    pass
                elif o2 is sre_c.CATEGORY:
                    out.update(_cat_bounds(a2))
                else:
                    raise AnalysisError('unsupported regex class item %s' % (o2,))
        elif op is sre_c.BRANCH:
            for alt in av[1]:
                _boundaries(alt, out)
        elif op is sre_c.SUBPATTERN:
            if av[1] or av[2]:
                raise AnalysisError('inline regex flags are not supported')
            _boundaries(av[3], out)
        elif op in (sre_c.MAX_REPEAT, sre_c.MIN_REPEAT):
            _boundaries(av[2], out)
        elif op is sre_c.AT:
            pass
        else:
            raise AnalysisError('unsupported regex construct %s' % (op,))


def _icase_points(op, av, out: Set[int]):
    if op is sre_c.LITERAL or op is sre_c.NOT_LITERAL:
        for v in case_variants(av):
            out.update((v, v + 1))
    elif op is sre_c.IN:
        for o2, a2 in av:
            if o2 is sre_c.LITERAL:
                for v in case_variants(a2):
                    out.update((v, v + 1))
            elif o2 is sre_c.RANGE:
                if a2[1] - a2[0] > 1024:
                    raise AnalysisError('case-insensitive range too large')
                for c in range(a2[0], a2[1] + 1):
                    for v in case_variants(c):
                        out.update((v, v + 1))
    elif op is sre_c.BRANCH:
        for alt in av[1]:
            for o2, a2 in alt:
                _icase_points(o2, a2, out)
    elif op is sre_c.SUBPATTERN:
        for o2, a2 in av[3]:
            _icase_points(o2, a2, out)
    elif op in (sre_c.MAX_REPEAT, sre_c.MIN_REPEAT):
        for o2, a2 in av[2]:
            _icase_points(o2, a2, out)


class Alphabet:
    """Partition of the code points into intervals on which every pattern in play is uniform."""

    def __init__(self, patterns: Sequence[Tuple[str, int]], extra_chars: str = ''):
        b = {0, MAXCH}
        self.trees = {}
        for pat, fl in patterns:
            t = parse(pat, fl)
            self.trees[(pat, fl)] = t
            _boundaries(t, b, bool(fl & re.I))
        for ch in extra_chars:
            b.update((ord(ch), ord(ch) + 1))
        pts = sorted(x for x in b if 0 <= x <= MAXCH)
        self.intervals = [(pts[i], pts[i + 1] - 1) for i in range(len(pts) - 1)]
        self.n = len(self.intervals)
        # witness preference: printable ASCII letters/digits first
        def nice(iv):
            lo = iv[0]
            ch = chr(lo)
            if ch.isalnum() and lo < 128:
                return (0, lo)
            if 32 < lo < 127:
                return (1, lo)
            return (2, lo)
        self.order = sorted(range(self.n), key=lambda i: nice(self.intervals[i]))

    def cls(self, cp: int) -> int:
        lo, hi = 0, self.n - 1
        while lo <= hi:
            mid = (lo + hi) // 2
            a, b = self.intervals[mid]
            if cp < a:
                hi = mid - 1
            elif cp > b:
                lo = mid + 1
            else:
                return mid
        raise AnalysisError('code point outside alphabet')

    def classes_of_range(self, lo: int, hi: int) -> Set[int]:
        return {i for i, (a, b) in enumerate(self.intervals) if a >= lo and b <= hi}

    def rep(self, i: int) -> str:
        lo = self.intervals[i][0]
        if 0xD800 <= lo <= 0xDFFF:
            lo = 0xE000 if self.intervals[i][1] >= 0xE000 else lo
        return chr(lo)

    def word(self, classes: Sequence[int]) -> str:
        return ''.join(self.rep(c) for c in classes)

    # ---- NFA construction -----------------------------------------------------------------------
    def _nfa(self, tree, icase=False):
        nfa = _NFA()
        s = nfa.new()
        self._icase = icase
        f = self._build(tree, nfa, s)
        return nfa, s, f

    def _lit(self, cp: int) -> Set[int]:
        if getattr(self, '_icase', False):
            out = set()
            for v in case_variants(cp):
                out |= self.classes_of_range(v, v)
            return out
        return self.classes_of_range(cp, cp)

    def _rng(self, lo: int, hi: int) -> Set[int]:
        if getattr(self, '_icase', False):
            out = set()
            for c in range(lo, hi + 1):
                out |= self._lit(c)
            return out
        return self.classes_of_range(lo, hi)

    def _set_classes(self, items) -> Set[int]:
        neg = False
        acc: Set[int] = set()
        for o2, a2 in items:
            if o2 is sre_c.NEGATE:
                neg = True
            elif o2 is sre_c.LITERAL:
                acc |= self._lit(a2)
            elif o2 is sre_c.RANGE:
                acc |= self._rng(a2[0], a2[1])
            elif o2 is sre_c.CATEGORY:
                _, pred, cneg = _cat_pred(a2)
                acc |= {i for i, (lo, hi) in enumerate(self.intervals) if pred(lo) != cneg}
            else:
                raise AnalysisError('unsupported regex class item')
        return set(range(self.n)) - acc if neg else acc

    def _build(self, tree, nfa, start) -> int:
        cur = start
        for op, av in tree:
            if op is sre_c.LITERAL:
                nxt = nfa.new()
                nfa.trans[cur].append((frozenset(self._lit(av)), nxt))
                cur = nxt
            elif op is sre_c.NOT_LITERAL:
                nxt = nfa.new()
                nfa.trans[cur].append((frozenset(set(range(self.n)) - self._lit(av)), nxt))
                cur = nxt
            elif op is sre_c.ANY:
                nxt = nfa.new()
                nfa.trans[cur].append((frozenset(set(range(self.n)) - self.classes_of_range(10, 10)), nxt))
                cur = nxt
            elif op is sre_c.IN:
                nxt = nfa.new()
                nfa.trans[cur].append((frozenset(self._set_classes(av)), nxt))
                cur = nxt
            elif op is sre_c.BRANCH:
                end = nfa.new()
                for alt in av[1]:
                    s = nfa.new()
                    nfa.eps[cur].append((s, 'e'))
                    f = self._build(alt, nfa, s)
                    nfa.eps[f].append((end, 'e'))
                cur = end
            elif op is sre_c.SUBPATTERN:
                cur = self._build(av[3], nfa, cur)
            elif op in (sre_c.MAX_REPEAT, sre_c.MIN_REPEAT):
                lo, hi, sub = av
                for _ in range(lo):
                    cur = self._build(sub, nfa, cur)
                if hi is sre_c.MAXREPEAT:
                    loop = nfa.new()
                    nfa.eps[cur].append((loop, 'e'))
                    f = self._build(sub, nfa, loop)
                    nfa.eps[f].append((loop, 'e'))
                    cur = loop
                else:
                    end = nfa.new()
                    nfa.eps[cur].append((end, 'e'))
                    for _ in range(hi - lo):
                        cur = self._build(sub, nfa, cur)
                        nfa.eps[cur].append((end, 'e'))
                    cur = end
            elif op is sre_c.AT:
                nxt = nfa.new()
                if av in (sre_c.AT_BEGINNING, sre_c.AT_BEGINNING_STRING):
                    nfa.eps[cur].append((nxt, 'B'))
                elif av in (sre_c.AT_END, sre_c.AT_END_STRING):
                    nfa.eps[cur].append((nxt, 'E'))
                else:
                    raise AnalysisError('unsupported regex anchor %s' % (av,))
                cur = nxt
            else:
                raise AnalysisError('unsupported regex construct %s' % (op,))
        return cur

    # ---- languages ------------------------------------------------------------------------------
    def match_lang(self, pattern: str, flags: int = 0) -> 'DFA':
        """{ s : re.compile(pattern, flags).match(s) is not None }"""
        key = (pattern, flags)
        if key not in self.trees:
            raise AnalysisError('pattern was not declared to the alphabet: %r' % pattern)
        nfa, s, f = self._nfa(self.trees[key], bool(flags & re.I))
        # prefix semantics: after the pattern is satisfied without an end assertion, anything follows
        loop = nfa.new()
        final = nfa.new()
        nfa.eps[f].append((loop, 'e'))
        nfa.trans[loop].append((frozenset(range(self.n)), loop))
        nfa.eps[loop].append((final, 'e'))
        return nfa.determinize(self, s, final)

    def words(self, ws: Sequence[str]) -> 'DFA':
        nfa = _NFA()
        s = nfa.new()
        final = nfa.new()
        for w in ws:
            cur = s
            for ch in w:
                nxt = nfa.new()
                nfa.trans[cur].append((frozenset({self.cls(ord(ch))}), nxt))
                cur = nxt
            nfa.eps[cur].append((final, 'e'))
        return nfa.determinize(self, s, final)

    def first_in(self, chars: Sequence[str]) -> 'DFA':
        """non-empty strings whose first character is one of `chars`"""
        cl = frozenset(self.cls(ord(c)) for c in chars)
        return DFA(self, [[1 if c in cl else 2 for c in range(self.n)], [1] * self.n, [2] * self.n], {1})

    def first_not_in(self, chars: Sequence[str]) -> 'DFA':
        cl = frozenset(self.cls(ord(c)) for c in chars)
        return DFA(self, [[2 if c in cl else 1 for c in range(self.n)], [1] * self.n, [2] * self.n], {1})

    def empty_word(self) -> 'DFA':
        return DFA(self, [[1] * self.n, [1] * self.n], {0})

    def nothing(self) -> 'DFA':
        return DFA(self, [[0] * self.n], set())

    def everything(self) -> 'DFA':
        return DFA(self, [[0] * self.n], {0})


class _NFA:
    def __init__(self):
        self.eps: List[List[Tuple[int, str]]] = []
        self.trans: List[List[Tuple[FrozenSet[int], int]]] = []

    def new(self) -> int:
        self.eps.append([])
        self.trans.append([])
        return len(self.eps) - 1

    def closure(self, states, kinds) -> FrozenSet[int]:
        seen = set(states)
        stack = list(states)
        while stack:
            s = stack.pop()
            for t, k in self.eps[s]:
                if k in kinds and t not in seen:
                    seen.add(t)
                    stack.append(t)
        return frozenset(seen)

    def determinize(self, alpha: Alphabet, start: int, final: int) -> 'DFA':
        init = self.closure({start}, 'eB')
        index = {init: 0}
        order = [init]
        delta: List[List[int]] = []
        i = 0
        while i < len(order):
            S = order[i]
            row = []
            for c in range(alpha.n):
                tgt = set()
                for s in S:
                    for cls, t in self.trans[s]:
                        if c in cls:
                            tgt.add(t)
                T = self.closure(tgt, 'e')
                if T not in index:
                    index[T] = len(order)
                    order.append(T)
                row.append(index[T])
            delta.append(row)
            i += 1
        accept = set()
        for S, k in index.items():
            # at the end of input, end assertions hold; begin assertions hold only in the initial set
            kinds = 'eEB' if k == 0 else 'eE'
            if final in self.closure(S, kinds):
                accept.add(k)
        return DFA(alpha, delta, accept)


class DFA:
    def __init__(self, alpha: Alphabet, delta: List[List[int]], accept: Set[int]):
        self.alpha = alpha
        self.delta = delta
        self.accept = set(accept)

    def _product(self, other: 'DFA', f) -> 'DFA':
        if other.alpha is not self.alpha:
            raise AnalysisError('languages over different alphabets')
        n = self.alpha.n
        index = {(0, 0): 0}
        order = [(0, 0)]
        delta = []
        i = 0
        while i < len(order):
            a, b = order[i]
            row = []
            for c in range(n):
                t = (self.delta[a][c], other.delta[b][c])
                if t not in index:
                    index[t] = len(order)
                    order.append(t)
                row.append(index[t])
            delta.append(row)
            i += 1
        accept = {k for (a, b), k in index.items() if f(a in self.accept, b in other.accept)}
        return DFA(self.alpha, delta, accept).minimize()

    def __and__(self, o):
        return self._product(o, lambda x, y: x and y)

    def __or__(self, o):
        return self._product(o, lambda x, y: x or y)

    def __sub__(self, o):
        return self._product(o, lambda x, y: x and not y)

    def __invert__(self):
        return DFA(self.alpha, self.delta, set(range(len(self.delta))) - self.accept)

    def minimize(self) -> 'DFA':
        # remove unreachable, then Moore partition refinement
        n = self.alpha.n
        reach = [0]
        seen = {0}
        for s in reach:
            for c in range(n):
                t = self.delta[s][c]
                if t not in seen:
                    seen.add(t)
                    reach.append(t)
        part = {s: (1 if s in self.accept else 0) for s in reach}
        while True:
            sig = {s: (part[s], tuple(part[self.delta[s][c]] for c in range(n))) for s in reach}
            ids: Dict = {}
            newpart = {}
            for s in reach:
                newpart[s] = ids.setdefault(sig[s], len(ids))
            if len(ids) == len(set(part.values())):
                part = newpart
                break
            part = newpart
        # renumber with the initial state's block as 0
        remap = {}
        order = []
        for s in reach:
            b = part[s]
            if b not in remap:
                remap[b] = len(order)
                order.append(s)
        delta = [[remap[part[self.delta[s][c]]] for c in range(n)] for s in order]
        accept = {remap[part[s]] for s in reach if s in self.accept}
        return DFA(self.alpha, delta, accept)

    def witness(self) -> Optional[str]:
        """shortest accepted word (preferring printable characters), or None if the language is empty"""
        if 0 in self.accept:
            return ''
        prev = {0: None}
        queue = [0]
        for s in queue:
            for c in self.alpha.order:
                t = self.delta[s][c]
                if t not in prev:
                    prev[t] = (s, c)
                    if t in self.accept:
                        w = []
                        x = t
                        while prev[x] is not None:
                            x, cc = prev[x]
                            w.append(cc)
                        return self.alpha.word(list(reversed(w)))
                    queue.append(t)
        return None

    def is_empty(self) -> bool:
        return self.witness() is None

    def accepts(self, s: str) -> bool:
        st = 0
        for ch in s:
            st = self.delta[st][self.alpha.cls(ord(ch))]
        return st in self.accept

    def size(self) -> int:
        return len(self.delta)


def subset(a: DFA, b: DFA) -> Optional[str]:
    """None if L(a) is a subset of L(b), else the shortest word in a \\ b"""
    return (a - b).witness()


def equal(a: DFA, b: DFA) -> Optional[Tuple[str, str]]:
    w = (a - b).witness()
    if w is not None:
        return w, 'left-only'
    w = (b - a).witness()
    if w is not None:
        return w, 'right-only'
    return None
