"""E5 guard atoms: normalisation, copy propagation, abstract evaluation over small domains."""
import ast
from typing import Callable, Dict, List, Optional, Set, Tuple

from .model import walk_function, parent
from .cfg import CFG, conj_atoms, all_guards, expr_guards

CARD = (0, 1, 2, 3)     # 2 and 3 together stand for ">= 2"


def norm(e: ast.AST) -> str:
    return ast.unparse(e)


class Unknown(Exception):
    pass


# ---- copy propagation --------------------------------------------------------------------------------

class Copies:
    """Single-assignment locals of a function: name -> defining expression.

    Only names bound exactly once by a plain `x = expr` / `x: T = expr` statement that is not inside a
    loop are substituted, so the substitution is valid wherever the name is read after the binding.
    """

    def __init__(self, fn_node: ast.AST):
        self.defs: Dict[str, ast.AST] = {}
        counts: Dict[str, int] = {}
        cand: Dict[str, ast.AST] = {}
        for n in walk_function(fn_node):
            targets = []
            if isinstance(n, ast.Assign):
                for t in n.targets:
                    for x in ast.walk(t):
                        if isinstance(x, ast.Name):
                            targets.append(x.id)
                if len(n.targets) == 1 and isinstance(n.targets[0], ast.Name) and not _in_loop(n, fn_node):
                    cand[n.targets[0].id] = n.value
            elif isinstance(n, ast.AnnAssign):
                if isinstance(n.target, ast.Name):
                    targets.append(n.target.id)
                    if n.value is not None and not _in_loop(n, fn_node):
                        cand[n.target.id] = n.value
            elif isinstance(n, ast.AugAssign):
                for x in ast.walk(n.target):
                    if isinstance(x, ast.Name):
                        targets += [x.id, x.id]
            elif isinstance(n, (ast.For, ast.comprehension)):
                for x in ast.walk(n.target):
                    if isinstance(x, ast.Name):
                        targets += [x.id, x.id]
            elif isinstance(n, ast.With):
                for it in n.items:
                    if it.optional_vars is not None:
                        for x in ast.walk(it.optional_vars):
                            if isinstance(x, ast.Name):
                                targets += [x.id, x.id]
            elif isinstance(n, ast.ExceptHandler) and n.name:
                targets += [n.name, n.name]
            elif isinstance(n, ast.NamedExpr):
                targets += [n.target.id, n.target.id]
            for t in targets:
                counts[t] = counts.get(t, 0) + 1
        params = set()
        a = fn_node.args
        for x in a.posonlyargs + a.args + a.kwonlyargs + [y for y in (a.vararg, a.kwarg) if y]:
            params.add(x.arg)
        mutated = mutated_names(fn_node)
        for name, v in cand.items():
            if counts.get(name) == 1 and name not in params and name not in mutated:
                self.defs[name] = v

    def expand(self, e: ast.AST, depth: int = 4) -> ast.AST:
        """copy of `e` with single-assignment locals replaced by their definitions (parent links are not copied)"""
        if isinstance(e, ast.Name) and isinstance(e.ctx, ast.Load) and e.id in self.defs and depth > 0:
            return self.expand(self.defs[e.id], depth - 1)
        new = e.__class__()
        for name, value in ast.iter_fields(e):
            if isinstance(value, ast.AST):
                value = self.expand(value, depth)
            elif isinstance(value, list):
                value = [self.expand(x, depth) if isinstance(x, ast.AST) else x for x in value]
            setattr(new, name, value)
        for a in ('lineno', 'col_offset', 'end_lineno', 'end_col_offset'):
            if hasattr(e, a):
                setattr(new, a, getattr(e, a))
        return new

    def xnorm(self, e: ast.AST) -> str:
        return norm(self.expand(e))


_MUTATORS = {'append', 'extend', 'insert', 'pop', 'remove', 'clear', 'update', 'setdefault', 'popitem', 'sort', 'reverse',
             'move_to_end', 'add', 'discard', 'difference_update', 'intersection_update', 'symmetric_difference_update',
             'appendleft', 'popleft'}


def mutated_names(fn_node: ast.AST) -> Set[str]:
    """locals whose object is changed in place after binding (mutator call, item/attribute store, del, augmented item)"""
    out: Set[str] = set()
    for n in walk_function(fn_node):
        if isinstance(n, ast.Call) and isinstance(n.func, ast.Attribute) and n.func.attr in _MUTATORS \
                and isinstance(n.func.value, ast.Name):
            out.add(n.func.value.id)
        elif isinstance(n, (ast.Subscript, ast.Attribute)) and isinstance(n.ctx, (ast.Store, ast.Del)) \
                and isinstance(n.value, ast.Name):
            out.add(n.value.id)
    return out


def _in_loop(n: ast.AST, fn_node: ast.AST) -> bool:
    p = parent(n)
    while p is not None and p is not fn_node:
        if isinstance(p, (ast.For, ast.While)):
            return True
        p = parent(p)
    return False


# ---- abstract cardinality ----------------------------------------------------------------------------

def _num(e: ast.AST, subj: Callable[[ast.AST], bool], v: int):
    if isinstance(e, ast.Constant) and isinstance(e.value, int) and not isinstance(e.value, bool):
        return e.value
    if isinstance(e, ast.Call) and isinstance(e.func, ast.Name) and e.func.id == 'len' and len(e.args) == 1 \
            and subj(e.args[0]):
        return v
    raise Unknown()


def card_eval(e: ast.AST, subj: Callable[[ast.AST], bool], v: int) -> bool:
    """truth of `e` when len(subject) == v; raises Unknown if e talks about anything else"""
    if isinstance(e, ast.BoolOp):
        vals = [card_eval(x, subj, v) for x in e.values]
        return all(vals) if isinstance(e.op, ast.And) else any(vals)
    if isinstance(e, ast.UnaryOp) and isinstance(e.op, ast.Not):
        return not card_eval(e.operand, subj, v)
    if isinstance(e, ast.Compare):
        left = _num(e.left, subj, v)
        for op, right in zip(e.ops, e.comparators):
            r = _num(right, subj, v)
            ok = {ast.Eq: left == r, ast.NotEq: left != r, ast.Lt: left < r, ast.LtE: left <= r,
                  ast.Gt: left > r, ast.GtE: left >= r}.get(type(op))
            if ok is None:
                raise Unknown()
            if not ok:
                return False
            left = r
        return True
    if subj(e):
        return v > 0
    raise Unknown()


def card_admitted(guards: List[Tuple[ast.AST, bool]], subj: Callable[[ast.AST], bool]) -> Set[int]:
    """len values of the subject consistent with all guards that speak only about its length"""
    adm = set(CARD)
    for g, pol in guards:
        try:
            truth = {v for v in CARD if card_eval(g, subj, v)}
        except Unknown:
            continue
        adm &= truth if pol else (set(CARD) - truth)
    return adm


def card_truth(e: ast.AST, subj) -> Optional[Set[int]]:
    try:
        return {v for v in CARD if card_eval(e, subj, v)}
    except Unknown:
        return None


def name_subject(name: str) -> Callable[[ast.AST], bool]:
    return lambda e: isinstance(e, ast.Name) and e.id == name


def text_subject(text: str) -> Callable[[ast.AST], bool]:
    return lambda e: norm(e) == text


# ---- structural atoms ------------------------------------------------------------------------------

def last_attr(e: ast.AST) -> Optional[str]:
    if isinstance(e, ast.Attribute):
        return e.attr
    if isinstance(e, ast.Name):
        return e.id
    return None


def isinstance_atom(e: ast.AST) -> Optional[Tuple[str, Set[str]]]:
    """isinstance(X, K) / isinstance(X, (K1, K2)) -> (norm(X), {K names})"""
    if isinstance(e, ast.Call) and isinstance(e.func, ast.Name) and e.func.id == 'isinstance' and len(e.args) == 2:
        k = e.args[1]
        ks = k.elts if isinstance(k, ast.Tuple) else [k]
        names = set()
        for x in ks:
            n = last_attr(x)
            if n is None:
                return None
            names.add(n)
        return norm(e.args[0]), names
    return None


def known_instance(guards, subject: str, classes: Set[str]) -> bool:
    """some guard establishes isinstance(subject, K) with K within `classes` - directly, or as what is left of a positive test
    against several classes once the negative tests are taken away (`isinstance(x, (A, B))` and `not isinstance(x, A)`)"""
    excluded: Set[str] = set()
    for g, pol in guards:
        a = isinstance_atom(g)
        if a and not pol and a[0] == subject:
            excluded |= a[1]
    for g, pol in guards:
        a = isinstance_atom(g)
        if a and pol and a[0] == subject and (a[1] <= classes or (a[1] - excluded and a[1] - excluded <= classes)):
            return True
    return False


def const_str(e: ast.AST) -> Optional[str]:
    if isinstance(e, ast.Constant) and isinstance(e.value, str):
        return e.value
    if isinstance(e, ast.JoinedStr) and all(isinstance(v, ast.Constant) for v in e.values):
        return ''.join(v.value for v in e.values)
    if isinstance(e, ast.BinOp) and isinstance(e.op, ast.Add):
        a, b = const_str(e.left), const_str(e.right)
        if a is not None and b is not None:
            return a + b
    return None


def tag_equalities(guards, subject: str, copies: Optional[Copies] = None):
    """From guards, the constraint they put on `subject` (e.g. 'node.tag'):
    returns (allowed, excluded) where allowed is None (unconstrained) or the set of admitted
    right-hand sides (normalised source text; string constants are given as repr)."""
    allowed: Optional[Set[str]] = None
    excluded: Set[str] = set()

    def rhs(e):
        if copies is not None:
            e = copies.expand(e)
        s = const_str(e)
        return repr(s) if s is not None else norm(e)

    def sub(e):
        return (copies.xnorm(e) if copies is not None else norm(e)) == subject or norm(e) == subject

    for g, pol in guards:
        if not isinstance(g, ast.Compare) or len(g.ops) != 1:
            continue
        op, left, right = g.ops[0], g.left, g.comparators[0]
        vals = None
        positive = None
        if isinstance(op, (ast.Eq, ast.NotEq)):
            if sub(left):
                vals = {rhs(right)}
            elif sub(right):
                vals = {rhs(left)}
            positive = isinstance(op, ast.Eq) == pol
        elif isinstance(op, (ast.In, ast.NotIn)) and sub(left):
            r = copies.expand(right) if copies is not None else right
            if isinstance(r, (ast.Tuple, ast.List, ast.Set)):
                vals = {rhs(x) for x in r.elts}
                positive = isinstance(op, ast.In) == pol
        if vals is None:
            continue
        if positive:
            allowed = vals if allowed is None else (allowed & vals)
        else:
            excluded |= vals
    return allowed, excluded


def calls_in(tree: ast.AST, pred: Callable[[ast.Call], bool]) -> List[ast.Call]:
    return [n for n in ast.walk(tree) if isinstance(n, ast.Call) and pred(n)]


def call_name(c: ast.Call) -> Optional[str]:
    f = c.func
    if isinstance(f, ast.Name):
        return f.id
    if isinstance(f, ast.Attribute):
        return f.attr
    return None


def fn_calls(fi, name: str) -> List[ast.Call]:
    """calls lexically inside function `fi` (not nested defs) whose callee's last name is `name`"""
    return [n for n in walk_function(fi.node) if isinstance(n, ast.Call) and call_name(n) == name]


def kwarg(c: ast.Call, name: str) -> Optional[ast.AST]:
    for k in c.keywords:
        if k.arg == name:
            return k.value
    return None


# ---- canonical atoms ---------------------------------------------------------------------------------

_POS = {ast.NotEq: ast.Eq, ast.IsNot: ast.Is, ast.NotIn: ast.In}


def canon_atom(e: ast.AST, pol: bool = True) -> Tuple[str, bool]:
    """Canonical (text, polarity) of a guard atom: negations folded into the polarity, negative comparison operators
    turned into their positive twin, and every length/emptiness test of one subject mapped to one of three
    representatives (`X` = non-empty, `len(X) == 1`, `len(X) > 1`) by evaluating it over the cardinality domain."""
    while isinstance(e, ast.UnaryOp) and isinstance(e.op, ast.Not):
        e, pol = e.operand, not pol
    if isinstance(e, ast.Call) and isinstance(e.func, ast.Name) and e.func.id == 'bool' and len(e.args) == 1:
        return canon_atom(e.args[0], pol)
    if isinstance(e, ast.Compare) and len(e.ops) == 1:
        subj = None
        for side in (e.left, e.comparators[0]):
            if isinstance(side, ast.Call) and isinstance(side.func, ast.Name) and side.func.id == 'len' and len(side.args) == 1:
                subj = side.args[0]
        if subj is not None:
            st = norm(subj)
            truth = card_truth(e, text_subject(st))
            if truth is not None:
                reps = {frozenset({1, 2, 3}): (st, True), frozenset({0}): (st, False),
                        frozenset({1}): ('len(%s) == 1' % st, True), frozenset({0, 2, 3}): ('len(%s) == 1' % st, False),
                        frozenset({2, 3}): ('len(%s) > 1' % st, True), frozenset({0, 1}): ('len(%s) > 1' % st, False)}
                rep = reps.get(frozenset(truth))
                if rep is not None:
                    return rep[0], rep[1] == pol
        if type(e.ops[0]) in _POS:
            e = ast.Compare(e.left, [_POS[type(e.ops[0])]()], e.comparators)
            pol = not pol
        elif isinstance(e.ops[0], (ast.Eq,)) and isinstance(e.left, ast.Constant) and not isinstance(e.comparators[0], ast.Constant):
            e = ast.Compare(e.comparators[0], e.ops, [e.left])
    return norm(e), pol


def atomset(*atoms) -> Set[Tuple[str, bool]]:
    """expected guard set written as source text: 'x is not None' or ('len(v) == 1', True)"""
    out = set()
    for a in atoms:
        text, pol = (a, True) if isinstance(a, str) else a
        out.add(canon_atom(ast.parse(text, mode='eval').body, pol))
    return out


# ---- alpha-canonical local names -----------------------------------------------------------------------

class Alpha:
    """Names locals by what they are bound to instead of by how they are spelt, so that rules and construct keys survive a
    renaming of locals or the introduction of a temporary:

      * a local bound exactly once by `v = e` is replaced by (the canonical text of) `e`;
      * a loop / comprehension variable bound exactly once is `<each:ITER>` (`<each:ITER>[i]` for tuple targets);
      * `except ... as e` is `<exc>`;
      * any other local (several bindings: flags, accumulators) is `<var:k>`, k = order of its first binding among those.

    Parameters, globals and attribute names are kept."""

    def __init__(self, fn_node: ast.AST):
        self.fn = fn_node
        a = fn_node.args
        self.params = {x.arg for x in a.posonlyargs + a.args + a.kwonlyargs + [y for y in (a.vararg, a.kwarg) if y]}
        binds: Dict[str, List[Tuple[str, ast.AST, Optional[int]]]] = {}
        order: List[str] = []

        def bind(name, kind, src, idx=None):
            if name in self.params:
                return
            if name not in binds:
                binds[name] = []
                order.append(name)
            binds[name].append((kind, src, idx))

        def targets(t, kind, src):
            if isinstance(t, ast.Name):
                bind(t.id, kind, src)
            elif isinstance(t, (ast.Tuple, ast.List)):
                for i, el in enumerate(t.elts):
                    if isinstance(el, ast.Name):
                        bind(el.id, kind, src, i)
                    else:
                        for x in ast.walk(el):
                            if isinstance(x, ast.Name) and isinstance(x.ctx, ast.Store):
                                bind(x.id, 'multi', None)

        for n in walk_function(fn_node):
            if isinstance(n, ast.Assign):
                for t in n.targets:
                    targets(t, 'def', n.value)
            elif isinstance(n, ast.AnnAssign) and n.value is not None:
                targets(n.target, 'def', n.value)
            elif isinstance(n, ast.AugAssign):
                for x in ast.walk(n.target):
                    if isinstance(x, ast.Name):
                        bind(x.id, 'multi', None)
                        bind(x.id, 'multi', None)
            elif isinstance(n, (ast.For, ast.comprehension)):
                targets(n.target, 'each', n.iter)
            elif isinstance(n, ast.With):
                for it in n.items:
                    if it.optional_vars is not None:
                        targets(it.optional_vars, 'with', it.context_expr)
            elif isinstance(n, ast.ExceptHandler) and n.name:
                bind(n.name, 'exc', None)
            elif isinstance(n, ast.NamedExpr):
                bind(n.target.id, 'def', n.value)
        # several bindings of the same kind from the same source (two loops over one collection) count as one
        for v, b in binds.items():
            if len(b) > 1 and all(k == b[0][0] and src is not None and i == b[0][2] and ast.dump(src) == ast.dump(b[0][1])
                                  for k, src, i in b if True) and b[0][0] in ('each', 'def') and b[0][1] is not None:
                binds[v] = [b[0]]
        self.binds = binds

        mutated = mutated_names(fn_node)

        def opaque(v):
            b = binds[v]
            if v in mutated and b[0][0] == 'def':
                return True
            if all(k == 'exc' for k, _, _ in b):
                return False
            if len(b) > 1:
                return True
            k, src, _ = b[0]
            # fresh empty containers and constants do not identify a variable: two accumulators must stay distinct
            return k == 'def' and (isinstance(src, ast.Constant) or (isinstance(src, (ast.List, ast.Dict, ast.Set, ast.Tuple))
                                                                   and not getattr(src, 'elts', getattr(src, 'keys', None)))
                                   or (isinstance(src, ast.Call) and not src.args and not src.keywords
                                       and isinstance(src.func, ast.Name)))
        self.multi = [v for v in order if opaque(v)]
        self._memo: Dict[str, Optional[ast.AST]] = {}

    def _token(self, name: str, depth: int) -> Optional[ast.AST]:
        b = self.binds.get(name)
        if not b:
            return None
        if all(k == 'exc' for k, _, _ in b):
            return ast.Name('<exc>', ast.Load())
        if name in self.multi:
            return ast.Name('<var:%d>' % self.multi.index(name), ast.Load())
        kind, src, idx = b[0]
        if kind == 'multi' or src is None or depth <= 0:
            return ast.Name('<var:%s>' % name, ast.Load())
        inner = self.rewrite(src, depth - 1)
        if kind == 'def':
            e = inner
        elif kind == 'each':
            e = ast.Name('<each:%s>' % norm(inner), ast.Load())
        else:
            e = ast.Name('<with:%s>' % norm(inner), ast.Load())
        if idx is not None:
            # `a, b = xs[:2]`: the i-th target is xs[i]
            if kind == 'def' and isinstance(e, ast.Subscript) and isinstance(e.slice, ast.Slice) and e.slice.step is None \
                    and (e.slice.lower is None or (isinstance(e.slice.lower, ast.Constant) and e.slice.lower.value == 0)) \
                    and isinstance(e.slice.upper, ast.Constant) and isinstance(e.slice.upper.value, int) and 0 <= idx < e.slice.upper.value:
                e = e.value
            e = ast.Subscript(e, ast.Constant(idx), ast.Load())
        return e

    def rewrite(self, e: ast.AST, depth: int = 6) -> ast.AST:
        if isinstance(e, ast.Name) and e.id not in self.params:
            t = self._token(e.id, depth)
            if t is not None:
                return t
            return e
        new = e.__class__()
        for name, value in ast.iter_fields(e):
            if isinstance(value, ast.AST):
                value = self.rewrite(value, depth)
            elif isinstance(value, list):
                value = [self.rewrite(x, depth) if isinstance(x, ast.AST) else x for x in value]
            setattr(new, name, value)
        return new

    def text(self, e: ast.AST) -> str:
        return norm(self.rewrite(e))

    def name(self, local: str) -> str:
        return self.text(ast.Name(local, ast.Load()))

    def atom(self, e: ast.AST, pol: bool = True) -> Tuple[str, bool]:
        return canon_atom(self.rewrite(e), pol)
