"""Step L of the canonical decomposition: a hand-written copy of a small PyYAML entry point is the call of that entry point.

The pattern is read from the installed PyYAML on every run (the body of yaml.load), with its parameters as expression
meta-variables and its locals as name meta-variables; a run of statements in a yatiml function that matches it statement for
statement is replaced by `return yaml.load(<stream>, Loader=<loader class>)`.
"""
import ast
import copy
from typing import Dict, List, Optional


class _NoMatch(Exception):
    pass


def _match(pat: ast.AST, node: ast.AST, params: set, locals_: set, binding: Dict[str, ast.AST]):
    if isinstance(pat, ast.Name) and pat.id in params:
        if not isinstance(node, ast.expr):
            raise _NoMatch()
        if pat.id in binding:
            if ast.dump(binding[pat.id]) != ast.dump(node):
                raise _NoMatch()
        else:
            binding[pat.id] = node
        return
    if isinstance(pat, ast.Name) and pat.id in locals_:
        if not isinstance(node, ast.Name):
            raise _NoMatch()
        key = '$' + pat.id
        if key in binding:
            if binding[key].id != node.id:
                raise _NoMatch()
        else:
            binding[key] = node
        return
    if type(pat) is not type(node):
        raise _NoMatch()
    for f in pat._fields:
        a, b = getattr(pat, f, None), getattr(node, f, None)
        if f == 'ctx' or f in ('type_comment', 'lineno'):
            continue
        if isinstance(a, list):
            if not isinstance(b, list) or len(a) != len(b):
                raise _NoMatch()
            for x, y in zip(a, b):
                if isinstance(x, ast.AST):
                    _match(x, y, params, locals_, binding)
                elif x != y:
                    raise _NoMatch()
        elif isinstance(a, ast.AST):
            if not isinstance(b, ast.AST):
                raise _NoMatch()
            _match(a, b, params, locals_, binding)
        elif a != b:
            raise _NoMatch()


def fold_library_idioms(tree: ast.Module, yaml_source: str) -> List[str]:
    log: List[str] = []
    try:
        ymod = ast.parse(yaml_source)
    except SyntaxError:
        return log
    load = next((n for n in ymod.body if isinstance(n, ast.FunctionDef) and n.name == 'load'), None)
    if load is None:
        return log
    pat = [s for s in load.body if not (isinstance(s, ast.Expr) and isinstance(s.value, ast.Constant))]
    params = {a.arg for a in load.args.args}
    if params != {'stream', 'Loader'} or not pat:
        return log
    locals_ = {n.id for s in pat for n in ast.walk(s) if isinstance(n, ast.Name) and not isinstance(n.ctx, ast.Load)}
    for fn in [n for n in ast.walk(tree) if isinstance(n, (ast.FunctionDef, ast.AsyncFunctionDef))]:
        for holder in ast.walk(fn):
            for fld in ('body', 'orelse', 'finalbody'):
                blk = getattr(holder, fld, None)
                if not (isinstance(blk, list) and blk and isinstance(blk[0], ast.stmt)):
                    continue
                i = 0
                while i + len(pat) <= len(blk):
                    binding: Dict[str, ast.AST] = {}
                    try:
                        for p, s in zip(pat, blk[i:i + len(pat)]):
                            _match(p, s, params, locals_, binding)
                    except _NoMatch:
                        i += 1
                        continue
                    # the locals of the pattern must not be used elsewhere in the function
                    names = {v.id for k, v in binding.items() if k.startswith('$')}
                    inside = {id(n) for s in blk[i:i + len(pat)] for n in ast.walk(s)}
                    if any(isinstance(n, ast.Name) and n.id in names and id(n) not in inside for n in ast.walk(fn)):
                        i += 1
                        continue
                    call = ast.Call(ast.Attribute(ast.Name('yaml', ast.Load()), 'load', ast.Load()), [copy.deepcopy(binding['stream'])],
                                    [ast.keyword('Loader', copy.deepcopy(binding['Loader']))])
                    new = ast.copy_location(ast.Return(call), blk[i])
                    ast.fix_missing_locations(new)
                    blk[i:i + len(pat)] = [new]
                    log.append('%s: a hand-written copy of yaml.load (PyYAML\'s own body) is read as yaml.load(%s, Loader=%s)'
                               % (fn.name, ast.unparse(binding['stream']), ast.unparse(binding['Loader'])))
                    i += 1
    return log
