"""Canonical form, second library (N36-N40): collection-building loops.  Applied before normalize._Norm.

 N36 `for i, d in enumerate(DS): .. A[E + i] ..` (i used only to index one sequence A at a loop-invariant offset E)
       -> `for a, d in zip(A[E:], DS): .. a ..`      (`name = A[E + i]` as the first statement names the element directly)
 N37 inside a loop `if C: v = X` (v a loop target, no else) followed by the single statement S that reads v, v dead afterwards
       -> `if C: S[v:=X] else: S`
 N38 `D[k] = A if C else B` / `x.a = A if C else B` (a statement)  ->  `if C: D[k] = A else: D[k] = B`
 N56 adjacent `if T: A else: B` + `if T: C else: D` (same isinstance test, name not re-bound) -> `if T: A; C else: B; D`
 N39 `len(X) if X else 0` -> `len(X or ())`
 N67 a second `Node(x)` wrapper that replaces the first (`w2 = Node(x); ..; w = w2`, w only asked so far) is the first
 N65 nested generator expressions are fused;  N66 `zip` of two generators over the same collection with complementary tuple patterns
     is one generator of pairs
 N63 `X is None` right after `X.attr` was read (same block, no store, no call in between) is false
 N64 isinstance tests on a never re-bound parameter against built-in kinds are folded under the enclosing tests that decide them
 N62 worklist elimination: `todo = [P]; while todo: cur = todo.pop(); BODY; todo.extend(reversed(XS))` -> the recursion over XS
 N60 `x, = S` -> `x = next(iter(S))`
 N59 `L = [E for T in XS if C]; if not L: raise ..; for y in L: BODY` -> the scan with a found-flag
 N53 `D.get(K, X)` over plain operands -> `D[K] if K in D else X`
 N51 a loop variable re-bound from itself (`k = f(k)`) gets its own name for the new value
 N52 a run of single-use temporaries read in binding order by the next statement is substituted into it
 N50 after `if v is None: v = <fresh object>` later `v is [not] None` tests in the block are decided
 N48 `return {K: A if C else B for T in XS}` -> the loop that builds it;  N49 a dead store of a name/constant (`_ = x`) is dropped
 N46 a local bound only to literals, once per branch, is replaced by the literal that reaches each read (straight-line, outside loops)
 N47 `next(<generator expression>)` without a default -> `[<comprehension>][0]`
 N42 `isinstance(E.yaml_node, yaml.SequenceNode)` -> `E.is_sequence()`, MappingNode -> `E.is_mapping()` (outside the predicates)
 N43 local copy propagation `v = w` (both bound once)
 N41 `a, b = [(E1, E2) for .. in XS if C][i]` -> `a = [E1 for ..][i]`, `b = [E2 for ..][i]` (targets nobody reads are dropped)
 N40 `t = A[E:]` bound once and only iterated (for / zip / enumerate / len) is inlined at its uses (a slice is a fresh sequence)

They assume what the loops they rewrite already assume: indices inside the sequence (N36: A[E + i] exists for every element of DS).
"""
import ast
import copy
from typing import List, Optional, Set


def _names(e: ast.AST) -> Set[str]:
    return {x.id for x in ast.walk(e) if isinstance(x, ast.Name)}


def _stored(stmts: List[ast.stmt]) -> Set[str]:
    return {x.id for s in stmts for x in ast.walk(s) if isinstance(x, ast.Name) and not isinstance(x.ctx, ast.Load)}


def _is_chain(e: ast.AST) -> bool:
    while isinstance(e, ast.Attribute):
        e = e.value
    return isinstance(e, ast.Name)


class _Subst(ast.NodeTransformer):
    def __init__(self, pred, make):
        self.pred, self.make = pred, make

    def visit(self, n):
        if self.pred(n):
            return ast.copy_location(self.make(n), n)
        return self.generic_visit(n)


def _own_nodes(fn):
    """nodes of fn without the insides of nested classes and functions (their statements are not this function's)"""
    stack = [fn]
    while stack:
        n = stack.pop()
        yield n
        for c in ast.iter_child_nodes(n):
            if isinstance(c, (ast.ClassDef, ast.FunctionDef, ast.AsyncFunctionDef, ast.Lambda)):
                continue
            stack.append(c)


def _blocks(fn):
    for n in _own_nodes(fn):
        for fld in ('body', 'orelse', 'finalbody'):
            v = getattr(n, fld, None)
            if isinstance(v, list) and v and isinstance(v[0], ast.stmt):
                yield n, fld, v
        for h in getattr(n, 'handlers', []) or []:
            yield h, 'body', h.body


def _n39(tree: ast.AST):
    class T(ast.NodeTransformer):
        def visit_IfExp(self, n):
            self.generic_visit(n)
            if (isinstance(n.orelse, ast.Constant) and n.orelse.value == 0 and not isinstance(n.orelse.value, bool)
                    and isinstance(n.body, ast.Call) and isinstance(n.body.func, ast.Name) and n.body.func.id == 'len'
                    and len(n.body.args) == 1 and not n.body.keywords and _is_chain(n.test)
                    and ast.dump(n.body.args[0]) == ast.dump(n.test)):
                return ast.copy_location(ast.Call(ast.Name('len', ast.Load()),
                                                  [ast.BoolOp(ast.Or(), [n.test, ast.Tuple([], ast.Load())])], []), n)
            return n
    return T().visit(tree)


def _n38(fn):
    for holder, fld, blk in list(_blocks(fn)):
        out = []
        for st in blk:
            if (isinstance(st, ast.Assign) and len(st.targets) == 1 and isinstance(st.targets[0], (ast.Subscript, ast.Attribute))
                    and isinstance(st.value, ast.IfExp) and _is_chain(st.targets[0].value)):
                t = st.targets[0]
                a = ast.copy_location(ast.Assign([copy.deepcopy(t)], st.value.body, lineno=st.lineno), st)
                b = ast.copy_location(ast.Assign([copy.deepcopy(t)], st.value.orelse, lineno=st.lineno), st)
                out.append(ast.copy_location(ast.If(st.value.test, [a], [b]), st))
            else:
                out.append(st)
        setattr(holder, fld, out)


def _n37(fn):
    for loop in [n for n in ast.walk(fn) if isinstance(n, ast.For)]:
        targets = {x.id for x in ast.walk(loop.target) if isinstance(x, ast.Name)}
        body = loop.body
        i = 0
        while i + 1 < len(body):
            st, nx = body[i], body[i + 1]
            if (isinstance(st, ast.If) and not st.orelse and len(st.body) == 1 and isinstance(st.body[0], ast.Assign)
                    and len(st.body[0].targets) == 1 and isinstance(st.body[0].targets[0], ast.Name)
                    and st.body[0].targets[0].id in targets and isinstance(nx, (ast.Assign, ast.Expr, ast.Return))):
                v = st.body[0].targets[0].id
                x = st.body[0].value
                later = body[i + 2:]
                reads_later = any(isinstance(y, ast.Name) and y.id == v for s in later for y in ast.walk(s))
                stores_nx = any(isinstance(y, ast.Name) and y.id == v and not isinstance(y.ctx, ast.Load) for y in ast.walk(nx))
                reads_nx = [y for y in ast.walk(nx) if isinstance(y, ast.Name) and y.id == v and isinstance(y.ctx, ast.Load)]
                after_loop = False     # the loop target is dead after the loop unless somebody reads it: be conservative
                for n in ast.walk(fn):
                    if isinstance(n, ast.Name) and n.id == v and isinstance(n.ctx, ast.Load) \
                            and not any(n is y for y in ast.walk(loop)):
                        after_loop = True
                if reads_nx and not reads_later and not stores_nx and not after_loop and v not in _names(x) | set():
                    yes = _Subst(lambda n: isinstance(n, ast.Name) and n.id == v and isinstance(n.ctx, ast.Load),
                                 lambda n: copy.deepcopy(x)).visit(copy.deepcopy(nx))
                    body[i:i + 2] = [ast.copy_location(ast.If(st.test, [yes], [nx]), st)]
                    continue
            i += 1


def _index_uses(body: List[ast.stmt], iv: str):
    """all loads of iv in body; and for each, the enclosing `A[E + iv]` subscript if it has that shape"""
    parents = {}
    for s in body:
        for x in ast.walk(s):
            for c in ast.iter_child_nodes(x):
                parents[id(c)] = x
    uses = []
    for s in body:
        for x in ast.walk(s):
            if isinstance(x, ast.Name) and x.id == iv:
                if not isinstance(x.ctx, ast.Load):
                    return None
                p = parents.get(id(x))
                sub = None
                off = None
                if isinstance(p, ast.Subscript) and p.slice is x and isinstance(p.ctx, ast.Load):
                    sub, off = p, None
                elif isinstance(p, ast.BinOp) and isinstance(p.op, ast.Add):
                    pp = parents.get(id(p))
                    if isinstance(pp, ast.Subscript) and pp.slice is p and isinstance(pp.ctx, ast.Load):
                        sub, off = pp, (p.right if p.left is x else p.left)
                if sub is None or not _is_chain(sub.value):
                    return None
                uses.append((sub, off))
    return uses


def _n36(fn, counter):
    for holder, fld, blk in list(_blocks(fn)):
        for k, lo in enumerate(blk):
            if not (isinstance(lo, ast.For) and isinstance(lo.iter, ast.Call) and isinstance(lo.iter.func, ast.Name)
                    and lo.iter.func.id == 'enumerate' and len(lo.iter.args) == 1 and not lo.iter.keywords
                    and isinstance(lo.target, ast.Tuple) and len(lo.target.elts) == 2 and isinstance(lo.target.elts[0], ast.Name)
                    and not lo.orelse):
                continue
            iv = lo.target.elts[0].id
            uses = _index_uses(lo.body, iv)
            if not uses:
                continue
            seqs = {ast.dump(s.value) for s, _ in uses}
            offs = {ast.dump(o) if o is not None else '' for _, o in uses}
            if len(seqs) != 1 or len(offs) != 1:
                continue
            sub0, off0 = uses[0]
            stored = _stored(lo.body) | {x.id for x in ast.walk(lo.target) if isinstance(x, ast.Name)}
            if (_names(sub0.value) | (_names(off0) if off0 is not None else set())) & stored:
                continue
            # iv must not be read after the loop
            if any(isinstance(n, ast.Name) and n.id == iv and not any(n is y for y in ast.walk(lo)) for n in ast.walk(fn)):
                continue
            first = lo.body[0]
            if (isinstance(first, ast.Assign) and len(first.targets) == 1 and isinstance(first.targets[0], ast.Name)
                    and first.value is sub0 and len(uses) == 1
                    and sum(1 for n in ast.walk(fn) if isinstance(n, ast.Name) and n.id == first.targets[0].id
                            and not isinstance(n.ctx, ast.Load)) == 1):
                ev = first.targets[0].id
                lo.body = lo.body[1:] or [ast.Pass()]
            else:
                counter[0] += 1
                ev = 'elem__z%d' % counter[0]
                ids = {id(s) for s, _ in uses}
                lo.body = [_Subst(lambda n: id(n) in ids, lambda n: ast.Name(ev, ast.Load())).visit(s) for s in lo.body]
            seq = ast.Subscript(sub0.value, ast.Slice(off0, None, None), ast.Load()) if off0 is not None else sub0.value
            lo.target = ast.Tuple([ast.Name(ev, ast.Store()), lo.target.elts[1]], ast.Store())
            lo.iter = ast.copy_location(ast.Call(ast.Name('zip', ast.Load()), [seq, lo.iter.args[0]], []), lo.iter)


def _n40(fn):
    for holder, fld, blk in list(_blocks(fn)):
        for st in list(blk):
            if not (isinstance(st, ast.Assign) and len(st.targets) == 1 and isinstance(st.targets[0], ast.Name)
                    and isinstance(st.value, ast.Subscript) and isinstance(st.value.slice, ast.Slice) and _is_chain(st.value.value)):
                continue
            v = st.targets[0].id
            stores = [n for n in ast.walk(fn) if isinstance(n, ast.Name) and n.id == v and not isinstance(n.ctx, ast.Load)]
            loads = [n for n in ast.walk(fn) if isinstance(n, ast.Name) and n.id == v and isinstance(n.ctx, ast.Load)]
            if len(stores) != 1 or not loads:
                continue
            parents = {}
            for x in ast.walk(fn):
                for c in ast.iter_child_nodes(x):
                    parents[id(c)] = x
            ok = True
            for l in loads:
                p = parents.get(id(l))
                if isinstance(p, ast.Call) and isinstance(p.func, ast.Name) and p.func.id in ('zip', 'enumerate', 'len') and l in p.args:
                    continue
                if isinstance(p, (ast.For, ast.comprehension)) and p.iter is l:
                    continue
                ok = False
            # the names the slice reads must not be rebound between the binding and the uses: require that they are never rebound
            reb = {n.id for n in ast.walk(fn) if isinstance(n, ast.Name) and not isinstance(n.ctx, ast.Load)}
            deps = _names(st.value)
            multi = {d for d in deps if sum(1 for n in ast.walk(fn) if isinstance(n, ast.Name) and n.id == d
                                            and not isinstance(n.ctx, ast.Load)) > 1}
            if not ok or multi:
                continue
            # uses must come after the binding in the same block or nested below it
            idx = blk.index(st)
            later = {id(n) for s in blk[idx + 1:] for n in ast.walk(s)}
            if not all(id(l) in later for l in loads):
                continue
            for l in loads:
                p = parents[id(l)]
                new = copy.deepcopy(st.value)
                for f_, val in ast.iter_fields(p):
                    if val is l:
                        setattr(p, f_, new)
                    elif isinstance(val, list):
                        for j, y in enumerate(val):
                            if y is l:
                                val[j] = new
            blk.remove(st)
            if not blk:
                blk.append(ast.Pass())


def _n41(fn):
    """N41 `a, b = [(E1, E2) for .. in XS if C][i]` -> `a = [E1 for ..][i]; b = [E2 for ..][i]`; a target that is never read is dropped"""
    for holder, fld, blk in list(_blocks(fn)):
        out = []
        for st in blk:
            if (isinstance(st, ast.Assign) and len(st.targets) == 1 and isinstance(st.targets[0], ast.Tuple)
                    and all(isinstance(t, ast.Name) for t in st.targets[0].elts) and isinstance(st.value, ast.Subscript)
                    and isinstance(st.value.value, (ast.ListComp,)) and isinstance(st.value.value.elt, ast.Tuple)
                    and len(st.value.value.elt.elts) == len(st.targets[0].elts) and isinstance(st.value.slice, ast.Constant)):
                lc = st.value.value
                for t, e in zip(st.targets[0].elts, lc.elt.elts):
                    read = any(isinstance(n, ast.Name) and n.id == t.id and isinstance(n.ctx, ast.Load) for n in ast.walk(fn))
                    if not read:
                        continue
                    new_lc = ast.ListComp(copy.deepcopy(e), copy.deepcopy(lc.generators))
                    out.append(ast.copy_location(ast.Assign([ast.Name(t.id, ast.Store())],
                                                            ast.Subscript(new_lc, copy.deepcopy(st.value.slice), ast.Load()),
                                                            lineno=st.lineno), st))
                if not out or out[-1] is None:
                    pass
            else:
                out.append(st)
        setattr(holder, fld, out or [ast.Pass()])


_KIND_METHOD = {'SequenceNode': 'is_sequence', 'MappingNode': 'is_mapping'}


def _n42(tree: ast.Module):
    """N42 `isinstance(E.yaml_node, yaml.SequenceNode)` -> `E.is_sequence()` (MappingNode -> is_mapping()) for a wrapped node E other
    than the method's own `self` inside the definitions of those very predicates"""
    def rewrite(fn, own_self: Optional[str], forbidden: bool):
        class T(ast.NodeTransformer):
            def visit_FunctionDef(self, n):
                return n if n is not fn else self.generic_visit(n)

            def visit_Call(self, n):
                self.generic_visit(n)
                if (isinstance(n.func, ast.Name) and n.func.id == 'isinstance' and len(n.args) == 2 and not n.keywords
                        and isinstance(n.args[0], ast.Attribute) and n.args[0].attr == 'yaml_node' and _is_chain(n.args[0])):
                    cls = n.args[1]
                    nm = cls.attr if isinstance(cls, ast.Attribute) else cls.id if isinstance(cls, ast.Name) else None
                    recv = n.args[0].value
                    if nm in _KIND_METHOD and not (forbidden and isinstance(recv, ast.Name) and recv.id == own_self):
                        return ast.copy_location(ast.Call(ast.Attribute(recv, _KIND_METHOD[nm], ast.Load()), [], []), n)
                return n
        T().visit(fn)
    for st in tree.body:
        if isinstance(st, ast.ClassDef):
            if st.name == 'UnknownNode':
                continue
            for m in st.body:
                if isinstance(m, ast.FunctionDef):
                    own = m.args.args[0].arg if m.args.args else None
                    # inside class Node the receiver `self` keeps the isinstance form in the predicates themselves only
                    rewrite(m, own, forbidden=(st.name != 'Node' or m.name in ('is_sequence', 'is_mapping', 'is_scalar')))
                    if st.name != 'Node':
                        pass
        elif isinstance(st, ast.FunctionDef):
            rewrite(st, None, False)


def _n43(fn):
    """N43 local copy propagation: `v = w` with v and w each bound exactly once in the function (w not a parameter that is
    re-bound) -> reads of v become w"""
    params = {a.arg for a in ast.walk(fn.args) if isinstance(a, ast.arg)}
    for holder, fld, blk in list(_blocks(fn)):
        for st in list(blk):
            if not (isinstance(st, ast.Assign) and len(st.targets) == 1 and isinstance(st.targets[0], ast.Name)
                    and isinstance(st.value, ast.Name) and st.value.id != st.targets[0].id):
                continue
            v, w = st.targets[0].id, st.value.id
            if v in params:
                continue

            def stores(name):
                n_ = sum(1 for n in ast.walk(fn) if isinstance(n, ast.Name) and n.id == name and not isinstance(n.ctx, ast.Load))
                n_ += sum(1 for n in ast.walk(fn) if isinstance(n, ast.ExceptHandler) and n.name == name)
                return n_
            if stores(v) != 1 or stores(w) != (0 if w in params else 1):
                continue
            if any(isinstance(n, (ast.FunctionDef, ast.Lambda, ast.ClassDef)) and n is not fn
                   and any(isinstance(x, ast.Name) and x.id in (v, w) for x in ast.walk(n)) for n in ast.walk(fn)):
                continue
            if w not in params and w not in ('None', 'True', 'False') and stores(w) == 0:
                continue        # a global
            idx = blk.index(st)
            later = {id(n) for s_ in blk[idx + 1:] for n in ast.walk(s_)}
            loads = [n for n in ast.walk(fn) if isinstance(n, ast.Name) and n.id == v and isinstance(n.ctx, ast.Load)]
            if not loads or any(id(n) not in later for n in loads):
                # reads outside the block of the binding (after an if/else that binds v on one arm only) are fine when the other
                # arms leave the function: keep it simple and require the binding block to be the function body or its reads local
                if not loads or not _dominated(fn, blk, idx, loads):
                    continue
            for n in loads:
                n.id = w
            blk.remove(st)
            if not blk:
                blk.append(ast.copy_location(ast.Pass(), st))


def _dominated(fn, blk, idx, loads) -> bool:
    """every read lies after the binding: in the same block, or after an enclosing `if` all of whose other arms end in
    return / raise / continue / break"""
    def leaves(stmts):
        return bool(stmts) and isinstance(stmts[-1], (ast.Return, ast.Raise, ast.Continue, ast.Break)) or (
            bool(stmts) and isinstance(stmts[-1], ast.If) and leaves(stmts[-1].body) and leaves(stmts[-1].orelse))
    parents = {}
    for x in ast.walk(fn):
        for fld in ('body', 'orelse'):
            v = getattr(x, fld, None)
            if isinstance(v, list):
                parents[id(v)] = (x, fld)
    ok_ids = {id(n) for s_ in blk[idx + 1:] for n in ast.walk(s_)}
    cur = blk
    while id(cur) in parents:
        owner, fld = parents[id(cur)]
        if not isinstance(owner, ast.If):
            break
        other = owner.orelse if fld == 'body' else owner.body
        if not leaves(other):
            break
        # the statements after `owner` in its own block
        outer = None
        for x in ast.walk(fn):
            for f2 in ('body', 'orelse', 'finalbody'):
                v = getattr(x, f2, None)
                if isinstance(v, list) and any(y is owner for y in v):
                    outer = v
        if outer is None:
            break
        k = [i for i, y in enumerate(outer) if y is owner][0]
        ok_ids |= {id(n) for s_ in outer[k + 1:] for n in ast.walk(s_)}
        cur = outer
    return all(id(n) in ok_ids for n in loads)


def _lit(e) -> bool:
    if isinstance(e, ast.Constant):
        return True
    return isinstance(e, ast.Tuple) and all(isinstance(x, ast.Constant) for x in e.elts)


def _n46(fn):
    """N46 a local that is only ever bound to literals (several times, once per branch) is replaced by the literal that reaches
    each read: within the block of a binding, up to the next statement that re-binds it; bindings nobody reads any more are dropped"""
    names = {}
    for n in ast.walk(fn):
        if isinstance(n, ast.Name) and not isinstance(n.ctx, ast.Load):
            names.setdefault(n.id, []).append(n)
    params = {a.arg for a in ast.walk(fn.args) if isinstance(a, ast.arg)}
    cands = set()
    for v, stores in names.items():
        if v in params or len(stores) < 2:
            continue
        binds = [st for st in ast.walk(fn) if isinstance(st, ast.Assign) and len(st.targets) == 1 and isinstance(st.targets[0], ast.Name)
                 and st.targets[0].id == v]
        if len(binds) == len(stores) and all(_lit(b.value) for b in binds) and not any(
                isinstance(n, (ast.FunctionDef, ast.Lambda)) and n is not fn and any(isinstance(x, ast.Name) and x.id == v for x in ast.walk(n))
                for n in ast.walk(fn)):
            cands.add(v)
    if not cands:
        return
    # a loop may carry a value around: only straight-line blocks outside loops are rewritten
    in_loop = {id(x) for lo in ast.walk(fn) if isinstance(lo, (ast.For, ast.While)) for x in ast.walk(lo)}
    for holder, fld, blk in list(_blocks(fn)):
        for i, st in enumerate(blk):
            if not (isinstance(st, ast.Assign) and len(st.targets) == 1 and isinstance(st.targets[0], ast.Name)
                    and st.targets[0].id in cands and id(st) not in in_loop):
                continue
            v = st.targets[0].id
            for later in blk[i + 1:]:
                if any(isinstance(n, ast.Name) and n.id == v and not isinstance(n.ctx, ast.Load) for n in ast.walk(later)):
                    break
                _Subst(lambda n: isinstance(n, ast.Name) and n.id == v and isinstance(n.ctx, ast.Load),
                       lambda n: copy.deepcopy(st.value)).visit(later)
    for v in cands:
        if not any(isinstance(n, ast.Name) and n.id == v and isinstance(n.ctx, ast.Load) for n in ast.walk(fn)):
            for holder, fld, blk in list(_blocks(fn)):
                keep = [st for st in blk if not (isinstance(st, ast.Assign) and len(st.targets) == 1 and isinstance(st.targets[0], ast.Name)
                                                 and st.targets[0].id == v)]
                if len(keep) != len(blk):
                    setattr(holder, fld, keep or [ast.Pass()])


def _pure_table(e) -> bool:
    return _is_chain(e) or (isinstance(e, ast.Call) and isinstance(e.func, ast.Name) and e.func.id == 'getattr' and len(e.args) == 3
                            and not e.keywords and _is_chain(e.args[0]) and isinstance(e.args[1], ast.Constant)
                            and isinstance(e.args[2], (ast.Dict, ast.Constant)))


def _n53(tree):
    """N53 `D.get(K, X)` (D a plain chain or `getattr(chain, 'name', {})`, K a plain name, X a plain name or constant)
    -> `D[K] if K in D else X`"""
    class T(ast.NodeTransformer):
        def visit_Call(self, n):
            self.generic_visit(n)
            if (isinstance(n.func, ast.Attribute) and n.func.attr == 'get' and len(n.args) == 2 and not n.keywords
                    and _pure_table(n.func.value) and isinstance(n.args[0], ast.Name)
                    and isinstance(n.args[1], (ast.Name, ast.Constant))):
                d, k, x = n.func.value, n.args[0], n.args[1]
                return ast.copy_location(ast.IfExp(ast.Compare(copy.deepcopy(k), [ast.In()], [copy.deepcopy(d)]),
                                                   ast.Subscript(copy.deepcopy(d), copy.deepcopy(k), ast.Load()), x), n)
            return n
    return T().visit(tree)


def _n60(fn):
    """N60 `x, = S` / `[x] = S` / `(x,) = S` (unpacking of the only element) -> `x = next(iter(S))`"""
    for holder, fld, blk in list(_blocks(fn)):
        for st in blk:
            if (isinstance(st, ast.Assign) and len(st.targets) == 1 and isinstance(st.targets[0], (ast.Tuple, ast.List))
                    and len(st.targets[0].elts) == 1 and isinstance(st.targets[0].elts[0], ast.Name) and _is_chain(st.value)):
                st.targets = [st.targets[0].elts[0]]
                st.value = ast.copy_location(ast.Call(ast.Name('next', ast.Load()), [ast.Call(ast.Name('iter', ast.Load()), [st.value], [])], []),
                                             st.value)


def _n65(tree):
    """N65 `(E(n) for n in (a for T in XS [if C]))` -> `(E(a) for T in XS [if C])` (generators: consumed element by element);
       N66 `zip((E1 for T1 in XS), (E2 for T2 in XS))` over the same XS, T1 and T2 tuple patterns of one shape that bind different
           positions (the others `_`) -> `((E1, E2) for T in XS)` with the merged pattern (zip takes one element from each in turn)"""
    class T(ast.NodeTransformer):
        def visit_GeneratorExp(self, n):
            self.generic_visit(n)
            if len(n.generators) == 1 and not n.generators[0].is_async and isinstance(n.generators[0].target, ast.Name) \
                    and isinstance(n.generators[0].iter, ast.GeneratorExp) and len(n.generators[0].iter.generators) == 1 \
                    and not n.generators[0].ifs:
                outer, inner = n.generators[0], n.generators[0].iter
                v = outer.target.id
                inner_names = {x.id for x in ast.walk(inner.generators[0].target) if isinstance(x, ast.Name)}
                # the outer element expression must not use names that the inner pattern binds (other than through v)
                if not (inner_names & ({x.id for x in ast.walk(n.elt) if isinstance(x, ast.Name)} - {v})):
                    elt = _Subst(lambda x: isinstance(x, ast.Name) and x.id == v and isinstance(x.ctx, ast.Load),
                                 lambda x: copy.deepcopy(inner.elt)).visit(copy.deepcopy(n.elt))
                    return ast.copy_location(ast.GeneratorExp(elt, inner.generators), n)
            return n

        def visit_Call(self, n):
            self.generic_visit(n)
            if isinstance(n.func, ast.Name) and n.func.id == 'zip' and len(n.args) == 2 and not n.keywords \
                    and all(isinstance(a, ast.GeneratorExp) and len(a.generators) == 1 and not a.generators[0].ifs
                            and not a.generators[0].is_async for a in n.args):
                g1, g2 = n.args[0].generators[0], n.args[1].generators[0]
                if ast.dump(g1.iter) == ast.dump(g2.iter) and isinstance(g1.target, ast.Tuple) and isinstance(g2.target, ast.Tuple) \
                        and len(g1.target.elts) == len(g2.target.elts) \
                        and all(isinstance(x, ast.Name) for x in g1.target.elts + g2.target.elts):
                    merged = []
                    ok = True
                    for a, b in zip(g1.target.elts, g2.target.elts):
                        if a.id == '_' or a.id.startswith('___'):
                            merged.append(ast.Name(b.id, ast.Store()))
                        elif b.id == '_' or b.id.startswith('___'):
                            merged.append(ast.Name(a.id, ast.Store()))
                        elif a.id == b.id:
                            merged.append(ast.Name(a.id, ast.Store()))
                        else:
                            ok = False
                    if ok:
                        pair = ast.Tuple([n.args[0].elt, n.args[1].elt], ast.Load())
                        return ast.copy_location(ast.GeneratorExp(pair, [ast.comprehension(ast.Tuple(merged, ast.Store()), g1.iter, [], 0)]), n)
            return n
    return T().visit(tree)


def _n47(tree):
    """N47 `next(<generator expression>)` without a default is `[<the same comprehension>][0]`"""
    class T(ast.NodeTransformer):
        def visit_Call(self, n):
            self.generic_visit(n)
            if (isinstance(n.func, ast.Name) and n.func.id == 'next' and len(n.args) == 1 and not n.keywords
                    and isinstance(n.args[0], ast.GeneratorExp)):
                g = n.args[0]
                return ast.copy_location(ast.Subscript(ast.ListComp(g.elt, g.generators), ast.Constant(0), ast.Load()), n)
            return n
    return T().visit(tree)


def _n49(fn):
    """N49 a store of a plain name or constant into a local that nobody reads (`_ = defaults`) is dropped"""
    params = {a.arg for a in ast.walk(fn.args) if isinstance(a, ast.arg)}
    declared = {nm for n in ast.walk(fn) if isinstance(n, (ast.Global, ast.Nonlocal)) for nm in n.names}
    loaded = {n.id for n in ast.walk(fn) if isinstance(n, ast.Name) and isinstance(n.ctx, ast.Load)}
    for holder, fld, blk in list(_blocks(fn)):
        keep = [st for st in blk if not (isinstance(st, ast.Assign) and len(st.targets) == 1 and isinstance(st.targets[0], ast.Name)
                                         and isinstance(st.value, (ast.Name, ast.Constant)) and st.targets[0].id not in loaded
                                         and st.targets[0].id not in params and st.targets[0].id not in declared)]
        if len(keep) != len(blk):
            setattr(holder, fld, keep or [ast.Pass()])


def _n48(fn, counter):
    """N48 a dict comprehension whose value is a conditional expression, returned or bound to a name, is the loop that builds it:
    `return {K: A if C else B for T in XS}` -> `d = {}; for T in XS: d[K] = A if C else B; return d` (N38 then splits the store)"""
    for holder, fld, blk in list(_blocks(fn)):
        out = []
        for st in blk:
            val = st.value if isinstance(st, (ast.Return, ast.Assign)) else None
            if (isinstance(val, ast.DictComp) and len(val.generators) == 1 and not val.generators[0].is_async
                    and isinstance(val.value, ast.IfExp)
                    and (isinstance(st, ast.Return) or (len(st.targets) == 1 and isinstance(st.targets[0], ast.Name)))):
                g = val.generators[0]
                gen_names = {x.id for x in ast.walk(g.target) if isinstance(x, ast.Name)}
                inside = {id(x) for x in ast.walk(val)}
                if any(isinstance(x, ast.Name) and x.id in gen_names and id(x) not in inside for x in ast.walk(fn)):
                    out.append(st)
                    continue
                if isinstance(st, ast.Return):
                    counter[0] += 1
                    name = 'built__z%d' % counter[0]
                else:
                    name = st.targets[0].id
                for x in ast.walk(g.target):
                    if isinstance(x, ast.Name):
                        x.ctx = ast.Store()
                store = ast.Assign([ast.Subscript(ast.Name(name, ast.Load()), val.key, ast.Store())], val.value, lineno=st.lineno)
                body = [store]
                if g.ifs:
                    cond = g.ifs[0] if len(g.ifs) == 1 else ast.BoolOp(ast.And(), list(g.ifs))
                    body = [ast.If(cond, body, [])]
                out.append(ast.copy_location(ast.Assign([ast.Name(name, ast.Store())], ast.Dict([], []), lineno=st.lineno), st))
                out.append(ast.copy_location(ast.For(g.target, g.iter, body, [], lineno=st.lineno), st))
                if isinstance(st, ast.Return):
                    out.append(ast.copy_location(ast.Return(ast.Name(name, ast.Load())), st))
            else:
                out.append(st)
        setattr(holder, fld, out)


def _never_none(e) -> bool:
    """a freshly constructed object: a call of a capitalised class name (yaml.ScalarNode(..), Node(..)), a display, a non-None literal"""
    if isinstance(e, ast.Constant):
        return e.value is not None
    if isinstance(e, (ast.Tuple, ast.List, ast.Dict, ast.Set, ast.JoinedStr, ast.ListComp, ast.DictComp, ast.SetComp)):
        return True
    if isinstance(e, ast.Call):
        f = e.func
        nm = f.attr if isinstance(f, ast.Attribute) else f.id if isinstance(f, ast.Name) else ''
        return bool(nm) and nm[0].isupper() and _is_chain(f)
    return False


def _n50(fn):
    """N50 after `if v is None: ..; v = <fresh object>` (no else) the local v is not None: later tests `v is None` / `v is not
    None` in the same block, up to the next store of v, are decided and their dead arm removed"""
    for holder, fld, blk in list(_blocks(fn)):
        i = 0
        while i < len(blk):
            st = blk[i]
            if (isinstance(st, ast.If) and not st.orelse and isinstance(st.test, ast.Compare) and len(st.test.ops) == 1
                    and isinstance(st.test.ops[0], ast.Is) and isinstance(st.test.left, ast.Name)
                    and isinstance(st.test.comparators[0], ast.Constant) and st.test.comparators[0].value is None
                    and st.body and isinstance(st.body[-1], ast.Assign) and len(st.body[-1].targets) == 1
                    and isinstance(st.body[-1].targets[0], ast.Name) and st.body[-1].targets[0].id == st.test.left.id
                    and _never_none(st.body[-1].value)):
                v = st.test.left.id
                j = i + 1
                while j < len(blk):
                    later = blk[j]
                    if (isinstance(later, ast.If) and isinstance(later.test, ast.Compare) and len(later.test.ops) == 1
                            and isinstance(later.test.ops[0], (ast.Is, ast.IsNot)) and isinstance(later.test.left, ast.Name)
                            and later.test.left.id == v and isinstance(later.test.comparators[0], ast.Constant)
                            and later.test.comparators[0].value is None):
                        live = later.orelse if isinstance(later.test.ops[0], ast.Is) else later.body
                        blk[j:j + 1] = list(live)
                        continue
                    if any(isinstance(n, ast.Name) and n.id == v and not isinstance(n.ctx, ast.Load) for n in ast.walk(later)):
                        break
                    j += 1
            i += 1
        if not blk:
            blk.append(ast.Pass())


def _n51(fn, counter):
    """N51 a loop variable re-bound from itself in the loop body (`k = f(k)`) gets a name of its own for the new value - the reads
    that follow in the body see that name (nobody reads the variable after the loop)"""
    for lo in [n for n in _own_nodes(fn) if isinstance(n, ast.For)]:
        targets = {x.id for x in ast.walk(lo.target) if isinstance(x, ast.Name)}
        body = lo.body
        for i, st in enumerate(body):
            if not (isinstance(st, ast.Assign) and len(st.targets) == 1 and isinstance(st.targets[0], ast.Name)
                    and st.targets[0].id in targets):
                continue
            v = st.targets[0].id
            # only this one re-binding in the loop, at the top level of its body; v dead outside the loop
            stores = [n for n in ast.walk(lo) if isinstance(n, ast.Name) and n.id == v and not isinstance(n.ctx, ast.Load)]
            if len(stores) != 2:
                continue
            outside = [n for n in ast.walk(fn) if isinstance(n, ast.Name) and n.id == v and not any(n is y for y in ast.walk(lo))]
            if outside:
                continue
            if any(isinstance(n, (ast.FunctionDef, ast.Lambda)) for b in body for n in ast.walk(b)):
                continue
            counter[0] += 1
            new = '%s__r%d' % (v, counter[0])
            st.targets[0].id = new
            for later in body[i + 1:]:
                for n in ast.walk(later):
                    if isinstance(n, ast.Name) and n.id == v:
                        n.id = new


def _eval_order(e):
    """names and calls of an expression in (approximate) evaluation order: operands before the operation"""
    out = []

    def rec(n):
        if isinstance(n, ast.Name):
            out.append(n)
            return
        if isinstance(n, (ast.Lambda, ast.GeneratorExp, ast.ListComp, ast.SetComp, ast.DictComp)):
            out.append(n)
            return
        for c in ast.iter_child_nodes(n):
            rec(c)
        if isinstance(n, (ast.Call, ast.Subscript, ast.BinOp, ast.Compare, ast.Await, ast.Yield, ast.YieldFrom)):
            out.append(n)
    rec(e)
    return out


def _n52(fn):
    """N52 a run of temporaries, each bound once and read once, all read - in the order they were bound, before anything else
    that could have an effect is evaluated - by the statement that follows the run, are substituted into that statement"""
    for holder, fld, blk in list(_blocks(fn)):
        i = 0
        while i < len(blk):
            run = []
            j = i
            while j < len(blk):
                st = blk[j]
                if (isinstance(st, ast.Assign) and len(st.targets) == 1 and isinstance(st.targets[0], ast.Name)
                        and not isinstance(st.value, (ast.Yield, ast.YieldFrom, ast.Await))):
                    v = st.targets[0].id
                    n_store = sum(1 for n in ast.walk(fn) if isinstance(n, ast.Name) and n.id == v and not isinstance(n.ctx, ast.Load))
                    loads = [n for n in ast.walk(fn) if isinstance(n, ast.Name) and n.id == v and isinstance(n.ctx, ast.Load)]
                    if n_store == 1 and len(loads) == 1 and v not in _names(st.value):
                        run.append((st, v, loads[0]))
                        j += 1
                        continue
                break
            if len(run) >= 2 and j < len(blk) and isinstance(blk[j], (ast.Expr, ast.Assign, ast.Return)) and blk[j].value is not None:
                consumer = blk[j]
                order = _eval_order(consumer.value)
                pos = {}
                for k, n in enumerate(order):
                    pos[id(n)] = k
                idx = [pos.get(id(ld)) for _, _, ld in run]
                ok = all(x is not None for x in idx) and idx == sorted(idx)
                if ok:
                    # nothing effectful before the last temporary is read, and no temporary's value reads what a later one binds
                    last = idx[-1]
                    for n in order[:last]:
                        if not isinstance(n, ast.Name):
                            ok = False
                    temps = {v for _, v, _ in run}
                    for st, v, _ in run:
                        if _names(st.value) & temps:
                            ok = False
                if ok:
                    for st, v, ld in run:
                        _Subst(lambda n, ld=ld: n is ld, lambda n, st=st: st.value).visit(consumer)
                    del blk[i:j]
                    continue
            i = max(j, i + 1)


def _n56(fn):
    """N56 two adjacent statements `if T: A else: B` and `if T: C else: D` with the same isinstance test on a name that A and B do
    not re-bind are one: `if T: A; C else: B; D`"""
    for holder, fld, blk in list(_blocks(fn)):
        i = 0
        while i + 1 < len(blk):
            a, b = blk[i], blk[i + 1]
            if (isinstance(a, ast.If) and isinstance(b, ast.If) and isinstance(a.test, ast.Call) and isinstance(a.test.func, ast.Name)
                    and a.test.func.id == 'isinstance' and len(a.test.args) == 2 and isinstance(a.test.args[0], ast.Name)
                    and ast.dump(a.test) == ast.dump(b.test)):
                v = a.test.args[0].id
                rebinds = any(isinstance(n, ast.Name) and n.id == v and not isinstance(n.ctx, ast.Load)
                              for s_ in a.body + a.orelse for n in ast.walk(s_))
                jumps = any(isinstance(n, (ast.Return, ast.Raise, ast.Break, ast.Continue)) for s_ in a.body + a.orelse for n in ast.walk(s_))
                if not rebinds and not jumps:
                    a.body = list(a.body) + list(b.body)
                    a.orelse = list(a.orelse) + list(b.orelse)
                    del blk[i + 1]
                    continue
            i += 1


def _n59(fn, counter):
    """N59 the matches of a scan collected first, tested for emptiness and then looped over
           L = [E for T in XS if C];  if not L: S;  for y in L: BODY          (S ends in raise / return; L has no other use)
       are the scan with a found-flag:
           found = False;  for T in XS: if C: found = True; BODY[y:=E];  if not found: S"""
    from .normalize import _filter_independent
    for holder, fld, blk in list(_blocks(fn)):
        for i, st in enumerate(blk):
            if not (isinstance(st, ast.Assign) and len(st.targets) == 1 and isinstance(st.targets[0], ast.Name)
                    and isinstance(st.value, ast.ListComp) and len(st.value.generators) == 1 and st.value.generators[0].ifs
                    and not st.value.generators[0].is_async):
                continue
            L = st.targets[0].id
            if sum(1 for n in ast.walk(fn) if isinstance(n, ast.Name) and n.id == L and not isinstance(n.ctx, ast.Load)) != 1:
                continue
            loads = [n for n in ast.walk(fn) if isinstance(n, ast.Name) and n.id == L and isinstance(n.ctx, ast.Load)]
            rest = blk[i + 1:]
            loops = [(k, s_) for k, s_ in enumerate(rest) if isinstance(s_, ast.For) and isinstance(s_.iter, ast.Name) and s_.iter.id == L
                     and not s_.orelse]
            if len(loops) != 1:
                continue
            k, lo = loops[0]

            def emptiness(s_):
                """(If statement tests emptiness of L, polarity: True = `not L`)"""
                if not isinstance(s_, ast.If):
                    return None
                t = s_.test
                if isinstance(t, ast.UnaryOp) and isinstance(t.op, ast.Not) and isinstance(t.operand, ast.Name) and t.operand.id == L:
                    return True
                if isinstance(t, ast.Name) and t.id == L:
                    return False
                return None
            tests = [(j, s_) for j, s_ in enumerate(rest) if emptiness(s_) is not None]
            used = {id(lo.iter)} | {id(n) for _, s_ in tests for n in ast.walk(s_.test)}
            if any(id(n) not in used for n in loads) or len(tests) != 1:
                continue
            j, tst = tests[0]
            if emptiness(tst) is not True or tst.orelse or not tst.body or not isinstance(tst.body[-1], (ast.Raise, ast.Return)):
                continue
            if not ((j == k - 1 and k - 1 == 0) or (j == k + 1 and k == 0)):
                continue            # the test directly before or after the loop, both right after the binding
            if any(isinstance(n, ast.Name) and n.id == L for b in lo.body for n in ast.walk(b)):
                continue
            comp = st.value
            g = comp.generators[0]
            if not _filter_independent(comp, lo.body) or not isinstance(lo.target, ast.Name):
                continue
            gen_names = {x.id for x in ast.walk(g.target) if isinstance(x, ast.Name)}
            inside = {id(x) for x in ast.walk(comp)}
            if any(isinstance(x, ast.Name) and x.id in gen_names and id(x) not in inside and x.id != lo.target.id for x in ast.walk(fn)):
                continue
            counter[0] += 1
            flag = 'found__z%d' % counter[0]
            body = list(lo.body)
            if isinstance(comp.elt, ast.Name):
                for b in body:
                    for x in ast.walk(b):
                        if isinstance(x, ast.Name) and x.id == lo.target.id:
                            x.id = comp.elt.id
            else:
                body = [ast.copy_location(ast.Assign([ast.Name(lo.target.id, ast.Store())], comp.elt, lineno=lo.lineno), lo)] + body
            body = [ast.copy_location(ast.Assign([ast.Name(flag, ast.Store())], ast.Constant(True), lineno=lo.lineno), lo)] + body
            cond = g.ifs[0] if len(g.ifs) == 1 else ast.BoolOp(ast.And(), list(g.ifs))
            for x in ast.walk(g.target):
                if isinstance(x, ast.Name):
                    x.ctx = ast.Store()
            new_loop = ast.copy_location(ast.For(g.target, g.iter, [ast.copy_location(ast.If(cond, body, []), lo)], [], lineno=lo.lineno), lo)
            tst.test = ast.copy_location(ast.UnaryOp(ast.Not(), ast.Name(flag, ast.Load())), tst.test)
            init = ast.copy_location(ast.Assign([ast.Name(flag, ast.Store())], ast.Constant(False), lineno=st.lineno), st)
            blk[i:i + 3] = [init, new_loop, tst]
            break


def _n62(fn, is_method: bool, counter):
    """N62 worklist elimination: a function whose whole body is
           todo = [P];  while todo: cur = todo.pop(); BODY          (P a parameter; BODY pushes children with
                                                                     todo.extend(reversed(XS)) / todo.append(x) as the last thing it does)
       is the recursion   BODY[cur:=P] with `for c in XS: f(.., c)` in place of the pushes (depth first, same order)"""
    body = [s_ for s_ in fn.body if not (isinstance(s_, ast.Expr) and isinstance(s_.value, ast.Constant))]
    docs = [s_ for s_ in fn.body if isinstance(s_, ast.Expr) and isinstance(s_.value, ast.Constant)]
    # variant with an accumulator: `acc = list(); todo = [P]; while todo: ..; return acc` - the accumulator becomes a parameter
    # that defaults to None (made fresh by the outermost call) and is handed down the recursion
    acc = acc_init = None
    if len(body) == 4 and isinstance(body[0], ast.Assign) and len(body[0].targets) == 1 and isinstance(body[0].targets[0], ast.Name) \
            and isinstance(body[3], ast.Return) and isinstance(body[3].value, ast.Name) and body[3].value.id == body[0].targets[0].id:
        v0 = body[0].value
        if (isinstance(v0, (ast.List, ast.Dict)) and not getattr(v0, 'elts', getattr(v0, 'keys', None))) or (
                isinstance(v0, ast.Call) and isinstance(v0.func, ast.Name) and v0.func.id in ('list', 'dict', 'set', 'OrderedDict') and not v0.args):
            acc, acc_init = body[0].targets[0].id, body[0]
            body = body[1:3]
    if len(body) not in (2, 3):
        return
    if len(body) == 3 and not (isinstance(body[2], ast.Return) and (body[2].value is None or (isinstance(body[2].value, ast.Constant)
                                                                                            and body[2].value.value is None))):
        return
    init, loop = body[0], body[1]
    params = [a.arg for a in fn.args.args]
    if acc is not None and (acc in params or fn.args.defaults):
        return
    if not (isinstance(init, ast.Assign) and len(init.targets) == 1 and isinstance(init.targets[0], ast.Name)
            and isinstance(init.value, ast.List) and len(init.value.elts) == 1 and isinstance(init.value.elts[0], ast.Name)
            and init.value.elts[0].id in params):
        return
    todo, P = init.targets[0].id, init.value.elts[0].id
    if not (isinstance(loop, ast.While) and not loop.orelse and isinstance(loop.test, ast.Name) and loop.test.id == todo and loop.body):
        return
    first = loop.body[0]
    if not (isinstance(first, ast.Assign) and len(first.targets) == 1 and isinstance(first.targets[0], (ast.Name, ast.Tuple))
            and isinstance(first.value, ast.Call) and isinstance(first.value.func, ast.Attribute) and first.value.func.attr == 'pop'
            and isinstance(first.value.func.value, ast.Name) and first.value.func.value.id == todo and not first.value.args):
        return
    unpack = None
    if isinstance(first.targets[0], ast.Tuple):
        # `a, b = todo.pop()`: the popped element is unpacked at once - in the recursion that is `a, b = P`
        if not all(isinstance(t, ast.Name) for t in first.targets[0].elts):
            return
        unpack = first.targets[0]
        cur = '__popped__'
    else:
        cur = first.targets[0].id
    rest = loop.body[1:]
    if fn.args.vararg or fn.args.kwarg or fn.args.kwonlyargs:
        return
    if any(isinstance(n, (ast.Break, ast.Continue, ast.Return, ast.Yield, ast.YieldFrom)) for s_ in rest for n in ast.walk(s_)):
        return
    # P and cur must not be used otherwise
    if any(isinstance(n, ast.Name) and n.id == P for s_ in rest for n in ast.walk(s_)):
        return
    if unpack is None and sum(1 for n in ast.walk(fn) if isinstance(n, ast.Name) and n.id == cur and not isinstance(n.ctx, ast.Load)) != 1:
        return
    ok = [True]
    uses = [n for s_ in rest for n in ast.walk(s_) if isinstance(n, ast.Name) and n.id == todo]
    handled = set()

    def recursive_call(arg: ast.AST) -> ast.stmt:
        args = [ast.Name(p_, ast.Load()) if p_ != P else arg for p_ in params]
        if acc is not None:
            args.append(ast.Name(acc, ast.Load()))
        if is_method:
            func = ast.Attribute(args[0], fn.name, ast.Load())
            args = args[1:]
        else:
            func = ast.Name(fn.name, ast.Load())
        return ast.Expr(ast.Call(func, args, []))

    def tail(stmts):
        if not stmts:
            return
        last = stmts[-1]
        if isinstance(last, ast.If):
            tail(last.body)
            tail(last.orelse)
            return
        if isinstance(last, ast.Expr) and isinstance(last.value, ast.Call) and isinstance(last.value.func, ast.Attribute) \
                and isinstance(last.value.func.value, ast.Name) and last.value.func.value.id == todo and len(last.value.args) == 1 \
                and not last.value.keywords and last.value.func.attr in ('extend', 'append'):
            a = last.value.args[0]
            handled.add(id(last.value.func.value))
            counter[0] += 1
            c = 'child__w%d' % counter[0]
            if last.value.func.attr == 'append':
                stmts[-1] = ast.copy_location(recursive_call(a), last)
            else:
                if isinstance(a, ast.Call) and isinstance(a.func, ast.Name) and a.func.id == 'reversed' and len(a.args) == 1:
                    it = a.args[0]
                else:
                    it = ast.Call(ast.Name('reversed', ast.Load()), [a], [])
                stmts[-1] = ast.copy_location(ast.For(ast.Name(c, ast.Store()), it, [recursive_call(ast.Name(c, ast.Load()))], [],
                                                      lineno=last.lineno), last)
    tail(rest)
    if any(id(n) not in handled for n in uses) or not handled:
        return
    for s_ in rest:
        for n in ast.walk(s_):
            if isinstance(n, ast.Name) and n.id == cur:
                n.id = P
    head = []
    if unpack is not None:
        head.append(ast.copy_location(ast.Assign([unpack], ast.Name(P, ast.Load())), first))
    if acc is not None:
        fn.args.args.append(ast.arg(acc, None))
        fn.args.defaults.append(ast.Constant(None))
        fresh = ast.If(ast.Compare(ast.Name(acc, ast.Load()), [ast.Is()], [ast.Constant(None)]), [acc_init], [])
        ast.copy_location(fresh, acc_init)
        head.insert(0, fresh)
        rest = rest + [ast.copy_location(ast.Return(ast.Name(acc, ast.Load())), loop)]
    fn.body = docs + head + rest
    ast.fix_missing_locations(fn)


_BUILTIN_KINDS = {'str', 'int', 'float', 'bool', 'list', 'dict', 'tuple', 'set', 'bytes', 'NoneType'}


def _kind_names(e) -> Optional[Set[str]]:
    els = e.elts if isinstance(e, ast.Tuple) else [e]
    out = set()
    for x in els:
        if isinstance(x, ast.Name) and x.id in _BUILTIN_KINDS:
            out.add(x.id)
        else:
            return None
    return out


def _implies(a: str, b: str) -> Optional[bool]:
    """isinstance(x, a) known true: what about isinstance(x, b)?  (built-in kinds: only bool is a subclass, of int)"""
    if a == b or (a == 'bool' and b == 'int'):
        return True
    if a == 'int' and b == 'bool':
        return None
    return False


def _n64(fn):
    """N64 an isinstance test on a parameter (never re-bound) against built-in kinds that an enclosing test on the same parameter
    already decides is folded: inside `elif isinstance(v, int):` (after the bool arm), `isinstance(v, float)` is false"""
    params = {a.arg for a in ast.walk(fn.args) if isinstance(a, ast.arg)}
    rebound = {n.id for n in ast.walk(fn) if isinstance(n, ast.Name) and not isinstance(n.ctx, ast.Load)}
    stable = params - rebound

    def test_of(t):
        """(var, kinds, 'isinstance') or (var, None, 'is-none') for a supported test"""
        if isinstance(t, ast.Call) and isinstance(t.func, ast.Name) and t.func.id == 'isinstance' and len(t.args) == 2 \
                and isinstance(t.args[0], ast.Name) and t.args[0].id in stable:
            ks = _kind_names(t.args[1])
            if ks:
                return t.args[0].id, ks, 'isinstance'
        if isinstance(t, ast.Compare) and len(t.ops) == 1 and isinstance(t.ops[0], ast.Is) and isinstance(t.left, ast.Name) \
                and t.left.id in stable and isinstance(t.comparators[0], ast.Constant) and t.comparators[0].value is None:
            return t.left.id, {'NoneType'}, 'isinstance'
        return None

    def decide(t, facts):
        got = test_of(t)
        if got is None:
            return None
        v, ks, _ = got
        pos = [k for (w, k, p_) in facts if w == v and p_]
        neg = {k for (w, k, p_) in facts if w == v and not p_}
        if ks <= neg:
            return False
        for a in pos:
            res = [_implies(a, b) for b in ks]
            if any(r_ is True for r_ in res):
                return True
            if all(r_ is False for r_ in res):
                return False
        return None

    def walk(stmts, facts):
        out = []
        for st in stmts:
            if isinstance(st, ast.If):
                d = decide(st.test, facts)
                if d is True:
                    out += walk(st.body, facts)
                    continue
                if d is False:
                    out += walk(st.orelse, facts)
                    continue
                got = test_of(st.test)
                if got is not None and len(got[1]) == 1:
                    k = next(iter(got[1]))
                    st.body = walk(st.body, facts + [(got[0], k, True)]) or [ast.Pass()]
                    st.orelse = walk(st.orelse, facts + [(got[0], k, False)])
                else:
                    st.body = walk(st.body, facts) or [ast.Pass()]
                    st.orelse = walk(st.orelse, facts)
                out.append(st)
                continue
            for fld in ('body', 'orelse', 'finalbody'):
                v = getattr(st, fld, None)
                if isinstance(v, list) and v and isinstance(v[0], ast.stmt) and not isinstance(st, (ast.FunctionDef, ast.ClassDef, ast.AsyncFunctionDef)):
                    setattr(st, fld, walk(v, facts))
            for h in getattr(st, 'handlers', []) or []:
                h.body = walk(h.body, facts)
            out.append(st)
        return out
    if stable:
        fn.body = walk(fn.body, []) or [ast.Pass()]


def _n63(fn):
    """N63 a chain that was just dereferenced is not None: after a statement that reads `X.attr` unconditionally, a later test
    `X is None` in the same block (X not stored in between) is false"""
    for holder, fld, blk in list(_blocks(fn)):
        for i, st in enumerate(blk):
            if not isinstance(st, (ast.Assign, ast.Expr)):
                continue
            derefs = {ast.unparse(n.value) for n in ast.walk(st) if isinstance(n, ast.Attribute) and isinstance(n.ctx, ast.Load)
                      and _is_chain(n.value) and isinstance(n.value, ast.Attribute)}
            # not inside a conditional part of the statement
            if any(isinstance(n, (ast.IfExp, ast.BoolOp, ast.Lambda, ast.ListComp, ast.GeneratorExp, ast.DictComp, ast.SetComp)) for n in ast.walk(st)):
                continue
            if not derefs:
                continue
            j = i + 1
            while j < len(blk):
                later = blk[j]
                written = {ast.unparse(n) for n in ast.walk(later) if isinstance(n, ast.Attribute) and not isinstance(n.ctx, ast.Load)}
                if (isinstance(later, ast.If) and isinstance(later.test, ast.Compare) and len(later.test.ops) == 1
                        and isinstance(later.test.ops[0], (ast.Is, ast.IsNot)) and isinstance(later.test.comparators[0], ast.Constant)
                        and later.test.comparators[0].value is None and ast.unparse(later.test.left) in derefs):
                    live = later.orelse if isinstance(later.test.ops[0], ast.Is) else later.body
                    blk[j:j + 1] = list(live)
                    continue
                roots = {d.split('.')[0] for d in derefs}
                reaches = any(isinstance(n, ast.Call) and any(isinstance(x, ast.Name) and x.id in roots for x in ast.walk(n))
                              for n in ast.walk(later))
                if written & derefs or reaches:
                    break           # a call that is handed the object may re-bind the attribute
                j += 1
        if not blk:
            blk.append(ast.Pass())


_PURE_NODE_METHODS = {'is_mapping', 'is_sequence', 'is_scalar', 'has_attribute', 'get_attribute', 'get_value', 'is_empty', 'seq_items',
                      'has_attribute_type'}


def _n67(fn):
    """N67 a second wrapper of the same node that takes the place of the first: `w = Node(x)` .. (w only asked, never changed) ..
    `w2 = Node(x); <work on w2>; w = w2` -> the work is done on w (Node is a stateless view: two views of one node that is looked
    at through only one of them at a time are one view)"""
    for holder, fld, blk in list(_blocks(fn)):
        if not blk or not (isinstance(blk[-1], ast.Assign) and len(blk[-1].targets) == 1 and isinstance(blk[-1].targets[0], ast.Name)
                           and isinstance(blk[-1].value, ast.Name)):
            continue
        w1, w2 = blk[-1].targets[0].id, blk[-1].value.id
        defs2 = [st for st in blk if isinstance(st, ast.Assign) and len(st.targets) == 1 and isinstance(st.targets[0], ast.Name)
                 and st.targets[0].id == w2]
        if len(defs2) != 1 or sum(1 for n in ast.walk(fn) if isinstance(n, ast.Name) and n.id == w2 and not isinstance(n.ctx, ast.Load)) != 1:
            continue
        d2 = defs2[0]
        if not (isinstance(d2.value, ast.Call) and isinstance(d2.value.func, ast.Name) and d2.value.func.id == 'Node' and len(d2.value.args) == 1
                and isinstance(d2.value.args[0], ast.Name)):
            continue
        x = d2.value.args[0].id
        stores1 = [st for st in ast.walk(fn) if isinstance(st, ast.Assign) and len(st.targets) == 1 and isinstance(st.targets[0], ast.Name)
                   and st.targets[0].id == w1]
        others = [st for st in stores1 if st is not blk[-1]]
        if len(others) != 1 or ast.dump(others[0].value) != ast.dump(d2.value):
            continue
        if sum(1 for n in ast.walk(fn) if isinstance(n, ast.Name) and n.id == x and not isinstance(n.ctx, ast.Load)) > 1:
            continue
        # w1 is not used inside the block after w2 was made, and was only asked before
        k = blk.index(d2)
        if any(isinstance(n, ast.Name) and n.id == w1 for st in blk[k:-1] for n in ast.walk(st)):
            continue
        asked_only = True
        parents = {}
        for n in ast.walk(fn):
            for c in ast.iter_child_nodes(n):
                parents[id(c)] = n
        in_block = {id(n) for st in blk for n in ast.walk(st)}
        from .normalize import _dfs
        dfs_order = {id(n_): i_ for i_, n_ in enumerate(_dfs(fn))}
        order = list(ast.walk(fn))
        for n in order:
            if isinstance(n, ast.Name) and n.id == w1 and isinstance(n.ctx, ast.Load) and id(n) not in in_block:
                p_ = parents.get(id(n))
                pp = parents.get(id(p_)) if p_ is not None else None
                before = True    # uses after the enclosing statement of the block are fine (they see the replaced wrapper)
                if isinstance(p_, ast.Attribute) and isinstance(pp, ast.Call) and pp.func is p_ and p_.attr in _PURE_NODE_METHODS:
                    continue
                # any other use: allowed only if it comes after the block in program order - approximated by "not before d2"
                if dfs_order.get(id(n), 0) < dfs_order.get(id(d2), 0):
                    asked_only = False
        if not asked_only:
            continue
        for st in blk[k + 1:-1]:
            for n in ast.walk(st):
                if isinstance(n, ast.Name) and n.id == w2:
                    n.id = w1
        del blk[-1]
        blk.remove(d2)
        if not blk:
            blk.append(ast.Pass())


def _n68(fn):
    """N68 `yield from [E for T in XS if C]` (list or generator, one or more `for`s, pure element and conditions) -> the loop
    `for T in XS: if C: yield E`: a generator that first collects what it is going to yield and one that yields as it goes produce
    the same sequence when computing an element has no effect"""
    from .normalize import _PURE_CALLS

    def pure(e):
        for c in ast.walk(e):
            if isinstance(c, (ast.Yield, ast.YieldFrom, ast.Await, ast.NamedExpr, ast.Lambda)):
                return False
            if isinstance(c, ast.Call) and not (isinstance(c.func, ast.Name) and c.func.id in _PURE_CALLS | {'enumerate', 'zip', 'range', 'reversed'}):
                return False
        return True
    changed = False
    for holder, fld, blk in list(_blocks(fn)):
        i = 0
        while i < len(blk):
            st = blk[i]
            if isinstance(st, ast.Expr) and isinstance(st.value, ast.YieldFrom) and isinstance(st.value.value, (ast.ListComp, ast.GeneratorExp)):
                comp = st.value.value
                if pure(comp.elt) and all(pure(c) for g in comp.generators for c in g.ifs) and not any(g.is_async for g in comp.generators) \
                        and all(pure(g.iter) for g in comp.generators[1:]):
                    inner = [ast.Expr(ast.Yield(comp.elt))]
                    for g in reversed(comp.generators):
                        for c in reversed(g.ifs):
                            inner = [ast.If(c, inner, [])]
                        inner = [ast.For(g.target, g.iter, inner, [], None)]
                    for x in inner:
                        ast.copy_location(x, st)
                        ast.fix_missing_locations(x)
                    blk[i:i + 1] = inner
                    changed = True
            i += 1
    return changed


def _n95(fn):
    """N95 a parameter of a nested function that has the name of a local of the enclosing function (shadowing: two different
    variables) is renamed inside the nested function - the passes that follow reason about names per function"""
    changed = False
    nested = [g for g in ast.walk(fn) if g is not fn and isinstance(g, ast.FunctionDef)]
    if not nested:
        return False
    inner_ids = {id(x) for g in nested for x in ast.walk(g)}
    outer_locals = {n.id for n in ast.walk(fn) if isinstance(n, ast.Name) and not isinstance(n.ctx, ast.Load) and id(n) not in inner_ids}
    for g in nested:
        if any(isinstance(x, (ast.FunctionDef, ast.Lambda, ast.ClassDef, ast.Global, ast.Nonlocal)) and x is not g for x in ast.walk(g)):
            continue
        for a in list(g.args.args) + list(g.args.kwonlyargs):
            if a.arg in outer_locals:
                new = '%s__%s' % (a.arg, g.name.strip('_'))
                for x in ast.walk(g):
                    if isinstance(x, ast.Name) and x.id == a.arg:
                        x.id = new
                a.arg = new
                changed = True
    return changed


def _n94(fn, counter):
    """N94 `for x in chain.from_iterable(XS): BODY` / `for x in chain(*XS): BODY` (no break, no else) -> the two loops
    `for g in XS: for x in g: BODY`"""
    changed = False
    for lo in [n for n in ast.walk(fn) if isinstance(n, ast.For)]:
        it = lo.iter
        if not isinstance(it, ast.Call) or it.keywords or len(it.args) != 1 or lo.orelse:
            continue
        f = it.func
        xs = None
        if isinstance(f, ast.Attribute) and f.attr == 'from_iterable' and (
                (isinstance(f.value, ast.Name) and f.value.id == 'chain') or (isinstance(f.value, ast.Attribute) and f.value.attr == 'chain')):
            xs = it.args[0]
        elif ((isinstance(f, ast.Name) and f.id == 'chain') or (isinstance(f, ast.Attribute) and f.attr == 'chain')) \
                and isinstance(it.args[0], ast.Starred):
            xs = it.args[0].value
        if xs is None:
            continue
        def has_break(stmts):
            for st in stmts:
                for n in ast.walk(st):
                    if isinstance(n, ast.Break):
                        return True
            return False
        if has_break(lo.body):
            continue
        counter[0] += 1
        g = 'group__n94_%d' % counter[0]
        inner = ast.For(lo.target, ast.Name(g, ast.Load()), lo.body, [], None)
        lo.target = ast.Name(g, ast.Store())
        lo.iter = xs
        lo.body = [inner]
        ast.copy_location(inner, lo)
        ast.fix_missing_locations(lo)
        changed = True
    return changed


def _n93(fn):
    """N93 the ask-forgiveness form of a guarded table lookup:
         try: v = D[K]                         if K in D: v = D[K]; ELSE
         except KeyError: HANDLER        ->    else: HANDLER
         [else: ELSE]
    D and K attribute chains / names / constant subscripts (evaluating them raises nothing and has no effect), the handler does not
    name the exception, no finally.  D is read as a plain mapping (`D[K]` raises KeyError exactly when K is not in D)."""
    def chain(e):
        while isinstance(e, ast.Attribute):
            e = e.value
        return isinstance(e, ast.Name)

    def key_ok(e):
        if isinstance(e, ast.Constant) or chain(e):
            return True
        return isinstance(e, ast.Subscript) and chain(e.value) and isinstance(e.slice, (ast.Constant, ast.Slice)) and False
    changed = False
    for holder, fld, blk in list(_blocks(fn)):
        for i, st in enumerate(list(blk)):
            if not (isinstance(st, ast.Try) and not st.finalbody and len(st.handlers) == 1 and len(st.body) == 1):
                continue
            h = st.handlers[0]
            if not (isinstance(h.type, ast.Name) and h.type.id == 'KeyError' and h.name is None):
                continue
            b = st.body[0]
            if not (isinstance(b, ast.Assign) and len(b.targets) == 1 and isinstance(b.targets[0], ast.Name)
                    and isinstance(b.value, ast.Subscript) and chain(b.value.value) and key_ok(b.value.slice)):
                continue
            if any(isinstance(n, ast.Raise) and n.exc is None for x in h.body for n in ast.walk(x)):
                continue
            test = ast.Compare(copy.deepcopy(b.value.slice), [ast.In()], [copy.deepcopy(b.value.value)])
            new = ast.If(test, [b] + list(st.orelse), list(h.body))
            ast.copy_location(new, st)
            ast.fix_missing_locations(new)
            blk[blk.index(st)] = new
            changed = True
    return changed


def _n92(fn):
    """N92 a local bound to a conditional expression and read exactly once, as the callee of a call in the statement that follows:
         v = A if C else B if D else E; S(v(..))   ->   if C: v = A  elif D: v = B  else: v = E;  S(v(..))
    (N15 then sinks S into the arms, N5 folds the temporaries: `dumper.add_representer(class_, (A if C else B)(class_))` becomes
    the if/elif ladder of calls)"""
    changed = False
    for holder, fld, blk in list(_blocks(fn)):
        i = 0
        while i + 1 < len(blk):
            st = blk[i]
            if isinstance(st, ast.Assign) and len(st.targets) == 1 and isinstance(st.targets[0], ast.Name) and isinstance(st.value, ast.IfExp):
                v = st.targets[0].id
                occ = [n for n in ast.walk(fn) if isinstance(n, ast.Name) and n.id == v]
                nxt = [n for n in ast.walk(blk[i + 1]) if isinstance(n, ast.Name) and n.id == v]
                called = any(isinstance(c, ast.Call) and c.func is nxt[0] for c in ast.walk(blk[i + 1])) if len(nxt) == 1 else False
                if len(occ) == 2 and len(nxt) == 1 and isinstance(nxt[0].ctx, ast.Load) and called \
                        and not isinstance(blk[i + 1], (ast.For, ast.While, ast.FunctionDef, ast.ClassDef, ast.With, ast.Try)):
                    def ladder(e):
                        if isinstance(e, ast.IfExp):
                            return [ast.If(e.test, ladder(e.body), ladder(e.orelse))]
                        return [ast.Assign([ast.Name(v, ast.Store())], e, None)]
                    new = ladder(st.value)
                    for x in new:
                        ast.copy_location(x, st)
                        ast.fix_missing_locations(x)
                    blk[i:i + 1] = new
                    changed = True
            i += 1
    return changed


def _n90(fn):
    """N90 a loop over a one-`for`, condition-free comprehension (possibly under `enumerate`) with a pure element:
         for i, v in enumerate((E for T in XS)): BODY   ->   for i, T in enumerate(XS): v = E; BODY
         for v in [E for T in XS]: BODY                 ->   for T in XS: v = E; BODY
    the element is computed as the loop goes instead of up front (list) - the same thing when computing it has no effect; T's names
    must not occur in BODY or after the loop"""
    from .normalize import _PURE_CALLS

    def pure(e):
        for c in ast.walk(e):
            if isinstance(c, (ast.Yield, ast.YieldFrom, ast.Await, ast.NamedExpr, ast.Lambda)):
                return False
            if isinstance(c, ast.Call) and not (isinstance(c.func, ast.Name) and c.func.id in _PURE_CALLS):
                return False
        return True
    changed = False
    all_names = [n.id for n in ast.walk(fn) if isinstance(n, ast.Name)]
    for lo in [n for n in ast.walk(fn) if isinstance(n, ast.For)]:
        it = lo.iter
        enum = isinstance(it, ast.Call) and isinstance(it.func, ast.Name) and it.func.id == 'enumerate' and len(it.args) == 1 and not it.keywords
        comp = it.args[0] if enum else it
        if not isinstance(comp, (ast.GeneratorExp, ast.ListComp)) or len(comp.generators) != 1:
            continue
        g = comp.generators[0]
        if g.ifs or g.is_async or not pure(comp.elt):
            continue
        if enum and not (isinstance(lo.target, ast.Tuple) and len(lo.target.elts) == 2):
            continue
        tnames = {n.id for n in ast.walk(g.target) if isinstance(n, ast.Name)}
        inside = sum(1 for n in ast.walk(comp) if isinstance(n, ast.Name) and n.id in tnames)
        if sum(1 for x in all_names if x in tnames) != inside:
            continue            # the comprehension's own names are used elsewhere in the function
        vtarget = lo.target.elts[1] if enum else lo.target
        assign = ast.Assign([vtarget], comp.elt, None)
        if enum:
            lo.target = ast.Tuple([lo.target.elts[0], g.target], ast.Store())
            it.args = [g.iter]
        else:
            lo.target = g.target
            lo.iter = g.iter
        for n in ast.walk(lo.target):
            if hasattr(n, 'ctx'):
                n.ctx = ast.Store()
        ast.copy_location(assign, lo)
        lo.body.insert(0, assign)
        ast.fix_missing_locations(lo)
        changed = True
    return changed


def _n91(fn):
    """N91 a loop that pairs a list with a run of flags - True for the first len(XS) - M elements, False for the rest - is the loop
    over the positions that compares the position with that bound:
         for x, r in zip(XS, [True] * (len(XS) - M) + [False] * M): BODY
         for x, r in zip(XS, chain(repeat(True, len(XS) - M), repeat(False, M))): BODY
      -> for i, x in enumerate(XS): r = i < len(XS) - M; BODY
    (for every integer M: a negative count gives an empty run, zip stops with XS)"""
    changed = False
    taken = {n.id for n in ast.walk(fn) if isinstance(n, ast.Name)}
    for lo in [n for n in ast.walk(fn) if isinstance(n, ast.For)]:
        it = lo.iter
        if not (isinstance(it, ast.Call) and isinstance(it.func, ast.Name) and it.func.id == 'zip' and len(it.args) == 2 and not it.keywords
                and isinstance(lo.target, ast.Tuple) and len(lo.target.elts) == 2 and isinstance(lo.target.elts[1], ast.Name)):
            continue
        xs, flags = it.args
        runs = None
        if isinstance(flags, ast.BinOp) and isinstance(flags.op, ast.Add):
            def run(e):
                if isinstance(e, ast.BinOp) and isinstance(e.op, ast.Mult):
                    for a, b in ((e.left, e.right), (e.right, e.left)):
                        if isinstance(a, ast.List) and len(a.elts) == 1 and isinstance(a.elts[0], ast.Constant) and isinstance(a.elts[0].value, bool):
                            return a.elts[0].value, b
                return None
            runs = (run(flags.left), run(flags.right))
        elif isinstance(flags, ast.Call) and isinstance(flags.func, (ast.Name, ast.Attribute)) and not flags.keywords and len(flags.args) == 2 \
                and (flags.func.id if isinstance(flags.func, ast.Name) else flags.func.attr) == 'chain':
            def run(e):
                if isinstance(e, ast.Call) and not e.keywords and len(e.args) == 2 \
                        and (e.func.id if isinstance(e.func, ast.Name) else e.func.attr if isinstance(e.func, ast.Attribute) else '') == 'repeat' \
                        and isinstance(e.args[0], ast.Constant) and isinstance(e.args[0].value, bool):
                    return e.args[0].value, e.args[1]
                return None
            runs = (run(flags.args[0]), run(flags.args[1]))
        if not runs or runs[0] is None or runs[1] is None or runs[0][0] is not True or runs[1][0] is not False:
            continue
        n_true, n_false = runs[0][1], runs[1][1]
        want = 'len(%s) - %s' % (ast.unparse(xs), ast.unparse(n_false) if isinstance(n_false, (ast.Name, ast.Call, ast.Attribute, ast.Constant))
                                 else '(%s)' % ast.unparse(n_false))
        if ast.unparse(n_true) != want:
            continue
        ix = 'i__pos'
        while ix in taken:
            ix += '_'
        taken.add(ix)
        r_name = lo.target.elts[1]
        assign = ast.Assign([ast.Name(r_name.id, ast.Store())], ast.Compare(ast.Name(ix, ast.Load()), [ast.Lt()], [n_true]), None)
        lo.target = ast.Tuple([ast.Name(ix, ast.Store()), lo.target.elts[0]], ast.Store())
        lo.iter = ast.Call(ast.Name('enumerate', ast.Load()), [xs], [])
        ast.copy_location(assign, lo)
        lo.body.insert(0, assign)
        ast.fix_missing_locations(lo)
        changed = True
    return changed


def late_rewrites(tree: ast.Module) -> bool:
    """rewrites whose instances only appear after the statement-level folding of the second pass"""
    changed = False
    for fn in [n for n in ast.walk(tree) if isinstance(n, (ast.FunctionDef, ast.AsyncFunctionDef))]:
        changed |= bool(_n68(fn))
        changed |= bool(_n90(fn))
        changed |= bool(_n91(fn))
    return changed


def _n70(fn, counter):
    """N70 an element taken out of a fresh list of *distinct* names, which is then only read:
           L = <parameter names of a signature>[a:b] | list(..)      t = C in L      if t: L.remove(C)      .. L read ..
       -> the `if` goes and every later read of L becomes `[x for x in L if x != C]` (the parameter names of one signature are
       distinct, so removing the first C is removing every C; where C is absent both leave L alone).
       N69 (with it) `list(E)` of such a fresh list is E"""
    class Unlist(ast.NodeTransformer):
        def visit_Call(self, n):
            self.generic_visit(n)
            if isinstance(n.func, ast.Name) and n.func.id == 'list' and len(n.args) == 1 and not n.keywords and _fresh_names(n.args[0]):
                return n.args[0]
            return n

    def _fresh_names(e):
        t = ast.unparse(e)
        return isinstance(e, ast.Subscript) and isinstance(e.slice, ast.Slice) and 'getfullargspec(' in t and t.rsplit('[', 1)[0].endswith('.args')
    for st in _own_nodes(fn):
        if isinstance(st, ast.stmt) and not isinstance(st, (ast.FunctionDef, ast.ClassDef)):
            for name, value in list(ast.iter_fields(st)):
                if isinstance(value, ast.expr):
                    setattr(st, name, Unlist().visit(value))
    order = {id(x): k for k, x in enumerate(_dfs_nodes(fn))}
    for holder, fld, blk in list(_blocks(fn)):
        for i, st in enumerate(blk):
            if not (isinstance(st, ast.If) and not st.orelse and len(st.body) == 1 and isinstance(st.body[0], ast.Expr)):
                continue
            c = st.body[0].value
            if not (isinstance(c, ast.Call) and isinstance(c.func, ast.Attribute) and c.func.attr == 'remove' and isinstance(c.func.value, ast.Name)
                    and len(c.args) == 1 and isinstance(c.args[0], ast.Constant) and not c.keywords):
                continue
            L, C = c.func.value.id, c.args[0]
            test = st.test
            if isinstance(test, ast.Name):
                defs = [d for d in blk[:i] if isinstance(d, ast.Assign) and len(d.targets) == 1 and isinstance(d.targets[0], ast.Name)
                        and d.targets[0].id == test.id]
                stores = [n for n in ast.walk(fn) if isinstance(n, ast.Name) and n.id == test.id and not isinstance(n.ctx, ast.Load)]
                if len(defs) != 1 or len(stores) != 1:
                    continue
                test = defs[0].value
            if not (isinstance(test, ast.Compare) and len(test.ops) == 1 and isinstance(test.ops[0], ast.In)
                    and ast.dump(test.left) == ast.dump(C) and isinstance(test.comparators[0], ast.Name) and test.comparators[0].id == L):
                continue
            ldefs = [d for d in blk[:i] if isinstance(d, ast.Assign) and len(d.targets) == 1 and isinstance(d.targets[0], ast.Name)
                     and d.targets[0].id == L]
            lstores = [n for n in ast.walk(fn) if isinstance(n, ast.Name) and n.id == L and not isinstance(n.ctx, ast.Load)]
            if len(ldefs) != 1 or len(lstores) != 1 or not _fresh_names(ldefs[0].value):
                continue
            # L is otherwise only read
            par = {}
            for x in ast.walk(fn):
                for ch in ast.iter_child_nodes(x):
                    par[id(ch)] = x
            ok = True
            later = []
            for n in ast.walk(fn):
                if isinstance(n, ast.Name) and n.id == L and isinstance(n.ctx, ast.Load):
                    if any(n is y for y in ast.walk(st)):
                        continue
                    p_ = par.get(id(n))
                    if isinstance(p_, ast.Attribute) and p_.attr in _LIST_MUTATORS:
                        ok = False
                    if isinstance(p_, ast.Subscript) and isinstance(p_.ctx, (ast.Store, ast.Del)):
                        ok = False
                    if isinstance(p_, ast.Call) and n in p_.args and not (isinstance(p_.func, ast.Name) and p_.func.id in ('len', 'list', 'tuple', 'set', 'sorted', 'enumerate', 'zip')):
                        ok = False
                    if order.get(id(n), 0) > order.get(id(st), 0):
                        later.append(n)
            if not ok:
                continue
            counter[0] += 1
            xv = '_x%d' % counter[0]
            for n in later:
                p_ = par.get(id(n))
                if isinstance(p_, ast.comprehension) and p_.iter is n and isinstance(p_.target, ast.Name):
                    p_.ifs.insert(0, ast.copy_location(ast.Compare(ast.Name(p_.target.id, ast.Load()), [ast.NotEq()], [C]), n))
                    ast.fix_missing_locations(p_.ifs[0])
                    continue
                if isinstance(p_, ast.For) and p_.iter is n and isinstance(p_.target, ast.Name) and not p_.orelse:
                    wrapped = ast.If(ast.Compare(ast.Name(p_.target.id, ast.Load()), [ast.NotEq()], [C]), p_.body, [])
                    ast.copy_location(wrapped, p_.body[0])
                    ast.fix_missing_locations(wrapped)
                    p_.body = [wrapped]
                    continue
                comp = ast.ListComp(ast.Name(xv, ast.Load()), [ast.comprehension(
                    ast.Name(xv, ast.Store()), ast.Name(L, ast.Load()), [ast.Compare(ast.Name(xv, ast.Load()), [ast.NotEq()], [C])], 0)])
                ast.copy_location(comp, n)
                ast.fix_missing_locations(comp)
                _Subst(lambda y, n=n: y is n, lambda y, comp=comp: comp).visit(fn)
            blk.remove(st)
            if not blk:
                blk.append(ast.copy_location(ast.Pass(), st))
            return True
    return False


_LIST_MUTATORS = {'append', 'extend', 'insert', 'remove', 'pop', 'clear', 'sort', 'reverse'}


def _dfs_nodes(fn):
    out = []

    def rec(n):
        out.append(n)
        for c in ast.iter_child_nodes(n):
            rec(c)
    rec(fn)
    return out


def _n71(tree):
    """N71 iterating a snapshot of a pure generator is iterating the generator: `for T in list(class_subobjects(X))` (loop or
    comprehension) -> `for T in class_subobjects(X)`.  class_subobjects only inspects a signature: collecting its triples first and
    producing them one by one cannot be told apart by the loop body"""
    def strip(e):
        if isinstance(e, ast.Call) and isinstance(e.func, ast.Name) and e.func.id in ('list', 'tuple') and len(e.args) == 1 and not e.keywords:
            a = e.args[0]
            if isinstance(a, ast.Call) and ((isinstance(a.func, ast.Name) and a.func.id == 'class_subobjects')
                                            or (isinstance(a.func, ast.Attribute) and a.func.attr == 'class_subobjects')):
                return a
        return e
    for n in ast.walk(tree):
        if isinstance(n, (ast.For, ast.comprehension)):
            n.iter = strip(n.iter)
    # N71b the snapshot bound to a local first: `v = list(class_subobjects(X))`, v bound once, only ever iterated (loop or comprehension),
    # X a name that the function never re-binds -> every `in v` becomes `in class_subobjects(X)` and the binding goes
    for fn in [n for n in ast.walk(tree) if isinstance(n, (ast.FunctionDef, ast.AsyncFunctionDef))]:
        binds = {}
        stores = {}
        for n in ast.walk(fn):
            if isinstance(n, ast.Name) and isinstance(n.ctx, (ast.Store, ast.Del)):
                stores[n.id] = stores.get(n.id, 0) + 1
        params = {a.arg for a in fn.args.args + fn.args.kwonlyargs}
        for holder, fld, blk in list(_blocks(fn)):
            for st in blk:
                if isinstance(st, ast.Assign) and len(st.targets) == 1 and isinstance(st.targets[0], ast.Name) and stores.get(st.targets[0].id) == 1 \
                        and st.targets[0].id not in params:
                    g = strip(st.value)
                    if g is not st.value and len(g.args) == 1 and not g.keywords and isinstance(g.args[0], ast.Name) \
                            and stores.get(g.args[0].id, 0) == 0:
                        binds[st.targets[0].id] = (st, blk, g)
        for v, (st, blk, g) in binds.items():
            uses = [n for n in ast.walk(fn) if isinstance(n, ast.Name) and n.id == v and isinstance(n.ctx, ast.Load)]
            iters = [n for n in ast.walk(fn) if isinstance(n, (ast.For, ast.comprehension)) and isinstance(n.iter, ast.Name) and n.iter.id == v]
            if not uses or len(uses) != len(iters):
                continue
            for n in iters:
                n.iter = ast.copy_location(copy.deepcopy(g), n.iter)
            blk.remove(st)
            if not blk:
                blk.append(ast.copy_location(ast.Pass(), st))
    return tree


def _n72(fn):
    """N72 keyword arguments collected in a local dict: `opts = dict(a=X, b=Y)` / `{'a': X, 'b': Y}` bound once, never modified and
    only ever used as `f(.., **opts)` -> the keywords are written out at each call (X, Y: names that are not re-bound, constants and
    operators on them - evaluating them once or at each call is the same)"""
    def simple(e):
        for n in ast.walk(e):
            if not isinstance(n, (ast.Name, ast.Constant, ast.UnaryOp, ast.Not, ast.USub, ast.Load, ast.BoolOp, ast.And, ast.Or, ast.Attribute,
                                  ast.Compare, ast.Is, ast.IsNot, ast.Eq, ast.NotEq)):
                return False
        return True
    # `f(.., **{'a': X, 'b': Y})` / `f(.., **dict(a=X, b=Y))` written in place (e.g. what an inlined options helper returned)
    for c in ast.walk(fn):
        if isinstance(c, ast.Call):
            for k in list(c.keywords):
                if k.arg is not None:
                    continue
                val = k.value
                pairs = None
                if isinstance(val, ast.Dict) and val.keys and all(isinstance(x, ast.Constant) and isinstance(x.value, str) and x.value.isidentifier()
                                                                  for x in val.keys):
                    pairs = [(x.value, y) for x, y in zip(val.keys, val.values)]
                elif isinstance(val, ast.Call) and isinstance(val.func, ast.Name) and val.func.id == 'dict' and not val.args and val.keywords \
                        and all(x.arg for x in val.keywords):
                    pairs = [(x.arg, x.value) for x in val.keywords]
                if pairs and not ({k2.arg for k2 in c.keywords if k2.arg} & {a for a, _ in pairs}):
                    i = c.keywords.index(k)
                    c.keywords[i:i + 1] = [ast.keyword(a, x) for a, x in pairs]
                    ast.fix_missing_locations(c)
    stores_all = {}
    for n in ast.walk(fn):
        if isinstance(n, ast.Name) and not isinstance(n.ctx, ast.Load):
            stores_all[n.id] = stores_all.get(n.id, 0) + 1
    args = {a.arg for a in ast.walk(fn.args) if isinstance(a, ast.arg)}
    for holder, fld, blk in list(_blocks(fn)):
        for st in list(blk):
            if not (isinstance(st, ast.Assign) and len(st.targets) == 1 and isinstance(st.targets[0], ast.Name)):
                continue
            v, val = st.targets[0].id, st.value
            pairs = None
            if isinstance(val, ast.Call) and isinstance(val.func, ast.Name) and val.func.id == 'dict' and not val.args and val.keywords \
                    and all(k.arg for k in val.keywords):
                pairs = [(k.arg, k.value) for k in val.keywords]
            elif isinstance(val, ast.Dict) and val.keys and all(isinstance(k, ast.Constant) and isinstance(k.value, str) and k.value.isidentifier()
                                                                for k in val.keys):
                pairs = [(k.value, x) for k, x in zip(val.keys, val.values)]
            if not pairs or stores_all.get(v, 0) != 1 or v in args or not all(simple(x) for _, x in pairs):
                continue
            free = {n.id for _, x in pairs for n in ast.walk(x) if isinstance(n, ast.Name)}
            if any(stores_all.get(nm, 0) > (0 if nm in args else 1) for nm in free):
                continue        # a value's name is re-bound somewhere: once vs. at each call could differ
            uses = [n for n in ast.walk(fn) if isinstance(n, ast.Name) and n.id == v and isinstance(n.ctx, ast.Load)]
            kws = [(c, k) for c in ast.walk(fn) if isinstance(c, ast.Call) for k in c.keywords if k.arg is None and isinstance(k.value, ast.Name)
                   and k.value.id == v]
            if not uses or len(uses) != len(kws):
                continue
            if any({k2.arg for k2 in c.keywords if k2.arg} & {a for a, _ in pairs} for c, _ in kws):
                continue
            for c, k in kws:
                i = c.keywords.index(k)
                c.keywords[i:i + 1] = [ast.keyword(a, copy.deepcopy(x)) for a, x in pairs]
                ast.fix_missing_locations(c)
            blk.remove(st)
            if not blk:
                blk.append(ast.copy_location(ast.Pass(), st))


def _n73(fn):
    """N73 a defaulted parameter continued under another name: `v = FRESH if p is None else p` (or `p if p is not None else FRESH`,
    or the if/else statement form), p a parameter not read anywhere else, v bound only there -> `if p is None: p = FRESH` and v is p"""
    params = {a.arg for a in ast.walk(fn.args) if isinstance(a, ast.arg)}

    def none_test(t):
        if isinstance(t, ast.Compare) and len(t.ops) == 1 and isinstance(t.left, ast.Name) and isinstance(t.comparators[0], ast.Constant) \
                and t.comparators[0].value is None and isinstance(t.ops[0], (ast.Is, ast.IsNot)):
            return t.left.id, isinstance(t.ops[0], ast.Is)
        return None, None
    for holder, fld, blk in list(_blocks(fn)):
        for i, st in enumerate(list(blk)):
            v = pn = fresh = None
            if isinstance(st, ast.Assign) and len(st.targets) == 1 and isinstance(st.targets[0], ast.Name) and isinstance(st.value, ast.IfExp):
                pn, is_none = none_test(st.value.test)
                a, b = (st.value.body, st.value.orelse) if is_none else (st.value.orelse, st.value.body)
                if pn and isinstance(b, ast.Name) and b.id == pn:
                    v, fresh = st.targets[0].id, a
            elif isinstance(st, ast.If) and len(st.body) == 1 and len(st.orelse) == 1 and all(
                    isinstance(x, ast.Assign) and len(x.targets) == 1 and isinstance(x.targets[0], ast.Name) for x in (st.body[0], st.orelse[0])) \
                    and st.body[0].targets[0].id == st.orelse[0].targets[0].id:
                pn, is_none = none_test(st.test)
                a, b = (st.body[0].value, st.orelse[0].value) if is_none else (st.orelse[0].value, st.body[0].value)
                if pn and isinstance(b, ast.Name) and b.id == pn:
                    v, fresh = st.body[0].targets[0].id, a
            if not v or pn not in params or v in params or v == pn:
                continue
            if any(isinstance(n, ast.Name) and n.id == pn for n in ast.walk(fresh)):
                continue
            inside = {id(n) for n in ast.walk(st)}
            if any(isinstance(n, ast.Name) and n.id == pn and id(n) not in inside for n in ast.walk(fn)):
                continue
            if sum(1 for n in ast.walk(fn) if isinstance(n, ast.Name) and n.id == v and not isinstance(n.ctx, ast.Load) and id(n) not in inside):
                continue
            new_if = ast.If(ast.Compare(ast.Name(pn, ast.Load()), [ast.Is()], [ast.Constant(None)]),
                            [ast.Assign([ast.Name(pn, ast.Store())], fresh)], [])
            ast.copy_location(new_if, st)
            ast.fix_missing_locations(new_if)
            blk[blk.index(st)] = new_if
            for n in ast.walk(fn):
                if isinstance(n, ast.Name) and n.id == v:
                    n.id = pn
            return True
    return False


def _n75(tree):
    """N75 a comparison between two literals is its value (`'yaml' == 'json'`, left behind when a helper that switches on a
    literal argument is inlined); the if statement / conditional expression it decides is reduced to the arm that is taken"""
    class T(ast.NodeTransformer):
        def visit_Compare(self, n):
            self.generic_visit(n)
            if len(n.ops) == 1 and isinstance(n.left, ast.Constant) and isinstance(n.comparators[0], ast.Constant) \
                    and isinstance(n.ops[0], (ast.Eq, ast.NotEq)) and type(n.left.value) is type(n.comparators[0].value) \
                    and isinstance(n.left.value, (str, int, bool, type(None))):
                eq = n.left.value == n.comparators[0].value
                return ast.copy_location(ast.Constant(eq if isinstance(n.ops[0], ast.Eq) else not eq), n)
            if len(n.ops) == 1 and isinstance(n.left, ast.Constant) and isinstance(n.ops[0], (ast.In, ast.NotIn)) \
                    and isinstance(n.comparators[0], (ast.Tuple, ast.List, ast.Set)) and all(isinstance(x, ast.Constant) for x in n.comparators[0].elts) \
                    and isinstance(n.left.value, str):
                mem = n.left.value in [x.value for x in n.comparators[0].elts]
                return ast.copy_location(ast.Constant(mem if isinstance(n.ops[0], ast.In) else not mem), n)
            return n

        def visit_If(self, n):
            self.generic_visit(n)
            if isinstance(n.test, ast.Constant) and isinstance(n.test.value, bool):
                taken = n.body if n.test.value else n.orelse
                return taken if taken else ast.copy_location(ast.Pass(), n)
            return n

        def visit_IfExp(self, n):
            self.generic_visit(n)
            if isinstance(n.test, ast.Constant) and isinstance(n.test.value, bool):
                return n.body if n.test.value else n.orelse
            return n
    return T().visit(tree)


def _n76(fn):
    """N76 `class C(B): pass` followed at once by `C.attr = <literal>` statements: the attributes belong to the class body"""
    for holder, fld, blk in list(_blocks(fn)):
        i = 0
        while i < len(blk):
            st = blk[i]
            if isinstance(st, ast.ClassDef) and not st.decorator_list:
                j = i + 1
                while j < len(blk) and isinstance(blk[j], ast.Assign) and len(blk[j].targets) == 1 and isinstance(blk[j].targets[0], ast.Attribute) \
                        and isinstance(blk[j].targets[0].value, ast.Name) and blk[j].targets[0].value.id == st.name \
                        and isinstance(blk[j].value, ast.Constant) and not blk[j].targets[0].attr.startswith('__'):
                    a = blk[j]
                    new = ast.copy_location(ast.Assign([ast.Name(a.targets[0].attr, ast.Store())], a.value), a)
                    ast.fix_missing_locations(new)
                    st.body = [x for x in st.body if not isinstance(x, ast.Pass)] + [new]
                    del blk[j]
            i += 1


def _n77(tree):
    """N77 `vars(X)` with one argument is `X.__dict__`"""
    class T(ast.NodeTransformer):
        def visit_Call(self, n):
            self.generic_visit(n)
            if isinstance(n.func, ast.Name) and n.func.id == 'vars' and len(n.args) == 1 and not n.keywords:
                return ast.copy_location(ast.Attribute(n.args[0], '__dict__', ast.Load()), n)
            return n
    return T().visit(tree)


def _n78(fn):
    """N78 `try: A except ..: H else: B` with B a single return / plain assignment of a value that contains no call (it cannot raise
    what the handlers take) -> B is the end of the protected statements; N79 a wrapper `w = Node(x)` / `UnknownNode(s, x)` made right
    before a `try` whose first statement is its only reader is made there (these constructors only store their arguments)"""
    def callfree(e):
        return e is None or not any(isinstance(x, (ast.Call, ast.Subscript, ast.BinOp, ast.Await, ast.Yield, ast.YieldFrom)) for x in ast.walk(e))
    for holder, fld, blk in list(_blocks(fn)):
        for st in blk:
            if isinstance(st, ast.Try) and st.orelse and len(st.orelse) == 1 and not st.finalbody:
                b = st.orelse[0]
                if (isinstance(b, ast.Return) and callfree(b.value)) or (isinstance(b, ast.Assign) and callfree(b.value)
                                                                         and all(isinstance(t, ast.Name) for t in b.targets)):
                    st.body = st.body + [b]
                    st.orelse = []
        i = 0
        while i + 1 < len(blk):
            a, t = blk[i], blk[i + 1]
            if isinstance(a, ast.Assign) and len(a.targets) == 1 and isinstance(a.targets[0], ast.Name) and isinstance(a.value, ast.Call) \
                    and isinstance(a.value.func, ast.Name) and a.value.func.id in ('Node', 'UnknownNode') and isinstance(t, ast.Try) and t.body:
                v = a.targets[0].id
                loads = [n for n in ast.walk(fn) if isinstance(n, ast.Name) and n.id == v and isinstance(n.ctx, ast.Load)]
                stores = [n for n in ast.walk(fn) if isinstance(n, ast.Name) and n.id == v and not isinstance(n.ctx, ast.Load)]
                first = t.body[0]
                if len(loads) == 1 and len(stores) == 1 and any(loads[0] is n for n in ast.walk(first)) \
                        and isinstance(first, (ast.Expr, ast.Assign, ast.Return)):
                    _Subst(lambda y, ld=loads[0]: y is ld, lambda y, val=a.value: val).visit(first)
                    del blk[i]
                    continue
            i += 1


def _n81(fn):
    """N81 unpacking of an indexed pair: `a, b = CHAIN[i]` (CHAIN a name / attribute chain, i a name or constant; targets plain names,
    `_` ignored) -> `a = CHAIN[i][0]; b = CHAIN[i][1]`"""
    for holder, fld, blk in list(_blocks(fn)):
        i = 0
        while i < len(blk):
            st = blk[i]
            if isinstance(st, ast.Assign) and len(st.targets) == 1 and isinstance(st.targets[0], ast.Tuple) and len(st.targets[0].elts) == 2 \
                    and all(isinstance(t, ast.Name) for t in st.targets[0].elts) and isinstance(st.value, ast.Subscript) \
                    and _is_chain(st.value.value) and isinstance(st.value.slice, (ast.Name, ast.Constant)):
                names = [t.id for t in st.targets[0].elts]
                if not any(isinstance(n, ast.Name) and n.id in names for n in ast.walk(st.value)):
                    new = []
                    for k, nm in enumerate(names):
                        if nm == '_':
                            continue
                        a = ast.Assign([ast.Name(nm, ast.Store())], ast.Subscript(copy.deepcopy(st.value), ast.Constant(k), ast.Load()))
                        ast.copy_location(a, st)
                        ast.fix_missing_locations(a)
                        new.append(a)
                    blk[i:i + 1] = new or [ast.copy_location(ast.Pass(), st)]
                    i += len(new) or 1
                    continue
            i += 1


def _n83(fn):
    """N83 nested guards around a leaving statement: `if A: if B: continue` (no else on either, nothing else in the outer body) ->
    `if A and B: continue` (likewise break / return / raise)"""
    changed = True
    while changed:
        changed = False
        for holder, fld, blk in list(_blocks(fn)):
            for st in blk:
                if isinstance(st, ast.If) and not st.orelse and len(st.body) == 1 and isinstance(st.body[0], ast.If) and not st.body[0].orelse \
                        and len(st.body[0].body) == 1 and isinstance(st.body[0].body[0], (ast.Continue, ast.Break, ast.Return, ast.Raise)):
                    inner = st.body[0]
                    st.test = ast.copy_location(ast.BoolOp(ast.And(), [st.test, inner.test]), st.test)
                    st.body = inner.body
                    changed = True


def _n84(tree):
    """N84 membership in a constant collection does not depend on its kind: `x in frozenset((a, b))` / `set([a, b])` / `{a, b}` /
    `[a, b]` with literal elements -> `x in (a, b)`"""
    class T(ast.NodeTransformer):
        def visit_Compare(self, n):
            self.generic_visit(n)
            if len(n.ops) == 1 and isinstance(n.ops[0], (ast.In, ast.NotIn)):
                box = n.comparators[0]
                while isinstance(box, ast.Call) and isinstance(box.func, ast.Name) and box.func.id in ('frozenset', 'set', 'tuple', 'list') \
                        and len(box.args) == 1 and not box.keywords:
                    box = box.args[0]
                if box is not n.comparators[0] or isinstance(box, (ast.Set, ast.List)):
                    if isinstance(box, (ast.Tuple, ast.List, ast.Set)) and box.elts and all(isinstance(x, ast.Constant) for x in box.elts):
                        n.comparators = [ast.copy_location(ast.Tuple(list(box.elts), ast.Load()), box)]
            return n
    return T().visit(tree)


def _n85(fn, counter):
    """N85 first match by for/break/else: `for T in XS: if C: v = E; break` + `else: <leave>` (C, E without calls that could have an
    effect) -> `m = [E for T in XS if C]; if len(m) == 0: <leave>; v = m[0]`"""
    from .normalize import _PURE_CALLS

    def pure(e):
        for c in ast.walk(e):
            if isinstance(c, (ast.Yield, ast.YieldFrom, ast.Await, ast.NamedExpr, ast.Lambda)):
                return False
            if isinstance(c, ast.Call) and not (isinstance(c.func, ast.Name) and c.func.id in _PURE_CALLS):
                return False
        return True
    for holder, fld, blk in list(_blocks(fn)):
        i = 0
        while i < len(blk):
            st = blk[i]
            if isinstance(st, ast.For) and st.orelse and len(st.body) == 1 and isinstance(st.body[0], ast.If) and not st.body[0].orelse \
                    and len(st.body[0].body) == 2 and isinstance(st.body[0].body[1], ast.Break) and isinstance(st.body[0].body[0], ast.Assign) \
                    and len(st.body[0].body[0].targets) == 1 and isinstance(st.body[0].body[0].targets[0], ast.Name) \
                    and isinstance(st.orelse[-1], (ast.Raise, ast.Return)) and pure(st.body[0].test) and pure(st.body[0].body[0].value) \
                    and pure(st.iter) and not any(isinstance(n, (ast.Break, ast.Continue)) for x in st.orelse for n in ast.walk(x)):
                a = st.body[0].body[0]
                v = a.targets[0].id
                tnames = {n.id for n in ast.walk(st.target) if isinstance(n, ast.Name)}
                if v in tnames:
                    i += 1
                    continue
                counter[0] += 1
                m = '_first%d' % counter[0]
                comp = ast.ListComp(a.value, [ast.comprehension(st.target, st.iter, [st.body[0].test], 0)])
                s1 = ast.Assign([ast.Name(m, ast.Store())], comp)
                s2 = ast.If(ast.Compare(ast.Call(ast.Name('len', ast.Load()), [ast.Name(m, ast.Load())], []), [ast.Eq()], [ast.Constant(0)]),
                            list(st.orelse), [])
                s3 = ast.Assign([ast.Name(v, ast.Store())], ast.Subscript(ast.Name(m, ast.Load()), ast.Constant(0), ast.Load()))
                for x in (s1, s2, s3):
                    ast.copy_location(x, st)
                    ast.fix_missing_locations(x)
                blk[i:i + 1] = [s1, s2, s3]
                i += 3
                continue
            i += 1


def _n86(fn):
    """N86 first match taken from a list of matches: `L = [v for v in XS if C]; if not L: <B, leaving>; x = L[0]; REST` (to the end of
    the block; L used nowhere else; no break/continue of this level in REST) ->
    `for x in XS: if C[v:=x]: REST; break` + `else: B` (the first match decides, as before; C is asked in the same order - only no
    longer for the elements after the first match, which is why C must be without effects: a has_attribute / membership test)"""
    def pure_test(e):
        for c in ast.walk(e):
            if isinstance(c, ast.Call) and not (isinstance(c.func, ast.Attribute) and c.func.attr in ('has_attribute', 'is_scalar', 'is_mapping',
                                                                                                      'is_sequence', 'startswith', 'endswith')
                                                or isinstance(c.func, ast.Name) and c.func.id in ('isinstance', 'hasattr', 'len', 'issubclass')):
                return False
        return True

    def own_jumps(stmts):
        """break / continue statements in stmts that would bind to a loop outside stmts"""
        out = []

        def rec(n, depth):
            for ch in ast.iter_child_nodes(n):
                if isinstance(ch, (ast.FunctionDef, ast.Lambda, ast.ClassDef)):
                    continue
                if isinstance(ch, (ast.For, ast.While)):
                    for b in ch.body:
                        rec_stmt(b, depth + 1)
                    for b in ch.orelse:
                        rec_stmt(b, depth)
                    continue
                rec_stmt(ch, depth) if isinstance(ch, ast.stmt) else rec(ch, depth)

        def rec_stmt(s_, depth):
            if isinstance(s_, (ast.Break, ast.Continue)) and depth == 0:
                out.append(s_)
            rec(s_, depth)
        for s_ in stmts:
            rec_stmt(s_, 0)
        return out
    for holder, fld, blk in list(_blocks(fn)):
        for i in range(len(blk) - 2):
            s1, s2, s3 = blk[i], blk[i + 1], blk[i + 2]
            if not (isinstance(s1, ast.Assign) and len(s1.targets) == 1 and isinstance(s1.targets[0], ast.Name) and isinstance(s1.value, ast.ListComp)
                    and len(s1.value.generators) == 1 and isinstance(s1.value.elt, ast.Name) and isinstance(s1.value.generators[0].target, ast.Name)
                    and s1.value.elt.id == s1.value.generators[0].target.id and len(s1.value.generators[0].ifs) >= 1):
                continue
            L, g = s1.targets[0].id, s1.value.generators[0]
            if not (isinstance(s2, ast.If) and not s2.orelse and isinstance(s2.test, ast.UnaryOp) and isinstance(s2.test.op, ast.Not)
                    and isinstance(s2.test.operand, ast.Name) and s2.test.operand.id == L and s2.body
                    and isinstance(s2.body[-1], (ast.Continue, ast.Return, ast.Raise))):
                continue
            if not (isinstance(s3, ast.Assign) and len(s3.targets) == 1 and isinstance(s3.targets[0], ast.Name) and isinstance(s3.value, ast.Subscript)
                    and isinstance(s3.value.value, ast.Name) and s3.value.value.id == L and isinstance(s3.value.slice, ast.Constant)
                    and s3.value.slice.value == 0):
                continue
            rest = blk[i + 3:]
            inside = {id(n) for x in (s1, s2, s3) for n in ast.walk(x)}
            if any(isinstance(n, ast.Name) and n.id == L and id(n) not in inside for n in ast.walk(fn)):
                continue
            if not all(pure_test(c) for c in g.ifs) or own_jumps(rest) or not rest:
                continue
            x = s3.targets[0].id
            cond = g.ifs[0] if len(g.ifs) == 1 else ast.BoolOp(ast.And(), list(g.ifs))
            cond = _Subst(lambda n, v=g.target.id: isinstance(n, ast.Name) and n.id == v, lambda n, x=x: ast.Name(x, n.ctx)).visit(copy.deepcopy(cond))
            brk = ast.copy_location(ast.Break(), s3)
            inner = ast.If(cond, rest + [brk], [])
            loop = ast.For(ast.Name(x, ast.Store()), g.iter, [inner], list(s2.body), None)
            ast.copy_location(inner, s3)
            ast.copy_location(loop, s1)
            ast.fix_missing_locations(loop)
            blk[i:] = [loop]
            return True
    return False


def _n98(fn):
    """N98 a constant of the enclosing function read by a nested function: `v = <literal of constants>` bound once at the top level of
    F (tuple / str / number / frozen literal; never re-bound, no nonlocal/global) and read inside a nested def -> the literal at each
    such read (module constants are folded by step K; this is the same for a closure constant)."""
    def lit(e):
        if isinstance(e, ast.Constant):
            return True
        return isinstance(e, ast.Tuple) and all(lit(x) for x in e.elts)
    nested = [n for n in ast.walk(fn) if isinstance(n, (ast.FunctionDef, ast.AsyncFunctionDef, ast.Lambda)) and n is not fn]
    if not nested:
        return
    if any(isinstance(n, (ast.Nonlocal, ast.Global)) for n in ast.walk(fn)):
        return
    stores = {}
    for n in ast.walk(fn):
        if isinstance(n, ast.Name) and isinstance(n.ctx, (ast.Store, ast.Del)):
            stores[n.id] = stores.get(n.id, 0) + 1
        elif isinstance(n, ast.arg):
            stores[n.arg] = stores.get(n.arg, 0) + 2
    consts = {}
    for st in fn.body:
        if isinstance(st, ast.Assign) and len(st.targets) == 1 and isinstance(st.targets[0], ast.Name) and lit(st.value) \
                and stores.get(st.targets[0].id) == 1:
            consts[st.targets[0].id] = st.value
    if not consts:
        return
    for g in nested:
        class T(ast.NodeTransformer):
            def visit_Name(self, n):
                if isinstance(n.ctx, ast.Load) and n.id in consts:
                    return ast.copy_location(copy.deepcopy(consts[n.id]), n)
                return n
        if isinstance(g, ast.Lambda):
            g.body = T().visit(g.body)
        else:
            g.body = [T().visit(x) for x in g.body]


def _n97(fn, counter):
    """N97 first match over two candidates written out: `x = E1; if not C(x): x = E2; if not C(x): <B, leaving>` (C a test without
    effects that reads x, E1/E2 without calls other than str methods, B does not read x) ->
    `L = [x for x in (E1, E2) if C(x)]; if not L: <B>; x = L[0]` - the input form of N86. (C(E1): x = E1 = L[0]; else C(E2): x = E2 and
    L = [E2]; else B.)"""
    def pure_test(e):
        for c in ast.walk(e):
            if isinstance(c, ast.Call) and not (isinstance(c.func, ast.Attribute) and c.func.attr in ('has_attribute', 'is_scalar', 'is_mapping',
                                                                                                      'is_sequence', 'startswith', 'endswith')
                                                or isinstance(c.func, ast.Name) and c.func.id in ('isinstance', 'hasattr', 'len', 'issubclass')):
                return False
        return True

    def simple(e):
        for c in ast.walk(e):
            if isinstance(c, ast.Call) and not (isinstance(c.func, ast.Attribute) and c.func.attr in (
                    'replace', 'lower', 'upper', 'strip', 'lstrip', 'rstrip', 'title', 'capitalize', 'casefold')):
                return False
            if isinstance(c, (ast.Yield, ast.YieldFrom, ast.Await, ast.NamedExpr, ast.Lambda)):
                return False
        return True

    def neg(t):
        return t.operand if isinstance(t, ast.UnaryOp) and isinstance(t.op, ast.Not) else None
    for holder, fld, blk in list(_blocks(fn)):
        for i in range(len(blk) - 2):
            s1, s2, s3 = blk[i], blk[i + 1], blk[i + 2]
            if not (isinstance(s1, ast.Assign) and len(s1.targets) == 1 and isinstance(s1.targets[0], ast.Name) and simple(s1.value)):
                continue
            x = s1.targets[0].id
            if not (isinstance(s2, ast.If) and not s2.orelse and neg(s2.test) is not None and len(s2.body) == 1
                    and isinstance(s2.body[0], ast.Assign) and len(s2.body[0].targets) == 1 and isinstance(s2.body[0].targets[0], ast.Name)
                    and s2.body[0].targets[0].id == x and simple(s2.body[0].value)):
                continue
            if not (isinstance(s3, ast.If) and not s3.orelse and neg(s3.test) is not None and ast.dump(neg(s3.test)) == ast.dump(neg(s2.test))
                    and s3.body and isinstance(s3.body[-1], (ast.Continue, ast.Return, ast.Raise))):
                continue
            c = neg(s2.test)
            if not pure_test(c) or not any(isinstance(n, ast.Name) and n.id == x for n in ast.walk(c)):
                continue
            if any(isinstance(n, ast.Name) and n.id == x for e in (s1.value, s2.body[0].value) for n in ast.walk(e)):
                continue
            if any(isinstance(n, ast.Name) and n.id == x for b in s3.body for n in ast.walk(b)):
                continue
            counter[0] += 1
            L = '_first%d' % counter[0]
            comp = ast.ListComp(ast.Name(x, ast.Load()), [ast.comprehension(ast.Name(x, ast.Store()), ast.Tuple([s1.value, s2.body[0].value], ast.Load()),
                                                                            [copy.deepcopy(c)], 0)])
            n1 = ast.Assign([ast.Name(L, ast.Store())], comp)
            n2 = ast.If(ast.UnaryOp(ast.Not(), ast.Name(L, ast.Load())), list(s3.body), [])
            n3 = ast.Assign([ast.Name(x, ast.Store())], ast.Subscript(ast.Name(L, ast.Load()), ast.Constant(0), ast.Load()))
            for a, b in ((n1, s1), (n2, s3), (n3, s1)):
                ast.copy_location(a, b)
                ast.fix_missing_locations(a)
            blk[i:i + 3] = [n1, n2, n3]
            return True
    return False


def _n87(fn):
    """N87 construction deferred behind a sentinel: `v = None; if A: v = X elif B: <other locals> ..; if v is None: v = E(<other locals>)`
    -> every arm that does not bind v (and does not leave) ends with `v = E(..)`; the sentinel and the deferred statement go"""
    def leaves(blk):
        return bool(blk) and isinstance(blk[-1], (ast.Return, ast.Raise, ast.Continue, ast.Break))

    def binds(blk, v):
        return any(isinstance(n, ast.Name) and n.id == v and not isinstance(n.ctx, ast.Load) for x in blk for n in ast.walk(x))
    for holder, fld, blk in list(_blocks(fn)):
        for j, s2 in enumerate(blk):
            if not (isinstance(s2, ast.If) and not s2.orelse and len(s2.body) == 1 and isinstance(s2.body[0], ast.Assign)
                    and len(s2.body[0].targets) == 1 and isinstance(s2.body[0].targets[0], ast.Name)
                    and isinstance(s2.test, ast.Compare) and len(s2.test.ops) == 1 and isinstance(s2.test.ops[0], ast.Is)
                    and isinstance(s2.test.left, ast.Name) and isinstance(s2.test.comparators[0], ast.Constant)
                    and s2.test.comparators[0].value is None and s2.test.left.id == s2.body[0].targets[0].id):
                continue
            v = s2.test.left.id
            if j == 0 or not isinstance(blk[j - 1], ast.If):
                continue
            chain = blk[j - 1]
            inits = [k for k in range(j - 1) if isinstance(blk[k], ast.Assign) and len(blk[k].targets) == 1 and isinstance(blk[k].targets[0], ast.Name)
                     and blk[k].targets[0].id == v and isinstance(blk[k].value, ast.Constant) and blk[k].value.value is None]
            if len(inits) != 1:
                continue
            k0 = inits[0]
            if any(isinstance(n, ast.Name) and n.id == v for x in blk[k0 + 1:j - 1] for n in ast.walk(x)):
                continue
            if any(isinstance(n, ast.Name) and n.id == v for n in ast.walk(chain.test)):
                continue
            build = s2.body[0]
            arms = []

            def collect(node):
                arms.append(node.body)
                if len(node.orelse) == 1 and isinstance(node.orelse[0], ast.If):
                    collect(node.orelse[0])
                elif node.orelse:
                    arms.append(node.orelse)
                else:
                    node.orelse = []
                    arms.append(node.orelse)
            collect(chain)
            for arm in arms:
                if leaves(arm) or binds(arm, v):
                    continue
                arm.append(copy.deepcopy(build))
            del blk[j]
            del blk[k0]
            ast.fix_missing_locations(fn)
            return True
    return False


def _n88(fn):
    """N88 the other spelling of N87: `s = None; if A: s = T1 elif B: s = T2 .. [elif C: <leave>]; v = X; if s is not None: v = E(s)`
    -> arms that bind s end with `v = E(T)`, the others (and the missing else) with `v = X`; `f(*(a, b), c)` is `f(a, b, c)`"""
    class Star(ast.NodeTransformer):
        def visit_Call(self, n):
            self.generic_visit(n)
            if any(isinstance(a, ast.Starred) and isinstance(a.value, ast.Tuple) for a in n.args):
                args = []
                for a in n.args:
                    if isinstance(a, ast.Starred) and isinstance(a.value, ast.Tuple):
                        args += list(a.value.elts)
                    else:
                        args.append(a)
                n.args = args
            return n

    def leaves(blk):
        return bool(blk) and isinstance(blk[-1], (ast.Return, ast.Raise, ast.Continue, ast.Break))
    for holder, fld, blk in list(_blocks(fn)):
        for j in range(2, len(blk)):
            s2 = blk[j]
            if not (isinstance(s2, ast.If) and not s2.orelse and len(s2.body) == 1 and isinstance(s2.body[0], ast.Assign)
                    and len(s2.body[0].targets) == 1 and isinstance(s2.body[0].targets[0], ast.Name)
                    and isinstance(s2.test, ast.Compare) and len(s2.test.ops) == 1 and isinstance(s2.test.ops[0], ast.IsNot)
                    and isinstance(s2.test.left, ast.Name) and isinstance(s2.test.comparators[0], ast.Constant)
                    and s2.test.comparators[0].value is None):
                continue
            sen, v = s2.test.left.id, s2.body[0].targets[0].id
            dflt = blk[j - 1]
            if not (isinstance(dflt, ast.Assign) and len(dflt.targets) == 1 and isinstance(dflt.targets[0], ast.Name) and dflt.targets[0].id == v
                    and isinstance(blk[j - 2], ast.If) and sen != v):
                continue
            chain = blk[j - 2]
            inits = [k for k in range(j - 2) if isinstance(blk[k], ast.Assign) and len(blk[k].targets) == 1 and isinstance(blk[k].targets[0], ast.Name)
                     and blk[k].targets[0].id == sen and isinstance(blk[k].value, ast.Constant) and blk[k].value.value is None]
            if len(inits) != 1:
                continue
            k0 = inits[0]
            if any(isinstance(n, ast.Name) and n.id in (sen, v) for x in blk[k0 + 1:j - 2] for n in ast.walk(x)):
                continue
            # the sentinel is used nowhere else
            inside = {id(n) for x in (chain, s2, blk[k0]) for n in ast.walk(x)}
            if any(isinstance(n, ast.Name) and n.id == sen and id(n) not in inside for n in ast.walk(fn)):
                continue
            arms = []

            def collect(node):
                arms.append(node.body)
                if len(node.orelse) == 1 and isinstance(node.orelse[0], ast.If):
                    collect(node.orelse[0])
                elif node.orelse:
                    arms.append(node.orelse)
                else:
                    node.orelse = []
                    arms.append(node.orelse)
            collect(chain)
            ok = True
            plan = []
            for arm in arms:
                if leaves(arm):
                    plan.append(None)
                    continue
                stores = [x for x in arm if any(isinstance(n, ast.Name) and n.id == sen and not isinstance(n.ctx, ast.Load) for n in ast.walk(x))]
                if not stores:
                    plan.append('default')
                elif len(stores) == 1 and stores[0] is arm[-1] and isinstance(arm[-1], ast.Assign) and len(arm[-1].targets) == 1 \
                        and isinstance(arm[-1].targets[0], ast.Name):
                    plan.append('bind')
                else:
                    ok = False
            if not ok:
                continue
            for arm, what in zip(arms, plan):
                if what == 'default':
                    arm.append(copy.deepcopy(dflt))
                elif what == 'bind':
                    val = arm[-1].value
                    b = copy.deepcopy(s2.body[0])
                    b = _Subst(lambda n: isinstance(n, ast.Name) and n.id == sen and isinstance(n.ctx, ast.Load), lambda n, val=val: copy.deepcopy(val)).visit(b)
                    b = Star().visit(b)
                    arm[-1] = b
            del blk[j]
            del blk[j - 1]
            del blk[k0]
            ast.fix_missing_locations(fn)
            return True
    return False


def _n89(fn, counter):
    """N89 a counting while loop over a sequence: `i = 0; while i < len(XS): BODY; i += 1` (BODY reads XS[i], never continues, does
    not touch i or XS otherwise; i not read after the loop) -> `for i, e in enumerate(XS): BODY[XS[i] := e]`"""
    for holder, fld, blk in list(_blocks(fn)):
        for j in range(1, len(blk)):
            w, init = blk[j], blk[j - 1]
            if not (isinstance(w, ast.While) and not w.orelse and isinstance(w.test, ast.Compare) and len(w.test.ops) == 1
                    and isinstance(w.test.ops[0], ast.Lt) and isinstance(w.test.left, ast.Name)
                    and isinstance(w.test.comparators[0], ast.Call) and isinstance(w.test.comparators[0].func, ast.Name)
                    and w.test.comparators[0].func.id == 'len' and len(w.test.comparators[0].args) == 1 and _is_chain(w.test.comparators[0].args[0])):
                continue
            i = w.test.left.id
            xs = w.test.comparators[0].args[0]
            xt = ast.unparse(xs)
            if not (isinstance(init, ast.Assign) and len(init.targets) == 1 and isinstance(init.targets[0], ast.Name) and init.targets[0].id == i
                    and isinstance(init.value, ast.Constant) and init.value.value == 0):
                continue
            if not (w.body and isinstance(w.body[-1], ast.AugAssign) and isinstance(w.body[-1].target, ast.Name) and w.body[-1].target.id == i
                    and isinstance(w.body[-1].op, ast.Add) and isinstance(w.body[-1].value, ast.Constant) and w.body[-1].value.value == 1):
                continue
            body = w.body[:-1]
            if any(isinstance(n, ast.Continue) for x in body for n in ast.walk(x)):
                continue
            if any(isinstance(n, ast.Name) and n.id == i and not isinstance(n.ctx, ast.Load) for x in body for n in ast.walk(x)):
                continue
            after = [n for x in blk[j + 1:] for n in ast.walk(x) if isinstance(n, ast.Name) and n.id == i]
            if after:
                continue
            # XS is only read, and only as XS[i] / len(XS)
            bad = False
            for x in body:
                for n in ast.walk(x):
                    if isinstance(n, ast.Call) and isinstance(n.func, ast.Attribute) and ast.unparse(n.func.value) == xt:
                        bad = True
                    if isinstance(n, ast.Subscript) and ast.unparse(n.value) == xt and not isinstance(n.ctx, ast.Load):
                        bad = True
            if bad:
                continue
            counter[0] += 1
            e = '_elem%d' % counter[0]
            for x in body:
                _Subst(lambda n: isinstance(n, ast.Subscript) and isinstance(n.ctx, ast.Load) and ast.unparse(n.value) == xt
                       and isinstance(n.slice, ast.Name) and n.slice.id == i, lambda n, e=e: ast.Name(e, ast.Load())).visit(x)
            loop = ast.For(ast.Tuple([ast.Name(i, ast.Store()), ast.Name(e, ast.Store())], ast.Store()),
                           ast.Call(ast.Name('enumerate', ast.Load()), [xs], []), body or [ast.Pass()], [], None)
            ast.copy_location(loop, w)
            ast.fix_missing_locations(loop)
            blk[j - 1:j + 1] = [loop]
            return True
    return False


def _n99(tree):
    """N99 one three-valued map for two sets: a recursive function with a parameter D that is only ever asked `K in D`, read as `D[K]`,
    written `D[K] = False` / `D[K] = True` (one K throughout), handed on to itself, and started with `dict()` / `{}` by its callers -
    absent / False / True are the three colours of a depth-first walk.  D is the pair (OPEN, DONE) of sets: `D[K] = False` (K not in D:
    the store follows an `if K in D:` that leaves) is `OPEN.add(K)`; `D[K] = True` is `OPEN.discard(K); DONE.add(K)`; `D[K]` is
    `K in DONE`; `if K in D: if D[K]: S(leaving); REST` is `if K in DONE: S` + `if K in OPEN: REST`; any other `K in D` is
    `K in OPEN or K in DONE`.  Anything else that touches D: the function is left as it is."""
    funcs = [(n, h) for h in ast.walk(tree) if isinstance(h, (ast.Module, ast.ClassDef)) for n in h.body if isinstance(n, ast.FunctionDef)]
    for g, holder in funcs:
        params = [a.arg for a in g.args.args]
        if g.args.defaults or g.args.vararg or g.args.kwarg or g.args.kwonlyargs or g.decorator_list:
            continue
        meth = isinstance(holder, ast.ClassDef)
        names = {g.name}
        if meth and g.name.startswith('__') and not g.name.endswith('__'):
            names.add('_%s%s' % (holder.name.lstrip('_'), g.name))

        def is_self_call(c):
            return isinstance(c, ast.Call) and ((isinstance(c.func, ast.Attribute) and c.func.attr in names) or (
                isinstance(c.func, ast.Name) and c.func.id in names))
        for pi, D in enumerate(params):
            if pi < (2 if meth else 1):
                continue
            uses = [n for n in ast.walk(g) if isinstance(n, ast.Name) and n.id == D]
            if not uses:
                continue
            parent = {}
            for n in ast.walk(g):
                for ch in ast.iter_child_nodes(n):
                    parent[id(ch)] = n
            keys = set()
            ok = True
            stores_f, stores_t, tests, reads, passes, gets = [], [], [], [], [], []
            ai = pi - (1 if meth else 0)        # position among the call's arguments
            for u in uses:
                par = parent.get(id(u))
                if isinstance(par, ast.Compare) and len(par.ops) == 1 and isinstance(par.ops[0], (ast.In, ast.NotIn)) and par.comparators[0] is u:
                    keys.add(ast.unparse(par.left))
                    tests.append(par)
                elif isinstance(par, ast.Subscript) and par.value is u:
                    keys.add(ast.unparse(par.slice))
                    if isinstance(par.ctx, ast.Load):
                        reads.append(par)
                    else:
                        st = parent.get(id(par))
                        if isinstance(st, ast.Assign) and len(st.targets) == 1 and st.targets[0] is par and isinstance(st.value, ast.Constant) \
                                and st.value.value in (True, False) and isinstance(st.value.value, bool):
                            (stores_t if st.value.value else stores_f).append(st)
                        else:
                            ok = False
                elif is_self_call(par) and not par.keywords and ai < len(par.args) and par.args[ai] is u:
                    passes.append(par)
                elif isinstance(par, ast.Attribute) and par.attr == 'get' and isinstance(parent.get(id(par)), ast.Call) \
                        and len(parent[id(par)].args) == 1 and not parent[id(par)].keywords \
                        and isinstance(parent.get(id(parent[id(par)])), ast.Assign) and len(parent[id(parent[id(par)])].targets) == 1 \
                        and isinstance(parent[id(parent[id(par)])].targets[0], ast.Name):
                    keys.add(ast.unparse(parent[id(par)].args[0]))
                    gets.append(parent[id(parent[id(par)])])
                else:
                    ok = False
            if not ok or len(keys) != 1 or not stores_f or not stores_t or not passes or len(gets) > 1:
                continue
            K = next(iter(keys))
            # the colour looked up once: `v = D.get(K); if v: S(leaving); if v is not None: REST(leaving)` -> the two membership tests
            if gets:
                ga = gets[0]
                v = ga.targets[0].id
                done_get = False
                for holder_, fld, blk in list(_blocks(g)):
                    if ga in blk:
                        i = blk.index(ga)
                        nx, nx2 = (blk[i + 1] if i + 1 < len(blk) else None), (blk[i + 2] if i + 2 < len(blk) else None)
                        vuses = [n for n in ast.walk(g) if isinstance(n, ast.Name) and n.id == v]
                        if isinstance(nx, ast.If) and not nx.orelse and isinstance(nx.test, ast.Name) and nx.test.id == v and nx.body \
                                and isinstance(nx.body[-1], (ast.Return, ast.Raise)) and isinstance(nx2, ast.If) and not nx2.orelse \
                                and isinstance(nx2.test, ast.Compare) and len(nx2.test.ops) == 1 and isinstance(nx2.test.ops[0], ast.IsNot) \
                                and isinstance(nx2.test.left, ast.Name) and nx2.test.left.id == v and isinstance(nx2.test.comparators[0], ast.Constant) \
                                and nx2.test.comparators[0].value is None and nx2.body and isinstance(nx2.body[-1], (ast.Return, ast.Raise)) \
                                and len(vuses) == 3:
                            kd = ast.parse('%s in %s' % (K, D), mode='eval').body
                            rd = ast.parse('%s[%s]' % (D, K), mode='eval').body
                            inner = ast.If(rd, nx.body, [])
                            outer = ast.If(kd, [inner] + nx2.body, [])
                            ast.copy_location(inner, nx)
                            ast.copy_location(outer, nx)
                            ast.fix_missing_locations(outer)
                            blk[i:i + 3] = [outer]
                            tests.append(kd)
                            reads.append(rd)
                            done_get = True
                        break
                if not done_get:
                    continue
            # every store of False follows, in its block, an `if K in D:` that leaves
            blocks = list(_blocks(g))

            def guarded_entry(st):
                for holder_, fld, blk in blocks:
                    if st in blk:
                        for prev in blk[:blk.index(st)]:
                            if isinstance(prev, ast.If) and not prev.orelse and isinstance(prev.test, ast.Compare) and prev.test in tests \
                                    and isinstance(prev.test.ops[0], ast.In) and prev.body and isinstance(prev.body[-1], (ast.Return, ast.Raise)):
                                return True
                return False
            if not all(guarded_entry(st) for st in stores_f):
                continue
            # callers: every other reference to the function is a call that starts D with an empty dict
            outer_calls = []
            bad = False
            for n in ast.walk(tree):
                if is_self_call(n) and not any(n is c for c in passes):
                    if n.keywords or ai >= len(n.args):
                        bad = True
                        break
                    a = n.args[ai]
                    if (isinstance(a, ast.Dict) and not a.keys) or (isinstance(a, ast.Call) and isinstance(a.func, ast.Name) and a.func.id == 'dict'
                                                                    and not a.args and not a.keywords):
                        outer_calls.append(n)
                    else:
                        bad = True
                        break
            if bad or not outer_calls:
                continue
            OPEN, DONE = D + '_open', D + '_done'
            if any(isinstance(n, ast.Name) and n.id in (OPEN, DONE) for n in ast.walk(g)):
                continue

            def key():
                return ast.parse(K, mode='eval').body

            def member(setname):
                return ast.Compare(key(), [ast.In()], [ast.Name(setname, ast.Load())])

            def call(setname, meth_):
                return ast.Expr(ast.Call(ast.Attribute(ast.Name(setname, ast.Load()), meth_, ast.Load()), [key()], []))
            # statements
            for holder_, fld, blk in blocks:
                i = 0
                while i < len(blk):
                    st = blk[i]
                    if st in stores_f:
                        blk[i] = ast.copy_location(call(OPEN, 'add'), st)
                    elif st in stores_t:
                        blk[i:i + 1] = [ast.copy_location(call(OPEN, 'discard'), st), ast.copy_location(call(DONE, 'add'), st)]
                        i += 1
                    elif isinstance(st, ast.If) and not st.orelse and st.test in tests and isinstance(st.test.ops[0], ast.In) and st.body \
                            and isinstance(st.body[0], ast.If) and not st.body[0].orelse and st.body[0].test in reads \
                            and isinstance(st.body[0].body[-1], (ast.Return, ast.Raise, ast.Continue)):
                        first = ast.copy_location(ast.If(member(DONE), st.body[0].body, []), st.body[0])
                        second = ast.copy_location(ast.If(member(OPEN), st.body[1:] or [ast.Pass()], []), st)
                        tests.remove(st.test)
                        reads.remove(st.body[0].test)
                        blk[i:i + 1] = [first, second]
                        i += 1
                    i += 1
            # remaining expressions
            class T(ast.NodeTransformer):
                def visit_Compare(self, n):
                    self.generic_visit(n)
                    if n in tests:
                        e = ast.BoolOp(ast.Or(), [member(OPEN), member(DONE)])
                        if isinstance(n.ops[0], ast.NotIn):
                            e = ast.UnaryOp(ast.Not(), e)
                        return ast.copy_location(e, n)
                    return n

                def visit_Subscript(self, n):
                    self.generic_visit(n)
                    if n in reads:
                        return ast.copy_location(member(DONE), n)
                    return n
            g.body = [T().visit(x) for x in g.body]
            for c in passes:
                c.args[ai:ai + 1] = [ast.Name(OPEN, ast.Load()), ast.Name(DONE, ast.Load())]
            for c in outer_calls:
                c.args[ai:ai + 1] = [ast.Call(ast.Name('set', ast.Load()), [], []), ast.Call(ast.Name('set', ast.Load()), [], [])]
            ann = ast.parse('Set[int]', mode='eval').body
            g.args.args[pi:pi + 1] = [ast.arg(OPEN, copy.deepcopy(ann)), ast.arg(DONE, copy.deepcopy(ann))]
            ast.fix_missing_locations(tree)
            break
    return tree


def pre_normalize(tree: ast.Module) -> ast.Module:
    tree = _n99(tree)
    tree = _n71(tree)
    tree = _n77(tree)
    tree = _n84(tree)
    tree = _n75(tree)
    tree = _n39(tree)
    tree = _n47(tree)
    tree = _n65(tree)
    tree = _n53(tree)
    _n42(tree)
    counter = [0]
    for holder in ast.walk(tree):
        if isinstance(holder, (ast.Module, ast.ClassDef, ast.FunctionDef)):
            for fn in [n for n in holder.body if isinstance(n, ast.FunctionDef)]:
                _n62(fn, isinstance(holder, ast.ClassDef) and not any(isinstance(d, ast.Name) and d.id == 'staticmethod' for d in fn.decorator_list),
                     counter)
    for fn in [n for n in ast.walk(tree) if isinstance(n, (ast.FunctionDef, ast.AsyncFunctionDef))]:
        _n98(fn)
        _n95(fn)
        _n83(fn)
        _n94(fn, counter)
        _n93(fn)
        _n92(fn)
        _n89(fn, counter)
        _n87(fn)
        _n88(fn)
        _n97(fn, counter)
        _n86(fn)
        _n85(fn, counter)
        _n68(fn)
        _n70(fn, counter)
        _n72(fn)
        _n73(fn)
        _n76(fn)
        _n78(fn)
        _n81(fn)
        _n64(fn)
        _n63(fn)
        _n67(fn)
        _n60(fn)
        _n49(fn)
        _n50(fn)
        _n51(fn, counter)
        _n52(fn)
        _n59(fn, counter)
        _n48(fn, counter)
        _n46(fn)
        _n41(fn)
        _n43(fn)
        _n40(fn)
        _n36(fn, counter)
        _n37(fn)
        _n38(fn)
        _n56(fn)
    ast.fix_missing_locations(tree)
    return tree
