"""Step T of the canonical decomposition: named tuples are tuples.

A yatiml-internal record type declared as `class SubObject(NamedTuple): name: str; type_: Type; required: bool` (or through
`namedtuple('SubObject', ...)`) whose instances are only ever built positionally/by keyword and read field by field is the tuple
the pinned code passes around, with names for the positions.  The rules address the elements of such tuples by position (the
loop target `for name, type_, required in class_subobjects(..)`), so before anything else

  * `SubObject(a, b, c)` / `SubObject(name=a, type_=b, required=c)`  ->  `(a, b, c)`
  * `for sub in producer(..): ... sub.name ... sub.required ...`      ->  `for (sub_name, sub_type_, sub_required) in producer(..): ... sub_name ...`
    (loops and comprehension clauses; `producer` is a function whose return annotation has the record as element type; the loop
    variable must be used for nothing but field reads / constant subscripts in the enclosing function)

Anything else (the record escaping into a call, methods on the record class, a partially read loop variable) leaves the code as
it is: the rules then see what is written.
"""
import ast
import copy
from typing import Dict, List, Optional, Tuple


def _record_classes(trees: Dict[str, ast.Module]) -> Dict[str, List[Tuple[str, Optional[ast.AST]]]]:
    out: Dict[str, List[Tuple[str, Optional[ast.AST]]]] = {}
    for mod, tree in trees.items():
        for st in tree.body:
            if isinstance(st, ast.ClassDef) and any((isinstance(b, ast.Name) and b.id == 'NamedTuple')
                                                    or (isinstance(b, ast.Attribute) and b.attr == 'NamedTuple') for b in st.bases):
                fields = []
                ok = True
                for x in st.body:
                    if isinstance(x, ast.Expr) and isinstance(x.value, ast.Constant) and isinstance(x.value.value, str):
                        continue
                    if isinstance(x, ast.AnnAssign) and isinstance(x.target, ast.Name):
                        fields.append((x.target.id, x.value))
                        continue
                    if isinstance(x, ast.Pass):
                        continue
                    ok = False
                if ok and fields:
                    out[st.name] = fields
            elif isinstance(st, ast.Assign) and len(st.targets) == 1 and isinstance(st.targets[0], ast.Name) \
                    and isinstance(st.value, ast.Call) and len(st.value.args) == 2 and not st.value.keywords:
                f = st.value.func
                nm = f.id if isinstance(f, ast.Name) else f.attr if isinstance(f, ast.Attribute) else None
                if nm not in ('namedtuple', 'NamedTuple'):
                    continue
                spec = st.value.args[1]
                names: List[str] = []
                if isinstance(spec, ast.Constant) and isinstance(spec.value, str):
                    names = spec.value.replace(',', ' ').split()
                elif isinstance(spec, (ast.List, ast.Tuple)):
                    for e in spec.elts:
                        if isinstance(e, ast.Constant) and isinstance(e.value, str):
                            names.append(e.value)
                        elif isinstance(e, ast.Tuple) and e.elts and isinstance(e.elts[0], ast.Constant):
                            names.append(e.elts[0].value)
                        else:
                            names = []
                            break
                if names:
                    out[st.targets[0].id] = [(n, None) for n in names]
    return out


def _mentions(ann: Optional[ast.AST], cls: str) -> bool:
    if ann is None:
        return False
    if isinstance(ann, ast.Constant) and isinstance(ann.value, str):
        return cls in ann.value
    return any(isinstance(n, ast.Name) and n.id == cls for n in ast.walk(ann))


def erase_named_tuples(trees: Dict[str, ast.Module]) -> Dict[str, List[str]]:
    logs: Dict[str, List[str]] = {}
    records = _record_classes(trees)
    if not records:
        return logs
    # producers: functions whose return annotation has the record as element type (not the record itself)
    producers: Dict[str, str] = {}
    single: Dict[str, str] = {}         # functions that return one record
    for mod, tree in trees.items():
        for fn in ast.walk(tree):
            if isinstance(fn, ast.FunctionDef):
                for cls in records:
                    if isinstance(fn.returns, ast.Name) and fn.returns.id == cls:
                        single[fn.name] = cls
                    elif _mentions(fn.returns, cls):
                        producers[fn.name] = cls
    for mod, tree in trees.items():
        log = logs.setdefault(mod, [])
        # constructions
        built = [0]

        class _Build(ast.NodeTransformer):
            def visit_Call(self, c: ast.Call):
                self.generic_visit(c)
                f = c.func
                nm = f.id if isinstance(f, ast.Name) else f.attr if isinstance(f, ast.Attribute) else None
                if nm in records and not any(isinstance(a, ast.Starred) for a in c.args) and all(k.arg for k in c.keywords):
                    fields = records[nm]
                    vals: List[Optional[ast.AST]] = list(c.args) + [None] * (len(fields) - len(c.args))
                    if len(c.args) > len(fields):
                        return c
                    kw = {k.arg: k.value for k in c.keywords}
                    for i, (fname, dflt) in enumerate(fields):
                        if vals[i] is None:
                            vals[i] = kw.pop(fname, None) or (copy.deepcopy(dflt) if dflt is not None else None)
                    if kw or any(v is None for v in vals):
                        return c
                    built[0] += 1
                    return ast.copy_location(ast.Tuple(vals, ast.Load()), c)
                return c
        _Build().visit(tree)
        if built[0]:
            log.append('%s: %d construction(s) of a named tuple written as the plain tuple' % (mod, built[0]))

        # consumers
        def is_producer_call(e) -> Optional[str]:
            if isinstance(e, ast.Call):
                f = e.func
                nm = f.id if isinstance(f, ast.Name) else f.attr if isinstance(f, ast.Attribute) else None
                if nm in producers:
                    return producers[nm]
            return None

        def is_single_call(e) -> Optional[str]:
            if isinstance(e, ast.Call):
                f = e.func
                nm = f.id if isinstance(f, ast.Name) else f.attr if isinstance(f, ast.Attribute) else None
                if nm in single:
                    return single[nm]
            return None

        scopes = [n for n in ast.walk(tree) if isinstance(n, (ast.FunctionDef, ast.AsyncFunctionDef))]
        done = 0
        for fn in scopes:
            # loop variables over producers in this function (nested functions are their own scope but share names: keep it simple
            # and treat the outermost function's whole subtree)
            cands: Dict[str, str] = {}
            for n in ast.walk(fn):
                if isinstance(n, ast.For) and isinstance(n.target, ast.Name) and is_producer_call(n.iter):
                    cands[n.target.id] = is_producer_call(n.iter)
                elif isinstance(n, ast.Assign) and len(n.targets) == 1 and isinstance(n.targets[0], ast.Name) and is_single_call(n.value):
                    cands[n.targets[0].id] = is_single_call(n.value)
                elif isinstance(n, ast.comprehension) and isinstance(n.target, ast.Name) and is_producer_call(n.iter):
                    cands[n.target.id] = is_producer_call(n.iter)
            for v, cls in cands.items():
                fields = [f for f, _ in records[cls]]
                targets, reads, other = [], [], 0
                parent_of = {}
                for p in ast.walk(fn):
                    for ch in ast.iter_child_nodes(p):
                        parent_of[id(ch)] = p
                for n in ast.walk(fn):
                    if isinstance(n, ast.Name) and n.id == v:
                        p = parent_of.get(id(n))
                        if isinstance(p, (ast.For, ast.comprehension)) and p.target is n and is_producer_call(p.iter) == cls:
                            targets.append(p)
                        elif isinstance(p, ast.Assign) and len(p.targets) == 1 and p.targets[0] is n and is_single_call(p.value) == cls:
                            targets.append(p)
                        elif isinstance(p, ast.Attribute) and p.value is n and p.attr in fields and isinstance(p.ctx, ast.Load):
                            reads.append((p, fields.index(p.attr)))
                        elif isinstance(p, ast.Subscript) and p.value is n and isinstance(p.slice, ast.Constant) \
                                and isinstance(p.slice.value, int) and 0 <= p.slice.value < len(fields) and isinstance(p.ctx, ast.Load):
                            reads.append((p, p.slice.value))
                        else:
                            other += 1
                    elif isinstance(n, ast.arg) and n.arg == v:
                        other += 1
                if other or not targets:
                    continue
                taken = {n.id for n in ast.walk(fn) if isinstance(n, ast.Name)} | {a.arg for a in ast.walk(fn) if isinstance(a, ast.arg)}
                names = []
                for f in fields:
                    nm = '%s_%s' % (v, f.strip('_'))
                    while nm in taken:
                        nm += '_'
                    taken.add(nm)
                    names.append(nm)
                for p in targets:
                    tup = ast.Tuple([ast.Name(nm, ast.Store()) for nm in names], ast.Store())
                    if isinstance(p, ast.Assign):
                        p.targets = [ast.copy_location(tup, p.targets[0])]
                    else:
                        p.target = ast.copy_location(tup, p.target)
                for node, ix in reads:
                    par = parent_of[id(node)]
                    new = ast.copy_location(ast.Name(names[ix], ast.Load()), node)
                    for fld, val in ast.iter_fields(par):
                        if val is node:
                            setattr(par, fld, new)
                        elif isinstance(val, list):
                            for i, x in enumerate(val):
                                if x is node:
                                    val[i] = new
                done += len(targets)
        if done:
            log.append('%s: %d loop(s)/binding(s) of named tuples unpack them into their fields again' % (mod, done))
        if built[0] or done:
            ast.fix_missing_locations(tree)
    return {m: l for m, l in logs.items() if l}
