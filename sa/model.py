"""E1 program model: parsed sources of /repo/yatiml and of PyYAML, symbol tables, anchors.

Nothing is imported or executed: files are read as text and parsed with `ast`.
All analyses work on a `Program`, which is built from a *source map* {module name: text}
so that self-tests can analyse in-memory variants.
"""
import ast
import hashlib
import importlib.util
import os
from typing import Dict, List, Optional, Tuple, Iterator

REPO = os.environ.get('YATIML_REPO', '/repo')

YAML_MODULES = ['__init__', 'resolver', 'composer', 'constructor', 'representer', 'serializer',
                'loader', 'dumper', 'nodes', 'events', 'error', 'emitter', 'scanner', 'parser',
                'reader']


class AnalysisError(Exception):
    """The analysis itself cannot proceed (anchor vanished, unsupported construct): exit 2."""


def read_repo_sources(repo: str = REPO) -> Dict[str, str]:
    pkg = os.path.join(repo, 'yatiml')
    if not os.path.isdir(pkg):
        raise AnalysisError('package directory not found: %s' % pkg)
    out = {}
    for fn in sorted(os.listdir(pkg)):
        if fn.endswith('.py'):
            with open(os.path.join(pkg, fn), encoding='utf-8') as f:
                out['yatiml.' + fn[:-3] if fn != '__init__.py' else 'yatiml'] = f.read()
    if not out:
        raise AnalysisError('no sources in %s' % pkg)
    return out


_yaml_cache = None


def read_yaml_sources() -> Dict[str, str]:
    """PyYAML's own sources, located without importing the package."""
    global _yaml_cache
    if _yaml_cache is not None:
        return _yaml_cache
    spec = importlib.util.find_spec('yaml')
    if spec is None or not spec.submodule_search_locations:
        raise AnalysisError('PyYAML sources not found')
    d = list(spec.submodule_search_locations)[0]
    out = {}
    for m in YAML_MODULES:
        p = os.path.join(d, m + '.py')
        if not os.path.exists(p):
            raise AnalysisError('PyYAML module missing: %s' % p)
        with open(p, encoding='utf-8') as f:
            out['yaml' if m == '__init__' else 'yaml.' + m] = f.read()
    _yaml_cache = out
    return out


class FunctionInfo:
    def __init__(self, module: 'ModuleInfo', node: ast.AST, qual: str, cls: Optional['ClassInfo'],
                 parent: Optional['FunctionInfo']):
        self.module = module
        self.node = node
        self.qual = qual              # e.g. 'Loader.__process_node' or 'load_function.LoadFunction.__call__'
        self.cls = cls
        self.parent = parent
        self.name = node.name
        self._cfg = None

    @property
    def key(self) -> str:
        return '%s:%s' % (self.module.name, self.qual)

    @property
    def params(self) -> List[str]:
        a = self.node.args
        return [x.arg for x in a.posonlyargs + a.args] + ([a.vararg.arg] if a.vararg else []) + \
            [x.arg for x in a.kwonlyargs] + ([a.kwarg.arg] if a.kwarg else [])

    def param_annotation(self, name: str) -> Optional[ast.AST]:
        a = self.node.args
        for x in a.posonlyargs + a.args + a.kwonlyargs + [y for y in (a.vararg, a.kwarg) if y]:
            if x.arg == name:
                return x.annotation
        return None

    def docstring(self) -> str:
        return ast.get_docstring(self.node) or ''

    def cfg(self):
        if self._cfg is None:
            from . import cfg as _cfg
            self._cfg = _cfg.build_cfg(self)
        return self._cfg

    def loc(self, node: Optional[ast.AST] = None) -> str:
        n = node if node is not None else self.node
        return '%s:%d' % (self.module.path, getattr(n, 'lineno', 0))

    def __repr__(self):
        return '<fn %s>' % self.key


class ClassInfo:
    def __init__(self, module: 'ModuleInfo', node: ast.ClassDef, qual: str, parent_func):
        self.module = module
        self.node = node
        self.qual = qual
        self.name = node.name
        self.parent_func = parent_func
        self.methods: Dict[str, FunctionInfo] = {}
        self.class_attrs: Dict[str, ast.AST] = {}
        self.base_exprs = list(node.bases)

    @property
    def key(self) -> str:
        return '%s:%s' % (self.module.name, self.qual)

    def __repr__(self):
        return '<class %s>' % self.key


_YAML_SOURCE_CACHE: Dict[str, str] = {}


class ModuleInfo:
    def __init__(self, name: str, text: str, path: str, tree: Optional[ast.Module] = None, log: Optional[List[str]] = None,
                 ext: Optional[Dict[str, ast.AST]] = None):
        self.name = name
        self.text = text
        self.path = path
        restored = tree is not None
        try:
            self.tree = tree if tree is not None else ast.parse(text)
        except SyntaxError as e:
            raise AnalysisError('cannot parse %s: %s' % (path, e))
        self.decomposition_log: List[str] = list(log or [])
        if name == 'yatiml' or name.startswith('yatiml.'):
            from .normalize import normalize
            from .inline import canonical_decomposition
            self._tree_id = id(self.tree)
            # a failure of the canonicalisation itself must not take the check down: the step is skipped and says so
            if not os.environ.get('SA_NO_INLINE'):
                try:
                    self.decomposition_log += canonical_decomposition(self.tree, name, restored=restored)
                except Exception as e:                  # pragma: no cover
                    self.decomposition_log.append('%s: canonical decomposition skipped (%r)' % (name, e))
                    self.tree = ast.parse(text)
            try:
                # step L: hand-written copies of small PyYAML entry points (after inlining: the copy may live in a helper)
                from .libfold import fold_library_idioms
                ys_ = _YAML_SOURCE_CACHE.get('yaml')
                if ys_ is None:
                    ys_ = _YAML_SOURCE_CACHE.setdefault('yaml', read_yaml_sources().get('yaml', ''))
                self.decomposition_log += fold_library_idioms(self.tree, ys_)
            except Exception as e:                      # pragma: no cover
                self.decomposition_log.append('%s: step L skipped (%r)' % (name, e))
            try:
                self.tree = normalize(self.tree, ext)
            except Exception as e:                      # pragma: no cover
                self.decomposition_log.append('%s: normalisation skipped (%r)' % (name, e))
                self.tree = ast.parse(text)
            else:
                try:
                    from .inline import restore_state_parameters
                    self.decomposition_log += restore_state_parameters(self.tree, name)
                except Exception as e:                  # pragma: no cover
                    self.decomposition_log.append('%s: step P (state parameters) skipped (%r)' % (name, e))
        self.sha256 = hashlib.sha256(text.encode()).hexdigest()
        self.imports: Dict[str, str] = {}     # local name -> dotted target
        self.star_imports: List[str] = []
        self.functions: Dict[str, FunctionInfo] = {}
        self.classes: Dict[str, ClassInfo] = {}
        self.constants: Dict[str, ast.AST] = {}   # module-level NAME = expr
        self._index()
        if name == 'yatiml' or name.startswith('yatiml.'):
            from .inline import ALIASES
            for old, new in ALIASES.pop(self._tree_id, {}).items():
                if new in self.functions and old not in self.functions:
                    self.functions[old] = self.functions[new]

    def _index(self):
        for n in ast.walk(self.tree):
            for c in ast.iter_child_nodes(n):
                c._parent = n
        self.tree._parent = None
        for st in ast.walk(self.tree):
            if isinstance(st, ast.Import):
                for a in st.names:
                    self.imports[a.asname or a.name.split('.')[0]] = a.name if a.asname else a.name.split('.')[0]
            elif isinstance(st, ast.ImportFrom):
                mod = st.module or ''
                if st.level:
                    base = self.name.split('.')
                    # package-relative import
                    if self.name in ('yaml', 'yatiml'):
                        pkg = base
                    else:
                        pkg = base[:-1]
                    pkg = pkg[:len(pkg) - (st.level - 1)] if st.level > 1 else pkg
                    mod = '.'.join(pkg + ([mod] if mod else []))
                for a in st.names:
                    if a.name == '*':
                        self.star_imports.append(mod)
                    else:
                        self.imports[a.asname or a.name] = mod + '.' + a.name
        for st in self.tree.body:
            if isinstance(st, ast.Assign) and len(st.targets) == 1 and isinstance(st.targets[0], ast.Name):
                self.constants[st.targets[0].id] = st.value
            elif isinstance(st, ast.AnnAssign) and isinstance(st.target, ast.Name) and st.value is not None:
                self.constants[st.target.id] = st.value
        self._index_body(self.tree.body, '', None, None)

    def _index_body(self, body, prefix, cls, func):
        for st in body:
            if isinstance(st, (ast.FunctionDef, ast.AsyncFunctionDef)):
                q = prefix + st.name
                # overloads: keep the last definition (the implementation)
                fi = FunctionInfo(self, st, q, cls, func)
                self.functions[q] = fi
                if cls is not None:
                    cls.methods[st.name] = fi
                self._index_body(st.body, q + '.', None, fi)
            elif isinstance(st, ast.ClassDef):
                q = prefix + st.name
                ci = ClassInfo(self, st, q, func)
                self.classes[q] = ci
                for s2 in st.body:
                    if isinstance(s2, ast.Assign):
                        for t in s2.targets:
                            if isinstance(t, ast.Name):
                                ci.class_attrs[t.id] = s2.value
                    elif isinstance(s2, ast.AnnAssign) and isinstance(s2.target, ast.Name) \
                            and s2.value is not None:
                        ci.class_attrs[s2.target.id] = s2.value
                self._index_body(st.body, q + '.', ci, func)
            elif isinstance(st, (ast.If, ast.Try, ast.With, ast.For, ast.While)):
                # conditional definitions (TYPE_CHECKING etc.)
                for fld in ('body', 'orelse', 'finalbody'):
                    self._index_body(getattr(st, fld, []) or [], prefix, cls, func)
                for h in getattr(st, 'handlers', []) or []:
                    self._index_body(h.body, prefix, cls, func)


def _imported_constants(sources: Dict[str, str]) -> Dict[str, Dict[str, ast.AST]]:
    """per yatiml module: local name -> value, for the names it imports from other yatiml modules that are constants there
    (literals, and dict displays that no yatiml module modifies).  Two rounds, so that a constant defined from an imported
    constant can itself be imported."""
    from .normalize import module_exports, _table_modified
    parsed: Dict[str, ast.Module] = {}
    for name, text in sources.items():
        try:
            parsed[name] = ast.parse(text)
        except SyntaxError:
            continue
    imports: Dict[str, Dict[str, Tuple[str, str]]] = {}
    for name, tree in parsed.items():
        imp: Dict[str, Tuple[str, str]] = {}
        for st in ast.walk(tree):
            if isinstance(st, ast.ImportFrom) and not any(a.name == '*' for a in st.names):
                mod = st.module or ''
                if st.level:
                    base = name.split('.')
                    pkg = base if name == 'yatiml' else base[:-1]
                    pkg = pkg[:len(pkg) - (st.level - 1)] if st.level > 1 else pkg
                    mod = '.'.join(pkg + ([mod] if mod else []))
                if mod in parsed:
                    for a in st.names:
                        imp[a.asname or a.name] = (mod, a.name)
        imports[name] = imp
    exts: Dict[str, Dict[str, ast.AST]] = {name: {} for name in parsed}
    for _ in range(2):
        exports = {}
        for name, tree in parsed.items():
            try:
                exports[name] = module_exports(tree, exts[name])
            except Exception:               # pragma: no cover
                exports[name] = {}
        for name in parsed:
            ext = {}
            for local, (mod, orig) in imports[name].items():
                v = exports.get(mod, {}).get(orig)
                if v is None:
                    continue
                # across modules only immutable values travel: scalars and tuples of scalars (REC_OK = ('', []) stays a name)
                if not isinstance(v, ast.Dict) and not (isinstance(v, ast.Constant) or (
                        isinstance(v, ast.Tuple) and all(isinstance(x, ast.Constant) for x in v.elts))):
                    continue
                if isinstance(v, ast.Dict) and any(_table_modified(t, orig) or (local != orig and _table_modified(t, local))
                                                   for t in parsed.values()):
                    continue
                ext[local] = v
            exts[name] = ext
    return exts


class Program:
    def __init__(self, sources: Dict[str, str], yaml_sources: Optional[Dict[str, str]] = None,
                 repo: str = REPO):
        self.repo = repo
        self.modules: Dict[str, ModuleInfo] = {}
        trees: Dict[str, ast.Module] = {}
        logs: Dict[str, List[str]] = {}
        exts = _imported_constants(sources)
        if not os.environ.get('SA_NO_INLINE'):
            # canonical decomposition, program level: renamed functions first (per module), then functions that moved to another module
            from . import inline
            for name, text in sources.items():
                rel = name.replace('.', '/') + ('.py' if name != 'yatiml' else '/__init__.py')
                try:
                    trees[name] = ast.parse(text)
                except SyntaxError as e:
                    raise AnalysisError('cannot parse %s: %s' % (rel, e))
            # step T: named tuples are tuples (constructions become displays, loops over them unpack the fields)
            try:
                from .namedtuples import erase_named_tuples
                for name, extra in erase_named_tuples(trees).items():
                    logs[name] = logs.get(name, []) + extra
            except Exception as e:                      # pragma: no cover
                logs.setdefault('yatiml', []).append('step T skipped (%r)' % (e,))
                trees = {name: ast.parse(text) for name, text in sources.items()}
            # step M: memo cells are analysed on the raw trees (E14) and then eliminated - the program is read as if every lookup missed
            self.memo = None
            try:
                from . import memo as _memo
                mlogs, self.memo = _memo.eliminate(trees, sources)
                for name, extra in mlogs.items():
                    logs[name] = logs.get(name, []) + extra
            except Exception as e:                      # pragma: no cover
                logs.setdefault('yatiml', []).append('memo elimination skipped (%r)' % (e,))
                trees = {name: ast.parse(text) for name, text in sources.items()}
            for name, text in sources.items():
                inline.PROTECTED[id(trees[name])] = set()
                try:
                    # step K: constants (own and imported from other yatiml modules) are folded before anything is compared
                    from .normalize import propagate_module_constants, strip_casts
                    trees[name] = propagate_module_constants(strip_casts(trees[name]), exts.get(name))
                except Exception:                       # pragma: no cover
                    trees[name] = ast.parse(text)
                    inline.PROTECTED[id(trees[name])] = set()
                try:
                    logs[name] = logs.get(name, []) + inline.restore_renamed(trees[name], name)
                    logs[name] += inline.restore_renamed_attributes(trees[name], name)
                    logs[name] += inline.restore_private_properties(trees[name], name)
                    logs[name] += inline.restore_instance_methods(trees[name], name)
                    logs[name] += inline.restore_projected_parameters(trees[name], name)
                    logs[name] += inline.restore_parameter_order(trees[name], name)
                    logs[name] += inline.restore_state_parameters(trees[name], name)
                except Exception as e:                  # pragma: no cover
                    trees[name] = ast.parse(text)
                    inline.PROTECTED[id(trees[name])] = set()
                    logs[name] = ['%s: restoring renamed functions skipped (%r)' % (name, e)]
            try:
                for name, extra in inline.restore_cross_module(trees).items():
                    logs[name] = logs.get(name, []) + extra
            except Exception as e:                      # pragma: no cover
                logs.setdefault('yatiml', []).append('restoring moved functions skipped (%r)' % (e,))
            try:
                inline.collect_external_helpers(trees)
            except Exception as e:                      # pragma: no cover
                inline.EXTERNAL.clear()
            for name in trees:
                try:
                    logs[name] = logs.get(name, []) + inline.restore_inlined(trees[name], name)
                except Exception as e:                  # pragma: no cover
                    logs[name] = logs.get(name, []) + ['%s: folding inlined functions back skipped (%r)' % (name, e)]
        for name, text in sources.items():
            rel = name.replace('.', '/') + ('.py' if name != 'yatiml' else '/__init__.py')
            self.modules[name] = ModuleInfo(name, text, rel, trees.get(name), logs.get(name), exts.get(name))
        ys = yaml_sources if yaml_sources is not None else read_yaml_sources()
        for name, text in ys.items():
            rel = 'site-packages/' + name.replace('.', '/') + ('.py' if name != 'yaml' else '/__init__.py')
            self.modules[name] = ModuleInfo(name, text, rel)
        self._mro_cache: Dict[str, List[ClassInfo]] = {}

    # ---- lookup ------------------------------------------------------------------------------
    def module(self, name: str) -> ModuleInfo:
        if name not in self.modules:
            raise AnalysisError('anchor missing: module %s' % name)
        return self.modules[name]

    def func(self, key: str) -> FunctionInfo:
        mod, q = key.split(':')
        m = self.module(mod)
        if q not in m.functions:
            raise AnalysisError('anchor missing: function %s' % key)
        return m.functions[q]

    def has_func(self, key: str) -> bool:
        mod, q = key.split(':')
        return mod in self.modules and q in self.modules[mod].functions

    def cls(self, key: str) -> ClassInfo:
        mod, q = key.split(':')
        m = self.module(mod)
        if q not in m.classes:
            raise AnalysisError('anchor missing: class %s' % key)
        return m.classes[q]

    def yatiml_modules(self) -> List[ModuleInfo]:
        return [m for n, m in self.modules.items() if n == 'yatiml' or n.startswith('yatiml.')]

    def yatiml_functions(self) -> Iterator[FunctionInfo]:
        for m in self.yatiml_modules():
            for f in m.functions.values():
                yield f

    def digests(self, prefix: str = 'yatiml') -> Dict[str, str]:
        return {m.path: m.sha256 for n, m in sorted(self.modules.items()) if n.startswith(prefix)}

    # ---- name resolution ---------------------------------------------------------------------
    def resolve_dotted(self, dotted: str):
        """dotted path -> ClassInfo | FunctionInfo | ('module', name) | ('external', dotted)"""
        seen = set()
        while True:
            if dotted in seen:
                return ('external', dotted)
            seen.add(dotted)
            if dotted in self.modules:
                return ('module', dotted)
            parts = dotted.split('.')
            # longest module prefix
            for i in range(len(parts) - 1, 0, -1):
                mod = '.'.join(parts[:i])
                if mod in self.modules:
                    m = self.modules[mod]
                    rest = '.'.join(parts[i:])
                    if rest in m.classes:
                        return m.classes[rest]
                    if rest in m.functions:
                        return m.functions[rest]
                    head = parts[i]
                    if head in m.imports:
                        dotted = m.imports[head] + ('.' + '.'.join(parts[i + 1:]) if parts[i + 1:] else '')
                        break
                    if head in m.classes and len(parts) > i + 1:
                        c = m.classes[head]
                        if parts[i + 1] in c.methods and len(parts) == i + 2:
                            return c.methods[parts[i + 1]]
                    star = None
                    for sm in m.star_imports:
                        if sm in self.modules and (head in self.modules[sm].classes
                                                   or head in self.modules[sm].functions
                                                   or head in self.modules[sm].imports):
                            star = sm
                    if star is not None:
                        dotted = star + '.' + '.'.join(parts[i:])
                        break
                    return ('external', dotted)
            else:
                return ('external', dotted)

    def resolve_expr(self, module: ModuleInfo, expr: ast.AST, scope: Optional[FunctionInfo] = None):
        """Resolve a Name/Attribute chain used as a *static reference* (class, function, module)."""
        d = dotted_name(expr)
        if d is None:
            return None
        head, _, rest = d.partition('.')
        # nested (local) classes / functions of enclosing functions
        f = scope
        while f is not None:
            q = f.qual + '.' + head
            if q in module.classes and not rest:
                return module.classes[q]
            if q in module.functions and not rest:
                return module.functions[q]
            f = f.parent
        if head in module.classes:
            c = module.classes[head]
            if not rest:
                return c
            if rest in c.methods:
                return c.methods[rest]
            return None
        if head in module.functions and not rest:
            return module.functions[head]
        if head in module.imports:
            return self.resolve_dotted(module.imports[head] + ('.' + rest if rest else ''))
        for sm in module.star_imports:
            if sm in self.modules:
                r = self.resolve_dotted(sm + '.' + d)
                if not isinstance(r, tuple):
                    return r
        return None

    def mro(self, c: ClassInfo) -> List[ClassInfo]:
        """Linearisation (C3 for the single/multiple inheritance shapes that occur; DFS-merge)."""
        if c.key in self._mro_cache:
            return self._mro_cache[c.key]
        bases = []
        for b in c.base_exprs:
            r = self.resolve_expr(c.module, b, c.parent_func)
            if isinstance(r, ClassInfo):
                bases.append(r)
        seqs = [self.mro(b) for b in bases] + [bases]
        res = [c]
        seqs = [list(s) for s in seqs if s]
        while seqs:
            for s in seqs:
                cand = s[0]
                if not any(cand in t[1:] for t in seqs):
                    break
            else:
                raise AnalysisError('inconsistent MRO for %s' % c.key)
            res.append(cand)
            seqs = [[x for x in s if x is not cand] for s in seqs]
            seqs = [s for s in seqs if s]
        self._mro_cache[c.key] = res
        return res

    def external_bases(self, c: ClassInfo) -> List[str]:
        out = []
        for k in self.mro(c):
            for b in k.base_exprs:
                r = self.resolve_expr(k.module, b, k.parent_func)
                if not isinstance(r, ClassInfo):
                    out.append(dotted_name(b) or ast.unparse(b))
        return out

    def lookup_method(self, c: ClassInfo, name: str) -> Optional[FunctionInfo]:
        for k in self.mro(c):
            if name in k.methods:
                return k.methods[name]
        return None

    def is_subclass(self, c: ClassInfo, base_key: str) -> bool:
        return any(k.key == base_key for k in self.mro(c))


def dotted_name(e: ast.AST) -> Optional[str]:
    parts = []
    while isinstance(e, ast.Attribute):
        parts.append(e.attr)
        e = e.value
    if isinstance(e, ast.Name):
        parts.append(e.id)
        return '.'.join(reversed(parts))
    return None


def parent(n: ast.AST) -> Optional[ast.AST]:
    return getattr(n, '_parent', None)


def ancestors(n: ast.AST) -> Iterator[ast.AST]:
    p = parent(n)
    while p is not None:
        yield p
        p = parent(p)


def enclosing_function_node(n: ast.AST) -> Optional[ast.AST]:
    for a in ancestors(n):
        if isinstance(a, (ast.FunctionDef, ast.AsyncFunctionDef, ast.Lambda)):
            return a
    return None


def walk_function(fn_node: ast.AST, include_nested_defs: bool = False) -> Iterator[ast.AST]:
    """All nodes lexically in the function body, not descending into nested def/class bodies."""
    stack = list(reversed(fn_node.body))
    while stack:
        n = stack.pop()
        yield n
        if not include_nested_defs and isinstance(n, (ast.FunctionDef, ast.AsyncFunctionDef, ast.ClassDef)):
            continue
        stack.extend(reversed(list(ast.iter_child_nodes(n))))


def load_program(repo: str = REPO) -> Program:
    return Program(read_repo_sources(repo), None, repo)
