"""E12 kind-sensitive path analysis of the functions that take "a string, a Path or a stream".

The parameter is given, in turn, each of its documented kinds; the function body is then executed *abstractly*: every value is one of

    ('io', kind)            the caller's object itself
    ('path', v)             Path(v) made here from the caller's string
    ('opened', v, mode)     what `with v.open(mode) as f` binds
    ('other', text)         anything else

isinstance tests on such values are decided by the kind (so each kind selects its own paths; tests the kind does not decide are
explored both ways and reported), and the effects on the outside world are collected in order: files opened, things closed, and
what PyYAML is handed.  A rule then compares, per kind, the effect sequence with the documented one - independent of how the
function spells its branches, whether it re-binds the parameter, uses a conditional expression, or delegates to (inlined) helpers.
"""
import ast
from typing import Any, Dict, List, Optional, Tuple

from .guards import norm, call_name


class Unsupported(Exception):
    pass


KINDS = ('str', 'Path', 'stream')


def _is_path_ctor(f: ast.AST) -> bool:
    return norm(f) in ('Path', 'pathlib.Path')


class Path_:
    """one abstract path through the function"""

    def __init__(self):
        self.events: List[Tuple] = []
        self.undecided: List[str] = []
        self.end = 'fall'


class KindRun:
    def __init__(self, fn_node: ast.AST, io: str, kind: str, max_paths: int = 64):
        self.fn, self.io, self.kind = fn_node, io, kind
        self.paths: List[Path_] = []
        self.max_paths = max_paths
        self._block(list(fn_node.body), {io: ('io', kind)}, Path_(), [])

    # ---- abstract values -------------------------------------------------------------------------------------------
    def val(self, e: ast.AST, env) -> Tuple:
        if isinstance(e, ast.Name):
            return env.get(e.id, ('other', e.id))
        if isinstance(e, ast.Call) and _is_path_ctor(e.func) and len(e.args) == 1 and not e.keywords:
            a = self.val(e.args[0], env)
            if a[0] == 'io':
                return ('path', a)
            if a[0] == 'path':
                return a
        if isinstance(e, ast.Call) and call_name(e) == 'cast' and len(e.args) == 2:
            return self.val(e.args[1], env)
        if isinstance(e, ast.IfExp):
            t = self.truth(e.test, env, None)
            if t is not None:
                return self.val(e.body if t else e.orelse, env)
        return ('other', norm(e)[:60])

    @staticmethod
    def kind_of(v: Tuple) -> Optional[str]:
        if v[0] == 'io':
            return v[1]
        if v[0] == 'path':
            return 'Path'
        if v[0] == 'opened':
            return 'stream'
        return None

    def mentions_io(self, e: ast.AST, env) -> bool:
        return any(isinstance(x, ast.Name) and env.get(x.id, ('other',))[0] in ('io', 'path') for x in ast.walk(e))

    def truth(self, e: ast.AST, env, path: Optional[Path_]) -> Optional[bool]:
        if isinstance(e, ast.Constant):
            return bool(e.value)
        if isinstance(e, ast.UnaryOp) and isinstance(e.op, ast.Not):
            t = self.truth(e.operand, env, path)
            return None if t is None else not t
        if isinstance(e, ast.BoolOp):
            vals = [self.truth(v, env, path) for v in e.values]
            if isinstance(e.op, ast.And):
                if any(v is False for v in vals):
                    return False
                return True if all(v is True for v in vals) else None
            if any(v is True for v in vals):
                return True
            return False if all(v is False for v in vals) else None
        if isinstance(e, ast.Call) and isinstance(e.func, ast.Name) and e.func.id == 'isinstance' and len(e.args) == 2:
            k = self.kind_of(self.val(e.args[0], env))
            if k is not None:
                classes = e.args[1].elts if isinstance(e.args[1], ast.Tuple) else [e.args[1]]
                names = {norm(c).split('.')[-1] for c in classes}
                if names <= {'str', 'Path', 'PurePath', 'PosixPath', 'WindowsPath'}:
                    if k == 'str':
                        return 'str' in names
                    if k == 'Path':
                        if names & {'Path', 'PurePath'}:
                            return True
                        return None if names & {'PosixPath', 'WindowsPath'} else False
                    return False
        if path is not None and self.mentions_io(e, env):
            path.undecided.append(norm(e)[:80])
        return None

    # ---- effects ---------------------------------------------------------------------------------------------------
    def scan(self, e: Optional[ast.AST], env, path: Path_):
        """effects of evaluating an expression: PyYAML calls, open()/close() on tracked values"""
        if e is None:
            return
        for c in ast.walk(e):
            if not isinstance(c, ast.Call):
                continue
            f = c.func
            if isinstance(f, ast.Attribute) and isinstance(f.value, ast.Name) and f.value.id == 'yaml' and f.attr in (
                    'dump', 'load', 'dump_all', 'load_all', 'safe_load', 'safe_dump'):
                idx = 1 if f.attr.startswith('dump') or f.attr == 'safe_dump' else 0
                stream = None
                if len(c.args) > idx:
                    stream = self.val(c.args[idx], env)
                else:
                    for k in c.keywords:
                        if k.arg == 'stream':
                            stream = self.val(k.value, env)
                path.events.append(('yaml', f.attr, stream))
            elif isinstance(f, ast.Attribute) and f.attr in ('open', 'close', 'read', 'write', 'read_text', 'write_text', 'seek',
                                                             'truncate', 'flush', 'detach', 'readlines'):
                v = self.val(f.value, env)
                if v[0] in ('io', 'path', 'opened'):
                    path.events.append((f.attr, v, tuple(norm(a) for a in c.args) + tuple('%s=%s' % (k.arg, norm(k.value)) for k in c.keywords)))
            elif isinstance(f, ast.Name) and f.id == 'open' and c.args:
                v = self.val(c.args[0], env)
                path.events.append(('open', v, tuple(norm(a) for a in c.args[1:]) + tuple('%s=%s' % (k.arg, norm(k.value)) for k in c.keywords)))

    # ---- statements ------------------------------------------------------------------------------------------------
    def _fork(self, path: Path_) -> Path_:
        p = Path_()
        p.events = list(path.events)
        p.undecided = list(path.undecided)
        return p

    def _block(self, stmts, env, path: Path_, cont):
        if len(self.paths) > self.max_paths:
            raise Unsupported('too many paths')
        for i, s in enumerate(stmts):
            rest = stmts[i + 1:]
            if isinstance(s, (ast.Pass, ast.FunctionDef, ast.ClassDef, ast.Import, ast.ImportFrom, ast.Global, ast.Nonlocal, ast.Assert)):
                continue
            if isinstance(s, ast.Expr):
                self.scan(s.value, env, path)
                continue
            if isinstance(s, (ast.Assign, ast.AnnAssign)):
                if isinstance(s, ast.AnnAssign) and s.value is None:
                    continue
                self.scan(s.value, env, path)
                v = self.val(s.value, env)
                tgts = s.targets if isinstance(s, ast.Assign) else [s.target]
                env = dict(env)
                for t in tgts:
                    if isinstance(t, ast.Name):
                        env[t.id] = v
                    else:
                        for x in ast.walk(t):
                            if isinstance(x, ast.Name) and isinstance(x.ctx, ast.Store):
                                env[x.id] = ('other', x.id)
                continue
            if isinstance(s, ast.AugAssign):
                self.scan(s.value, env, path)
                continue
            if isinstance(s, ast.Return):
                self.scan(s.value, env, path)
                path.end = 'return'
                self.paths.append(path)
                return
            if isinstance(s, ast.Raise):
                path.end = 'raise'
                self.paths.append(path)
                return
            if isinstance(s, ast.If):
                t = self.truth(s.test, env, path)
                self.scan(s.test, env, path)
                if t is None:
                    self._block(list(s.body) + rest + cont, env, self._fork(path), [])
                    self._block(list(s.orelse) + rest + cont, env, self._fork(path), [])
                else:
                    self._block(list(s.body if t else s.orelse) + rest + cont, env, path, [])
                return
            if isinstance(s, ast.With):
                env = dict(env)
                for it in s.items:
                    e = it.context_expr
                    opened = None
                    if isinstance(e, ast.Call) and isinstance(e.func, ast.Attribute) and e.func.attr == 'open':
                        recv = self.val(e.func.value, env)
                        args = tuple(norm(a) for a in e.args) + tuple('%s=%s' % (k.arg, norm(k.value)) for k in e.keywords)
                        path.events.append(('with-open', recv, args))
                        opened = ('opened', recv, args)
                    elif isinstance(e, ast.Call) and isinstance(e.func, ast.Name) and e.func.id == 'open' and e.args:
                        recv = self.val(e.args[0], env)
                        args = tuple(norm(a) for a in e.args[1:]) + tuple('%s=%s' % (k.arg, norm(k.value)) for k in e.keywords)
                        path.events.append(('with-open', recv, args))
                        opened = ('opened', recv, args)
                    else:
                        v = self.val(e, env)
                        path.events.append(('with', v, norm(e)[:60]))
                        opened = v if v[0] != 'other' else ('other', norm(e)[:60])
                    if it.optional_vars is not None and isinstance(it.optional_vars, ast.Name):
                        env[it.optional_vars.id] = opened
                self._block(list(s.body) + rest + cont, env, path, [])
                return
            if isinstance(s, ast.Try):
                # the protected statements run; handlers are a different story (an error path), `finally` always runs
                self._block(list(s.body) + list(s.orelse) + list(s.finalbody) + rest + cont, env, path, [])
                return
            raise Unsupported('%s statement at line %s' % (type(s).__name__, getattr(s, 'lineno', '?')))
        if cont:
            self._block(cont, env, path, [])
        else:
            self.paths.append(path)


def describe(v: Optional[Tuple]) -> str:
    if v is None:
        return 'nothing'
    if v[0] == 'io':
        return 'the caller\'s %s' % v[1]
    if v[0] == 'path':
        return 'Path(%s)' % describe(v[1])
    if v[0] == 'opened':
        return 'the file opened from %s with %s' % (describe(v[1]), ', '.join(v[2]) or 'no mode')
    return v[1]
