"""Resolver tables of the Loader / Dumper (by partial evaluation over PyYAML's constant tables) and the
regular languages {s : Tag_T(s) = t} they induce under PyYAML's `resolve`."""
import ast
import builtins
import copy
import re
from typing import Any, Dict, List, Optional, Tuple

from .model import AnalysisError, Program, walk_function
from .peval import Evaluator, Obj, Rx, implicit_resolver_table, Opaque
from .relang import Alphabet, DFA

T = 'tag:yaml.org,2002:'

# ---- reference languages, written from the YAML 1.2 core schema and from the property text ----------------
BOOL_WORDS = ['true', 'True', 'TRUE', 'false', 'False', 'FALSE']
REF = {
    # YAML 1.2 core float without bare integers (a fraction point and/or an exponent), inf and nan spellings
    'strict_float': (r'^(?:[-+]?(?:\.[0-9]+|[0-9]+\.[0-9]*)(?:[eE][-+]?[0-9]+)?'
                     r'|[-+]?[0-9]+[eE][-+]?[0-9]+'
                     r'|[-+]?\.(?:inf|Inf|INF)'
                     r'|\.(?:nan|NaN|NAN))$', 0),
    # additionally a sign on the nan spellings (same value; the property's wording does not condemn it)
    'loose_float': (r'^(?:[-+]?(?:\.[0-9]+|[0-9]+\.[0-9]*)(?:[eE][-+]?[0-9]+)?'
                    r'|[-+]?[0-9]+[eE][-+]?[0-9]+'
                    r'|[-+]?\.(?:inf|Inf|INF)'
                    r'|[-+]?\.(?:nan|NaN|NAN))$', 0),
    # sound under-approximation of the domain of SafeConstructor.construct_yaml_float (no ':'): underscores are removed
    # first, float() accepts any Unicode decimal digit
    'float_ctor_domain': (r'^_*[-+]?_*(?:\._*[iI]_*[nN]_*[fF]_*|\._*[nN]_*[aA]_*[nN]_*'
                          r'|[-+]?_*(?:\d[\d_]*(?:\.[\d_]*)?|\._*\d[\d_]*)(?:[eE]_*[-+]?_*\d[\d_]*)?)$', 0),
    # sound under-approximations of the domains of construct_yaml_int / construct_yaml_timestamp (ASCII digits; days 1-28)
    'int_ctor_domain': (r'^_*[-+]?_*(?:0_*|0b_*[01][01_]*|0x_*[0-9a-fA-F][0-9a-fA-F_]*|0_*[0-7][0-7_]*'
                        r'|[1-9][0-9_]*(?::_*[0-9][0-9_]*)*)$', 0),
    'timestamp_ctor_domain': (r'^(?:[1-9][0-9]{3}|0[1-9][0-9]{2}|00[1-9][0-9]|000[1-9])-(?:0?[1-9]|1[0-2])-(?:0?[1-9]|1[0-9]|2[0-8])'
                              r'(?:(?:[Tt]|[ \t]+)(?:[01]?[0-9]|2[0-3]):[0-5][0-9]:[0-5][0-9](?:\.[0-9]*)?'
                              r'(?:[ \t]*(?:Z|[-+](?:0?[0-9]|1[0-9]|2[0-3])(?::[0-5][0-9])?))?)?$', 0),
    # what SafeRepresenter.represent_float writes: repr(float).lower() with '.0' before a bare exponent
    'float_repr': (r'^(?:-?[0-9]+\.[0-9]+(?:e[-+][0-9]+)?|\.nan|-?\.inf)$', 0),
}

_FLOAT_CTOR_FACTS = ["value.replace('_', '').lower()", "value == '.inf'", "value == '.nan'", 'float(value)',
                     "if value[0] in '+-':"]
_INT_CTOR_FACTS = ["value.replace('_', '')", "value.startswith('0b')", 'int(value[2:], 2)', "value.startswith('0x')",
                   'int(value[2:], 16)', 'int(value, 8)', "value.split(':')", 'sign * int(value)']
_TS_CTOR_FACTS = ['self.timestamp_regexp.match(node.value)', 'datetime.date(year, month, day)',
                  'datetime.datetime(year, month, day, hour, minute, second, fraction']
_FLOAT_REPR_FACTS = ["value = '.nan'", "value = '.inf'", "value = '-.inf'", 'repr(data).lower()',
                     "value.replace('e', '.0e', 1)"]


def _facts(P: Program, key: str, facts: List[str]):
    src = ast.unparse(P.func(key).node)
    for f in facts:
        if f not in src:
            raise AnalysisError('%s no longer has the modelled shape (%s)' % (key, f))


def _is_table(t) -> bool:
    return isinstance(t, dict) and all(isinstance(v, list) and all(isinstance(e, tuple) and len(e) == 2 and isinstance(e[1], Rx)
                                                                    for e in v) for v in t.values())


class ResolverModel:
    def __init__(self, P: Program):
        self.P = P
        self.T0 = implicit_resolver_table(P)
        self.init_problems: Dict[str, List[str]] = {}
        self.pristine = copy.deepcopy(self.T0)
        self.T_load, self.load_steps = self._instance_table('yatiml.loader:Loader')
        self.shared_table_mutated = (self.T0 != self.pristine)
        self.load_aliases_class_table = self.T_load is self.T0
        # evaluate the dumper against a fresh copy so that a loader defect does not leak into it
        saved = self.T0
        self.T0 = copy.deepcopy(self.pristine)
        self.T_dump, self.dump_steps = self._instance_table('yatiml.dumper:Dumper')
        self.dump_mutated_shared = (self.T0 != self.pristine)
        self.T0 = saved
        _facts(P, 'yaml.constructor:SafeConstructor.construct_yaml_float', _FLOAT_CTOR_FACTS)
        _facts(P, 'yaml.representer:SafeRepresenter.represent_float', _FLOAT_REPR_FACTS)
        _facts(P, 'yaml.constructor:SafeConstructor.construct_yaml_int', _INT_CTOR_FACTS)
        _facts(P, 'yaml.constructor:SafeConstructor.construct_yaml_timestamp', _TS_CTOR_FACTS)
        self.bool_values = self._bool_values()
        pats = set()
        for tab in (self.pristine, self.T_load, self.T_dump):
            for ents in tab.values():
                for _, rx in ents:
                    pats.add((rx.pattern, rx.flags))
        pats |= set(REF.values())
        bool_rx = '^(?:' + '|'.join(''.join('[%s%s]' % (c.lower(), c.upper()) if c.isalpha() else re.escape(c)
                                             for c in k) for k in sorted(self.bool_values)) + ')$'
        self.bool_ctor_rx = (bool_rx, 0)
        pats.add(self.bool_ctor_rx)
        self.A = Alphabet(sorted(pats), extra_chars=''.join(BOOL_WORDS) + '\n _:')
        self._lang_cache: Dict = {}

    def _bool_values(self) -> Dict[str, bool]:
        c = self.P.cls('yaml.constructor:SafeConstructor')
        if 'bool_values' not in c.class_attrs:
            raise AnalysisError('SafeConstructor.bool_values not found')
        d = Evaluator().ev(c.class_attrs['bool_values'], {})
        src = ast.unparse(self.P.func('yaml.constructor:SafeConstructor.construct_yaml_bool').node)
        if 'self.bool_values[value.lower()]' not in src:
            raise AnalysisError('construct_yaml_bool no longer has the modelled shape')
        return d

    def _instance_table(self, cls_key: str):
        """table a fresh instance resolves with: class-level table transformed by the no-argument methods that
        __init__ calls on self and that assign self.yaml_implicit_resolvers"""
        c = self.P.cls(cls_key)
        init = c.methods.get('__init__')
        obj = Obj({'yaml_implicit_resolvers': self.T0}, c.methods)
        steps = []
        if init is None:
            return self.T0, steps
        ev = Evaluator()
        ev.program = self.P

        def touches(m, seen=None):
            """m, or a method of the class it calls on self (transitively), names yaml_implicit_resolvers"""
            seen = seen if seen is not None else set()
            if m.qual in seen:
                return False
            seen.add(m.qual)
            for x in ast.walk(m.node):
                if isinstance(x, ast.Attribute) and x.attr == 'yaml_implicit_resolvers':
                    return True
                if isinstance(x, ast.Constant) and x.value == 'yaml_implicit_resolvers':
                    return True
                if isinstance(x, ast.Attribute) and isinstance(x.value, ast.Name) and x.value.id == 'self' \
                        and x.attr in c.methods and touches(c.methods[x.attr], seen):
                    return True
            return False
        problems = self.init_problems.setdefault(cls_key, [])
        # statements of __init__ itself that work on the table (a patch method written out in place, or inlined by step K) are
        # evaluated where they stand, in one environment that lives as long as __init__ does
        params = [a.arg for a in init.node.args.args]
        selfn = params[0] if params else 'self'
        init_env: Dict[str, Any] = {selfn: obj}
        table_locals: set = set()
        if init.module.name.startswith('yatiml'):
            ev.module_constants = init.module.constants
            ev.cur_module = init.module

        def names_table(st):
            for x in ast.walk(st):
                if isinstance(x, ast.Attribute) and x.attr == 'yaml_implicit_resolvers':
                    return True
                if isinstance(x, ast.Constant) and x.value == 'yaml_implicit_resolvers':
                    return True
                if isinstance(x, ast.Name) and x.id in table_locals:
                    return True
            return False
        # locals that take part in computing the table: closed over the statements that name it
        changed = True
        while changed:
            changed = False
            for st in init.node.body:
                if isinstance(st, (ast.Assign, ast.AnnAssign, ast.AugAssign, ast.For)) and names_table(st):
                    for x in ast.walk(st):
                        if isinstance(x, ast.Name) and x.id != selfn and x.id not in table_locals \
                                and x.id not in params and not hasattr(builtins, x.id):
                            table_locals.add(x.id)
                            changed = True
        for st in init.node.body:
            direct = [n for n in ast.walk(st) if isinstance(n, ast.Attribute) and n.attr == 'yaml_implicit_resolvers'
                      and not isinstance(n.ctx, ast.Load)]
            in_place = isinstance(st, (ast.Assign, ast.AnnAssign, ast.AugAssign, ast.For)) and names_table(st) \
                and not any(isinstance(x, ast.Call) and isinstance(x.func, ast.Name) and x.func.id == 'super' for x in ast.walk(st))
            if in_place:
                before = obj.attrs.get('yaml_implicit_resolvers', self.T0)
                try:
                    if init.module.name.startswith('yatiml'):
                        ev.module_constants = init.module.constants
                        ev.cur_module = init.module
                    ev.run([st], init_env)
                    if direct and _is_table(obj.attrs.get('yaml_implicit_resolvers')):
                        steps.append('%s:line %d' % (init.qual, st.lineno))
                        direct = []
                    elif not direct:
                        continue
                    else:
                        obj.attrs['yaml_implicit_resolvers'] = before
                except AnalysisError:
                    obj.attrs['yaml_implicit_resolvers'] = before
                    if not direct:
                        continue
                except Exception as e:
                    raise AnalysisError('partial evaluation of %s line %d raised %r' % (init.key, st.lineno, e))
            for n in direct:
                problems.append('%s.__init__ assigns %s directly (line %d): the table in force is no longer the '
                                'per-instance result of the patch methods' % (c.name, ast.unparse(n), n.lineno))
            if isinstance(st, ast.Expr) and isinstance(st.value, ast.Call):
                call = st.value
                f = call.func
                if isinstance(f, ast.Attribute) and isinstance(f.value, ast.Name) and f.value.id == 'self' \
                        and f.attr in c.methods and not call.args and not call.keywords:
                    m = c.methods[f.attr]
                    if touches(m):
                        try:
                            ev.call_method(obj, m, [], {})
                        except AnalysisError:
                            raise
                        except Exception as e:
                            raise AnalysisError('partial evaluation of %s raised %r' % (m.key, e))
                        steps.append(m.qual)
            elif not isinstance(st, (ast.Expr, ast.Assign, ast.AnnAssign)):
                # patch calls that are nested in a branch / loop / try are conditional
                for n in ast.walk(st):
                    if isinstance(n, ast.Call) and isinstance(n.func, ast.Attribute) and isinstance(n.func.value, ast.Name) \
                            and n.func.value.id == 'self' and n.func.attr in c.methods \
                            and touches(c.methods[n.func.attr]):
                        problems.append('%s.__init__ calls self.%s() conditionally (line %d): whether the YAML 1.2 patterns are '
                                        'in force depends on the state the condition reads' % (c.name, n.func.attr, n.lineno))
        return obj.attrs.get('yaml_implicit_resolvers', self.T0), steps

    # ---- languages ------------------------------------------------------------------------------
    def rx_lang(self, rx) -> DFA:
        key = (rx.pattern, rx.flags) if isinstance(rx, Rx) else rx
        if key not in self._lang_cache:
            self._lang_cache[key] = self.A.match_lang(key[0], key[1]).minimize()
        return self._lang_cache[key]

    def ref(self, name: str) -> DFA:
        return self.rx_lang(REF[name])

    def _lang(self, table: Dict[Any, List[Tuple[str, Rx]]], pred, pkey: str) -> DFA:
        """{ s : the first entry whose pattern matches s (bucket of s[0], then the None bucket) satisfies pred }"""
        A = self.A
        chars = [k for k in table if isinstance(k, str) and len(k) == 1]
        wildcard = table.get(None, [])
        acc = A.nothing()

        def firstmatch(entries):
            key = ('fm', pkey, tuple((t, rx.pattern, rx.flags) for t, rx in entries))
            if key in self._lang_cache:
                return self._lang_cache[key]
            res = A.nothing()
            seen = A.nothing()
            for t, rx in entries:
                L = self.rx_lang(rx)
                if pred(t):
                    res = res | (L - seen)
                seen = seen | L
            self._lang_cache[key] = res
            return res
        groups: Dict = {}
        for c in chars:
            groups.setdefault(tuple((t, rx.pattern, rx.flags) for t, rx in table[c]), []).append(c)
        for cs in groups.values():
            acc = acc | (A.first_in(cs) & firstmatch(table[cs[0]] + wildcard))
        chars_done = True
        for c in []:
            acc = acc | (A.first_in([c]) & firstmatch(table[c] + wildcard))
        acc = acc | (A.first_not_in(chars) & firstmatch(wildcard))
        acc = acc | (A.empty_word() & firstmatch(table.get('', []) + wildcard))
        return acc

    def tag_lang(self, table, tag: str) -> DFA:
        return self._lang(table, lambda t: t == tag, tag)

    def nonstr_lang(self, table) -> DFA:
        return self._lang(table, lambda t: t != T + 'str', '!str')

    def tags(self, table) -> List[str]:
        out = []
        for ents in table.values():
            for t, _ in ents:
                if t not in out:
                    out.append(t)
        return out


_model_cache: Dict[int, ResolverModel] = {}


def resolver_model(P: Program) -> ResolverModel:
    if id(P) not in _model_cache:
        _model_cache.clear()
        _model_cache[id(P)] = ResolverModel(P)
    return _model_cache[id(P)]
