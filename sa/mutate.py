"""Single-point mutation operators over yatiml's syntax trees, addressed structurally.

Used by the checker self-test (thorough tier): a *descriptor* names a mutation by operator, enclosing function, the source text
of the target construct and its ordinal among equal constructs of that function - never by line number - so that the corpus of
must-fire mutants (sa/selftest_corpus.json) can be re-applied to the *current* sources of /repo.  A descriptor whose target no
longer exists is reported as skipped.
"""
import ast
import copy
from typing import Dict, Iterator, List, Optional, Tuple

CMP = {ast.Eq: ast.NotEq, ast.NotEq: ast.Eq, ast.Lt: ast.LtE, ast.LtE: ast.Lt, ast.Gt: ast.GtE, ast.GtE: ast.Gt,
       ast.In: ast.NotIn, ast.NotIn: ast.In, ast.Is: ast.IsNot, ast.IsNot: ast.Is}
KW = ('deep', 'ensure_ascii', 'indent', 'allow_unicode', 'Loader', 'Dumper', 'sort_keys')
STMTS = (ast.Expr, ast.Assign, ast.AugAssign, ast.Raise, ast.Return, ast.If, ast.For, ast.Break, ast.Continue)


def _is_doc(s):
    return isinstance(s, ast.Expr) and isinstance(s.value, ast.Constant) and isinstance(s.value.value, str)


def _is_log(s):
    return isinstance(s, ast.Expr) and isinstance(s.value, ast.Call) and isinstance(s.value.func, ast.Attribute) \
        and isinstance(s.value.func.value, ast.Name) and s.value.func.value.id == 'logger'


def _qualnames(tree: ast.Module) -> Dict[int, str]:
    """id(node) -> qualified name of the innermost enclosing def ('<module>' outside any)"""
    out: Dict[int, str] = {}

    def walk(n, q):
        out[id(n)] = q
        nq = q
        if isinstance(n, (ast.FunctionDef, ast.AsyncFunctionDef, ast.ClassDef)):
            nq = n.name if q == '<module>' else q + '.' + n.name
        for c in ast.iter_child_nodes(n):
            walk(c, nq)
    walk(tree, '<module>')
    return out


def _text(n: ast.AST) -> str:
    if isinstance(n, (ast.If, ast.While)):
        return type(n).__name__ + ' ' + ast.unparse(n.test)[:100]
    if isinstance(n, ast.For):
        return 'For ' + ast.unparse(n.iter)[:100]
    if isinstance(n, ast.Try):
        return 'Try'
    if isinstance(n, ast.keyword):
        return '%s=%s' % (n.arg, ast.unparse(n.value)[:80])
    return ast.unparse(n)[:120]


def sites(tree: ast.Module) -> Iterator[Tuple[str, ast.AST, Optional[Tuple[ast.AST, str, int]]]]:
    """(operator, target node, (owner, field, index) for statement deletions)"""
    for n in ast.walk(tree):
        if isinstance(n, ast.Compare) and len(n.ops) == 1 and type(n.ops[0]) in CMP:
            yield 'cmp', n, None
            if isinstance(n.ops[0], ast.NotEq):
                yield 'cmp_gt', n, None
        if isinstance(n, ast.BoolOp):
            yield 'boolop', n, None
        if isinstance(n, ast.UnaryOp) and isinstance(n.op, ast.Not):
            yield 'dropnot', n, None
        if isinstance(n, (ast.If, ast.While, ast.IfExp)):
            yield 'cond_true', n, None
            yield 'cond_false', n, None
        if isinstance(n, ast.Constant):
            if isinstance(n.value, bool):
                yield 'flipbool', n, None
            elif isinstance(n.value, int):
                yield 'intplus', n, None
            elif isinstance(n.value, str) and (n.value.startswith('tag:') or n.value.startswith('_yatiml')
                                               or n.value in ('self', 'yaml', 'json')):
                yield 'strmut', n, None
        if isinstance(n, ast.Try):
            yield 'untry', n, None
        for fld in ('body', 'orelse', 'finalbody'):
            lst = getattr(n, fld, None)
            if isinstance(lst, list) and not isinstance(n, ast.Module):
                for j, s in enumerate(lst):
                    if isinstance(s, ast.stmt) and not _is_doc(s) and not _is_log(s) and isinstance(s, STMTS) \
                            and not (isinstance(s, ast.Return) and s.value is None):
                        yield 'delstmt', s, (n, fld, j)
        if isinstance(n, ast.Call):
            for k in n.keywords:
                if k.arg in KW:
                    yield 'dropkw', k, (n, 'keywords', n.keywords.index(k))


def descriptors(module: str, text: str) -> List[dict]:
    tree = ast.parse(text)
    q = _qualnames(tree)
    seen: Dict[Tuple[str, str, str], int] = {}
    out = []
    for op, n, where in sites(tree):
        fn = q.get(id(n), q.get(id(where[0]), '<module>') if where else '<module>')
        t = _text(n)
        k = (op, fn, t)
        seen[k] = seen.get(k, 0) + 1
        out.append({'module': module, 'op': op, 'fn': fn, 'src': t, 'nth': seen[k] - 1,
                    'line': getattr(n, 'lineno', getattr(getattr(n, 'value', None), 'lineno', None))})
    return out


def apply(text: str, d: dict) -> Optional[str]:
    """the module source with mutation `d` applied; None if the target construct no longer exists"""
    tree = ast.parse(text)
    q = _qualnames(tree)
    count = 0
    for op, n, where in sites(tree):
        if op != d['op']:
            continue
        fn = q.get(id(n), q.get(id(where[0]), '<module>') if where else '<module>')
        if fn != d['fn'] or _text(n) != d['src']:
            continue
        if count != d['nth']:
            count += 1
            continue
        if op == 'delstmt':
            owner, fld, j = where
            getattr(owner, fld)[j] = ast.copy_location(ast.Pass(), n)
        elif op == 'dropkw':
            owner, _, _ = where
            owner.keywords.remove(n)
        elif op == 'cmp':
            n.ops[0] = CMP[type(n.ops[0])]()
        elif op == 'cmp_gt':
            n.ops[0] = ast.Gt()
        elif op == 'boolop':
            n.op = ast.Or() if isinstance(n.op, ast.And) else ast.And()
        elif op == 'dropnot':
            n.operand = ast.UnaryOp(op=ast.Not(), operand=n.operand)
        elif op == 'cond_true':
            n.test = ast.copy_location(ast.Constant(True), n.test)
        elif op == 'cond_false':
            n.test = ast.copy_location(ast.Constant(False), n.test)
        elif op == 'flipbool':
            n.value = not n.value
        elif op == 'intplus':
            n.value = n.value + 1
        elif op == 'strmut':
            n.value = n.value + 'X'
        elif op == 'untry':
            for h in n.handlers:
                h.type = ast.Name('GeneratorExit', ast.Load())
        ast.fix_missing_locations(tree)
        new = ast.unparse(tree)
        compile(new, d['module'], 'exec')
        return new
    return None
