"""E4 statement-level control-flow graph with explicit branch nodes, dominators and path queries.

Conditions are decomposed along short-circuit evaluation into atomic `test` nodes; every outcome
of a test passes through a synthetic `branch` node (atom, polarity), and the joined outcome of an
`or` (true side) / `and` (false side) passes through a composite branch node, so that "statement S
is guarded by condition C" is plain node dominance.
"""
import ast
from typing import Dict, List, Optional, Set, Tuple, Callable

from .model import AnalysisError, parent

CATCH_ALL = {'Exception', 'BaseException'}


class Node:
    __slots__ = ('id', 'kind', 'ast', 'pol', 'extra')

    def __init__(self, id_, kind, ast_=None, pol=None, extra=None):
        self.id = id_
        self.kind = kind
        self.ast = ast_
        self.pol = pol
        self.extra = extra

    def __repr__(self):
        t = ''
        if self.ast is not None:
            try:
                t = ast.unparse(self.ast).split('\n')[0][:60]
            except Exception:
                t = type(self.ast).__name__
        return '<%d %s%s %s>' % (self.id, self.kind, '' if self.pol is None else ('+' if self.pol else '-'), t)


# platform probes that are constant on every supported interpreter (CPython >= 3.7)
_FOLD_TRUE = {"hasattr(typing, '_GenericAlias')"}


def default_folder(e: ast.AST) -> Optional[bool]:
    try:
        s = ast.unparse(e)
    except Exception:
        return None
    if s in _FOLD_TRUE:
        return True
    # literal tests (`if False:` / `while True:` and their negations): the other arm is dead code
    pol = True
    while isinstance(e, ast.UnaryOp) and isinstance(e.op, ast.Not):
        e, pol = e.operand, not pol
    if isinstance(e, ast.Constant) and isinstance(e.value, (bool, int, type(None))) and not isinstance(e.value, str):
        return bool(e.value) == pol
    return None


class CFG:
    def __init__(self, fn_node: ast.AST, folder: Callable = default_folder):
        self.fn = fn_node
        self.nodes: List[Node] = []
        self.succ: Dict[int, List[Tuple[int, str]]] = {}
        self.pred: Dict[int, List[Tuple[int, str]]] = {}
        self.owner: Dict[int, int] = {}
        self.folder = folder
        self.entry = self._new('entry')
        self.exit = self._new('exit')
        self.raise_exit = self._new('raise')
        self._try_stack: List[List[Tuple[int, Optional[List[str]]]]] = []
        self._loop_stack: List[Tuple[int, List[int]]] = []   # (continue target, break frontier)
        fr = self._seq(fn_node.body, [self.entry])
        if fr:
            ir = self._new('implicit-return')
            self._connect(fr, ir)
            self._edge(ir, self.exit)
        self._dom = None
        self._pdom = None

    # ---- construction --------------------------------------------------------------------------
    def _new(self, kind, ast_=None, pol=None, extra=None) -> int:
        n = Node(len(self.nodes), kind, ast_, pol, extra)
        self.nodes.append(n)
        self.succ[n.id] = []
        self.pred[n.id] = []
        return n.id

    def _edge(self, a, b, label=''):
        if (b, label) not in self.succ[a]:
            self.succ[a].append((b, label))
            self.pred[b].append((a, label))

    def _connect(self, frontier, b, label=''):
        for a in frontier:
            self._edge(a, b, label)

    def _own(self, nid, tree):
        stack = [tree]
        while stack:
            n = stack.pop()
            self.owner[id(n)] = nid
            for c in ast.iter_child_nodes(n):
                if isinstance(c, (ast.FunctionDef, ast.AsyncFunctionDef, ast.ClassDef)) and c is not tree:
                    self.owner[id(c)] = nid
                    continue
                stack.append(c)

    def _exc_edges(self, nid):
        """exceptional edges from a node inside try bodies to the handlers that may catch"""
        for frame in reversed(self._try_stack):
            catch_all = False
            for hid, names in frame:
                self._edge(nid, hid, 'exc')
                if names is None or any(x in CATCH_ALL for x in names):
                    catch_all = True
            if catch_all:
                return
        # may propagate out of the function; only modelled for explicit raise statements

    def _simple(self, kind, st, frontier, own=None) -> int:
        nid = self._new(kind, st)
        self._own(nid, own if own is not None else st)
        self._connect(frontier, nid)
        self._exc_edges(nid)
        return nid

    def _seq(self, stmts, frontier):
        for st in stmts:
            if not frontier:
                # unreachable code: still build it (from nowhere) so that its nodes exist
                pass
            frontier = self._stmt(st, frontier)
        return frontier

    def _cond(self, e, frontier):
        if isinstance(e, ast.BoolOp):
            if isinstance(e.op, ast.And):
                t = frontier
                falses = []
                for v in e.values:
                    t, f = self._cond(v, t)
                    falses += f
                bf = self._new('branch', e, False)
                self._connect(falses, bf)
                return t, [bf]
            else:
                f = frontier
                trues = []
                for v in e.values:
                    t, f = self._cond(v, f)
                    trues += t
                bt = self._new('branch', e, True)
                self._connect(trues, bt)
                return [bt], f
        if isinstance(e, ast.UnaryOp) and isinstance(e.op, ast.Not):
            t, f = self._cond(e.operand, frontier)
            return f, t
        nid = self._new('test', e)
        self._own(nid, e)
        self._connect(frontier, nid)
        self._exc_edges(nid)
        folded = self.folder(e) if self.folder else None
        bt = self._new('branch', e, True)
        bf = self._new('branch', e, False)
        if folded is not False:
            self._edge(nid, bt)
        if folded is not True:
            self._edge(nid, bf)
        return [bt], [bf]

    def _handler_names(self, h: ast.ExceptHandler):
        if h.type is None:
            return None
        ts = h.type.elts if isinstance(h.type, ast.Tuple) else [h.type]
        out = []
        for t in ts:
            if isinstance(t, ast.Name):
                out.append(t.id)
            elif isinstance(t, ast.Attribute):
                out.append(t.attr)
            else:
                out.append(ast.unparse(t))
        return out

    def _stmt(self, st, frontier):
        if isinstance(st, ast.If):
            t, f = self._cond(st.test, frontier)
            a = self._seq(st.body, t)
            b = self._seq(st.orelse, f) if st.orelse else f
            return a + b
        if isinstance(st, ast.While):
            head = self._new('while', st)
            self._connect(frontier, head)
            t, f = self._cond(st.test, [head])
            brk: List[int] = []
            self._loop_stack.append((head, brk))
            body_end = self._seq(st.body, t)
            self._loop_stack.pop()
            self._connect(body_end, head, 'back')
            after = self._seq(st.orelse, f) if st.orelse else f
            return after + brk
        if isinstance(st, (ast.For,)):
            head = self._new('for', st)
            self._own(head, st.iter)
            self._own(head, st.target)
            self._connect(frontier, head)
            self._exc_edges(head)
            it = self._new('loopiter', st)
            done = self._new('loopdone', st)
            self._edge(head, it)
            self._edge(head, done)
            brk = []
            self._loop_stack.append((head, brk))
            body_end = self._seq(st.body, [it])
            self._loop_stack.pop()
            self._connect(body_end, head, 'back')
            after = self._seq(st.orelse, [done]) if st.orelse else [done]
            return after + brk
        if isinstance(st, ast.Break):
            nid = self._simple('stmt', st, frontier)
            self._loop_stack[-1][1].append(nid)
            return []
        if isinstance(st, ast.Continue):
            nid = self._simple('stmt', st, frontier)
            self._edge(nid, self._loop_stack[-1][0], 'back')
            return []
        if isinstance(st, ast.Return):
            nid = self._simple('return', st, frontier)
            self._edge(nid, self.exit)
            return []
        if isinstance(st, ast.Raise):
            nid = self._new('raisestmt', st)
            self._own(nid, st)
            self._connect(frontier, nid)
            caught_all = False
            for frame in reversed(self._try_stack):
                for hid, names in frame:
                    self._edge(nid, hid, 'exc')
                    if names is None or any(x in CATCH_ALL for x in names):
                        caught_all = True
                if caught_all:
                    break
            if not caught_all:
                self._edge(nid, self.raise_exit, 'exc')
            return []
        if isinstance(st, ast.Try):
            hentries = []
            for h in st.handlers:
                hid = self._new('handler', h)
                if h.type is not None:
                    self._own(hid, h.type)
                hentries.append((hid, self._handler_names(h)))
            self._try_stack.append(hentries)
            body_end = self._seq(st.body, frontier)
            self._try_stack.pop()
            if st.orelse:
                body_end = self._seq(st.orelse, body_end)
            ends = list(body_end)
            for (hid, _), h in zip(hentries, st.handlers):
                ends += self._seq(h.body, [hid])
            if st.finalbody:
                ends = self._seq(st.finalbody, ends)
            return ends
        if isinstance(st, (ast.With,)):
            nid = self._new('with', st)
            for it in st.items:
                self._own(nid, it)
            self._connect(frontier, nid)
            self._exc_edges(nid)
            return self._seq(st.body, [nid])
        if isinstance(st, (ast.Assign, ast.AugAssign, ast.AnnAssign, ast.Expr, ast.Pass, ast.Delete,
                           ast.Assert, ast.Global, ast.Nonlocal, ast.Import, ast.ImportFrom,
                           ast.FunctionDef, ast.AsyncFunctionDef, ast.ClassDef)):
            nid = self._simple('stmt', st, frontier)
            return [nid]
        raise AnalysisError('unsupported statement %s at line %s' % (type(st).__name__, getattr(st, 'lineno', '?')))

    # ---- queries -------------------------------------------------------------------------------
    def node_of(self, a: ast.AST) -> Optional[int]:
        n = a
        while n is not None:
            if id(n) in self.owner:
                return self.owner[id(n)]
            n = parent(n)
            if n is self.fn:
                return None
        return None

    def reachable(self, src: int, avoid: Set[int] = frozenset(), forward=True) -> Set[int]:
        seen = set()
        stack = [src]
        adj = self.succ if forward else self.pred
        while stack:
            n = stack.pop()
            if n in seen:
                continue
            seen.add(n)
            for m, _ in adj[n]:
                if m not in avoid and m not in seen:
                    stack.append(m)
        return seen

    def live(self) -> Set[int]:
        return self.reachable(self.entry)

    def must_pass(self, src: int, dst: int, through: Set[int]) -> bool:
        """every path src ->* dst crosses a node of `through` (src itself may be in `through`)"""
        if src in through or dst in through:
            return True
        return dst not in self.reachable(src, avoid=set(through))

    def _compute_dom(self, forward=True):
        start = self.entry if forward else self.exit
        adj_pred = self.pred if forward else self.succ
        live = self.reachable(start, forward=forward)
        if not forward:
            # also treat raise exit as an exit for post-dominance: connect virtually
            pass
        dom = {n: set(live) for n in live}
        dom[start] = {start}
        changed = True
        order = sorted(live)
        while changed:
            changed = False
            for n in order:
                if n == start:
                    continue
                ps = [p for p, _ in adj_pred[n] if p in live]
                if not ps:
                    new = {n}
                else:
                    new = set.intersection(*(dom[p] for p in ps)) | {n}
                if new != dom[n]:
                    dom[n] = new
                    changed = True
        return dom

    def dom(self) -> Dict[int, Set[int]]:
        if self._dom is None:
            self._dom = self._compute_dom(True)
        return self._dom

    def dominates(self, a: int, b: int) -> bool:
        d = self.dom()
        return b in d and a in d[b]

    def dominators(self, n: int) -> Set[int]:
        return self.dom().get(n, set())

    def guards(self, n: int) -> List[Tuple[ast.AST, bool]]:
        """(condition, polarity) of every branch node dominating n, entry-first"""
        ds = [self.nodes[d] for d in sorted(self.dominators(n)) if self.nodes[d].kind == 'branch' and d != n]
        # order by dominance depth
        ds.sort(key=lambda x: len(self.dominators(x.id)))
        return [(d.ast, d.pol) for d in ds]

    def guard_nodes(self, n: int) -> List['Node']:
        # branches whose test folds to a constant carry no information (their dead arm is pruned already)
        ds = [self.nodes[d] for d in self.dominators(n) if self.nodes[d].kind == 'branch' and d != n
              and not (self.nodes[d].ast is not None and self.folder(self.nodes[d].ast) is not None)]
        ds.sort(key=lambda x: len(self.dominators(x.id)))
        return ds

    def between(self, a: int, b: int) -> Set[int]:
        """nodes lying on some path a ->* b that does not revisit a (a guard at `a` is re-established whenever a is
        passed again, so only the last stretch matters)"""
        fwd = set()
        for m, _ in self.succ[a]:
            if m != a:
                fwd |= self.reachable(m, avoid={a})
        bwd = set()
        for m, _ in self.pred[b]:
            if m != a:
                bwd |= self.reachable(m, avoid={a}, forward=False)
        return (fwd & bwd) - {a}

    def returns(self) -> List[int]:
        live = self.live()
        return [n.id for n in self.nodes if n.kind in ('return', 'implicit-return') and n.id in live]

    def raises(self) -> List[int]:
        live = self.live()
        return [n.id for n in self.nodes if n.kind == 'raisestmt' and n.id in live]

    def nodes_of_kind(self, *kinds) -> List[Node]:
        live = self.live()
        return [n for n in self.nodes if n.kind in kinds and n.id in live]

    def in_loop(self, n: int) -> bool:
        """n lies on a cycle of the graph"""
        for m, _ in self.succ[n]:
            if n in self.reachable(m):
                return True
        return False

    def enclosing_handlers(self, a: ast.AST) -> List[ast.Try]:
        """try statements whose *body* lexically contains `a` (innermost first), within this function"""
        out = []
        n = a
        p = parent(n)
        while p is not None and p is not self.fn:
            if isinstance(p, ast.Try) and any(n is s for s in p.body):
                out.append(p)
            n, p = p, parent(p)
        return out


def build_cfg(fi) -> CFG:
    return CFG(fi.node)


# ---- expression-level guards ---------------------------------------------------------------------

def conj_atoms(test: ast.AST, pol: bool) -> List[Tuple[ast.AST, bool]]:
    """Facts known when `test` evaluated to `pol`, as a conjunction of (expr, polarity)."""
    if isinstance(test, ast.UnaryOp) and isinstance(test.op, ast.Not):
        return conj_atoms(test.operand, not pol)
    if isinstance(test, ast.BoolOp):
        if isinstance(test.op, ast.And) and pol:
            return [x for v in test.values for x in conj_atoms(v, True)]
        if isinstance(test.op, ast.Or) and not pol:
            return [x for v in test.values for x in conj_atoms(v, False)]
    return [(test, pol)]


def expr_guards(e: ast.AST, stop: Optional[ast.AST] = None) -> List[Tuple[ast.AST, bool]]:
    """Guards contributed by the expression context of `e` (IfExp arms, short-circuit operands,
    comprehension filters), walking up to the statement (or `stop`)."""
    out: List[Tuple[ast.AST, bool]] = []
    n = e
    p = parent(n)
    while p is not None and n is not stop and not isinstance(n, ast.stmt):
        if isinstance(p, ast.IfExp):
            if n is p.body:
                out += conj_atoms(p.test, True)
            elif n is p.orelse:
                out += conj_atoms(p.test, False)
        elif isinstance(p, ast.BoolOp):
            idx = [i for i, v in enumerate(p.values) if v is n]
            if idx:
                for v in p.values[:idx[0]]:
                    out += conj_atoms(v, isinstance(p.op, ast.And))
        elif isinstance(p, (ast.ListComp, ast.SetComp, ast.GeneratorExp, ast.DictComp)):
            if not isinstance(n, ast.comprehension):
                for g in p.generators:
                    for c in g.ifs:
                        out += conj_atoms(c, True)
        elif isinstance(p, ast.comprehension):
            # later generators / ifs are guarded by earlier ifs of the same generator
            if n in p.ifs:
                for c in p.ifs[:p.ifs.index(n)]:
                    out += conj_atoms(c, True)
        n, p = p, parent(p)
    return out


def all_guards(cfg: CFG, e: ast.AST) -> List[Tuple[ast.AST, bool]]:
    """Statement-level (dominating branches, flattened to atoms) plus expression-level guards of e."""
    nid = cfg.node_of(e)
    out: List[Tuple[ast.AST, bool]] = []
    if nid is not None:
        for t, pol in cfg.guards(nid):
            out += conj_atoms(t, pol)
    out += expr_guards(e)
    return out
