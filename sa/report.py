"""Findings, rule bookkeeping, known-findings matching, evidence and exit codes."""
import json
import os
import sys
import time
from typing import Any, Dict, List, Optional

from .model import AnalysisError

VERIF = os.path.dirname(os.path.dirname(os.path.abspath(__file__)))
KNOWN_PATH = os.path.join(VERIF, 'known_findings.json')


class Finding:
    def __init__(self, prop, rule, construct, loc, message, witness=None):
        self.prop = prop
        self.rule = rule
        self.construct = construct
        self.loc = loc
        self.message = message
        self.witness = witness

    def as_dict(self):
        return {'property': self.prop, 'rule': self.rule, 'construct': self.construct, 'loc': self.loc,
                'message': self.message, 'witness': self.witness}


class Rule:
    """One rule run: counts instances (obligations), discharged ones, and findings."""

    def __init__(self, ctx: 'Context', rid: str, desc: str, floor: int = 1):
        self.ctx = ctx
        self.rid = rid
        self.desc = desc
        self.floor = floor
        self.instances = 0
        self.discharged = 0
        self.findings: List[Finding] = []
        self.samples: List[str] = []
        self.obligations: List[str] = []

    def ok(self, what: str):
        """an obligation that was checked and holds"""
        self.instances += 1
        self.discharged += 1
        self.obligations.append(what)
        if len(self.samples) < 4:
            self.samples.append(what)

    def fail(self, construct: str, loc: str, message: str, witness: Any = None):
        self.instances += 1
        f = Finding(self.ctx.prop, self.rid, construct, loc, message, witness)
        self.findings.append(f)
        self.obligations.append('FAIL ' + construct)

    def check(self, cond: bool, what: str, construct: str, loc: str, message: str, witness: Any = None):
        if cond:
            self.ok(what)
        else:
            self.fail(construct, loc, message, witness)
        return cond

    def done(self):
        # `floor` = number of instances confirmed by hand on the pinned tree.  A refactoring may legitimately remove some
        # sites (the remaining ones are still checked), so only a collapse to less than half of them is treated as "the
        # rule no longer finds its anchors" - which is an analysis error, never a pass and never a violation.
        if self.instances < max(1, (self.floor + 1) // 2) and not self.findings:
            raise AnalysisError('rule %s went vacuous: %d instances matched, %d were confirmed by hand '
                                'on the pinned tree (%s)' % (self.rid, self.instances, self.floor, self.desc))
        self.ctx.rules.append(self)


class Context:
    def __init__(self, prop: str, program, tier: str):
        self.prop = prop
        self.P = program
        self.tier = tier
        self.rules: List[Rule] = []
        self.notes: List[str] = []
        self.extra: Dict[str, Any] = {}

    def rule(self, rid: str, desc: str, floor: int = 1) -> Rule:
        return Rule(self, rid, desc, floor)

    def findings(self) -> List[Finding]:
        return [f for r in self.rules for f in r.findings]


def load_known() -> Dict[str, Any]:
    if not os.path.exists(KNOWN_PATH):
        return {'findings': [], 'fixed': []}
    with open(KNOWN_PATH) as f:
        return json.load(f)


def match_known(f: Finding, known) -> Optional[dict]:
    for k in known.get('findings', []):
        # `also`: the same defect, reported by the same rule function when it runs under another property (with that rule id)
        if k['construct'] == f.construct and (
                (k['property'] == f.prop and k['rule'] == f.rule) or [f.prop, f.rule] in k.get('also', [])):
            return k
    return None


def write_replay(f: Finding, idx: int) -> str:
    d = os.path.join(VERIF, 'out', 'replay')
    os.makedirs(d, exist_ok=True)
    p = os.path.join(d, '%s-%s-%d.json' % (f.prop, f.rule.replace('.', '_'), idx))
    with open(p, 'w') as fh:
        json.dump(f.as_dict(), fh, indent=1, default=str)
    return p


def write_evidence(prop: str, tier: str, seed: int, level: str, coverage: Dict[str, Any],
                   assumptions: List[str], wall: float, violations: int):
    d = os.path.join(VERIF, 'evidence')
    os.makedirs(d, exist_ok=True)
    ev = {'property_id': prop, 'tier': tier, 'seed': seed, 'level': level, 'coverage': coverage,
          'assumptions': assumptions, 'wall_s': round(wall, 3), 'violations': violations}
    with open(os.path.join(d, prop + '.json'), 'w') as fh:
        json.dump(ev, fh, indent=1, default=str)
        fh.write('\n')
