"""E14 memoisation: cells, memo functions, the obligations that make a cache invisible, and its elimination from the canonical form.

A *memo cell* is storage that outlives a call and is only ever used to remember the result of a computation under a key:

    global    NAME = dict() / {} / WeakKeyDictionary() / OrderedDict()      at module level
    attr      self.ATTR = dict() / ...                                      in __init__
    scalar    self.ATTR = None in __init__,  `if self.ATTR is None: self.ATTR = E`
    lru       a function decorated with functools.lru_cache / functools.cache

and whose every other occurrence in the package is one of  M[K] (read),  M[K] = V (write),  K in M / K not in M,  M.get(K[, D])
(scalar: `M is None` / `M is not None`, read, guarded write).  A value that starts out as an empty container is an accumulator, not a
memo, and is left alone.

A cache of this shape is invisible - the program behaves as if every lookup missed - provided that

    M1  nobody modifies a value that lives in the cache (values handed out are only read, or copied first);
    M3  (same disease, other organ) no parameter default is a mutable object that the function modifies or hands out;
    M2  the remembered value depends on nothing but the key: every input the computation reads (parameters and what is reached
        from them; for a cache that lives on an object also the fields of that object that are set once in __init__) is present
        in the key as such - a key *derived* from an input (a formatted name, a hash) does not count, two inputs can share it.
        lru_cache keys on all arguments and is covered by construction.

`MemoAnalysis` finds the cells on the *raw* syntax trees, decides M1/M3 with a small may-alias taint analysis (values read from a
cell, results of memo functions, and everything reached from them through attributes, items and iteration are "cached objects";
mutator calls, item/attribute stores, `del`, augmented assignment and passing them to a package function that modifies that parameter
are the sinks), and `eliminate()` rewrites the functions as if the cell were empty: tests become constants, the write becomes a
local, later reads become that local, `try: return M[K] except KeyError:` becomes its handler, the lru decorator is dropped.  The
helper that held the cache is then an ordinary helper for step H.
"""
import ast
import copy
from typing import Dict, List, Optional, Set, Tuple

MUTATORS = {'append', 'extend', 'insert', 'remove', 'pop', 'clear', 'sort', 'reverse', 'update', 'setdefault', 'popitem', 'add',
            'discard', 'difference_update', 'intersection_update', 'symmetric_difference_update', 'move_to_end', '__setitem__',
            '__delitem__', 'appendleft', 'popleft'}
_EMPTY_MAPS = {'dict', 'OrderedDict', 'WeakKeyDictionary', 'WeakValueDictionary', 'weakref.WeakKeyDictionary',
               'weakref.WeakValueDictionary', 'collections.OrderedDict'}
_FRESH_CALLS = {'list', 'dict', 'set', 'tuple', 'frozenset', 'sorted', 'OrderedDict', 'copy', 'deepcopy', 'str', 'int', 'float',
                'bool', 'len', 'repr', 'reversed', 'enumerate', 'zip', 'any', 'all', 'isinstance', 'issubclass', 'type', 'hasattr',
                'min', 'max', 'sum'}


def _txt(e: ast.AST) -> str:
    try:
        return ast.unparse(e)
    except Exception:       # pragma: no cover
        return ast.dump(e)


def _dotted(e: ast.AST) -> Optional[str]:
    if isinstance(e, ast.Name):
        return e.id
    if isinstance(e, ast.Attribute):
        b = _dotted(e.value)
        return None if b is None else b + '.' + e.attr
    return None


def _is_empty_map(e: Optional[ast.AST]) -> bool:
    if isinstance(e, ast.Dict) and not e.keys:
        return True
    return isinstance(e, ast.Call) and not e.args and not e.keywords and _dotted(e.func) in _EMPTY_MAPS


def _is_empty_container(e: Optional[ast.AST]) -> bool:
    if isinstance(e, (ast.List, ast.Set)) and not e.elts:
        return True
    if isinstance(e, ast.Dict) and not e.keys:
        return True
    return isinstance(e, ast.Call) and not e.args and not e.keywords and _dotted(e.func) in (
        _EMPTY_MAPS | {'list', 'set', 'collections.deque', 'deque', 'defaultdict', 'collections.defaultdict'})


def _is_mutable_literal(e: Optional[ast.AST]) -> bool:
    if isinstance(e, (ast.List, ast.Set, ast.Dict, ast.ListComp, ast.SetComp, ast.DictComp)):
        return True
    return isinstance(e, ast.Call) and _dotted(e.func) in (_EMPTY_MAPS | {'list', 'set', 'deque', 'collections.deque', 'defaultdict',
                                                                          'collections.defaultdict', 'bytearray'})


def _lru(d: ast.AST) -> bool:
    if isinstance(d, ast.Call):
        d = d.func
    return _dotted(d) in ('functools.lru_cache', 'lru_cache', 'functools.cache', 'cache')


def _parents(tree: ast.AST) -> Dict[int, ast.AST]:
    par = {}
    for n in ast.walk(tree):
        for c in ast.iter_child_nodes(n):
            par[id(c)] = n
    return par


class Cell:
    def __init__(self, kind: str, module: str, cls: Optional[str], name: str, init: Optional[ast.AST]):
        self.kind, self.module, self.cls, self.name, self.init = kind, module, cls, name, init
        self.functions: List[Tuple[str, ast.AST]] = []      # (qualified name, def) of functions that touch it
        self.why_not: Optional[str] = None

    @property
    def label(self) -> str:
        return '%s:%s%s' % (self.module, (self.cls + '.') if self.cls else '', self.name)

    def matches(self, e: ast.AST) -> bool:
        if self.kind == 'global':
            return isinstance(e, ast.Name) and e.id == self.name
        if isinstance(e, ast.Attribute):
            return e.attr == self.name or (self.cls is not None and e.attr == '_%s%s' % (self.cls.lstrip('_'), self.name)
                                           and self.name.startswith('__'))
        return False


class Violation:
    def __init__(self, rule: str, module: str, fn: str, construct: str, line: int, message: str):
        self.rule, self.module, self.fn, self.construct, self.line, self.message = rule, module, fn, construct, line, message


class _FnInfo:
    def __init__(self, module: str, cls: Optional[str], node: ast.AST):
        self.module, self.cls, self.node = module, cls, node
        self.q = '%s:%s%s' % (module, (cls + '.') if cls else '', node.name)
        a = node.args
        self.params = [x.arg for x in a.posonlyargs + a.args]
        self.kwonly = [x.arg for x in a.kwonlyargs]
        self.is_method = cls is not None and not any(isinstance(d, ast.Name) and d.id == 'staticmethod' for d in node.decorator_list)
        self.lru = any(_lru(d) for d in node.decorator_list)
        self.returns_cached = self.lru
        self.mutates: Set[str] = set()
        self.calls: Set[str] = set()


class MemoAnalysis:
    def __init__(self, sources: Dict[str, str]):
        self.trees: Dict[str, ast.Module] = {}
        for name, text in sources.items():
            if name == 'yatiml' or name.startswith('yatiml.'):
                try:
                    self.trees[name] = ast.parse(text)
                except SyntaxError:
                    continue
        self.par = {m: _parents(t) for m, t in self.trees.items()}
        self.fns: Dict[str, _FnInfo] = {}
        self.by_name: Dict[str, List[_FnInfo]] = {}
        self._index_functions()
        self.cells: List[Cell] = []
        self.rejected: List[Cell] = []
        self._find_cells()
        self.violations: List[Violation] = []
        self.obligations: List[str] = []
        self._taint()

    # ---- index -----------------------------------------------------------------------------------------------------------------
    def _index_functions(self):
        for m, t in self.trees.items():
            def walk(body, cls):
                for st in body:
                    if isinstance(st, (ast.FunctionDef, ast.AsyncFunctionDef)):
                        fi = _FnInfo(m, cls, st)
                        self.fns[fi.q] = fi
                        self.by_name.setdefault(st.name, []).append(fi)
                    elif isinstance(st, ast.ClassDef):
                        walk(st.body, st.name)
            walk(t.body, None)

    def _enclosing(self, m: str, n: ast.AST) -> Tuple[Optional[str], Optional[ast.AST]]:
        """(class name, function def) that lexically contain n - the outermost function"""
        par = self.par[m]
        fn, cls = None, None
        cur = par.get(id(n))
        while cur is not None:
            if isinstance(cur, (ast.FunctionDef, ast.AsyncFunctionDef)):
                fn = cur
            elif isinstance(cur, ast.ClassDef):
                cls = cur.name
                break
            cur = par.get(id(cur))
        return cls, fn

    # ---- cells -----------------------------------------------------------------------------------------------------------------
    def _find_cells(self):
        cands: List[Cell] = []
        for m, t in self.trees.items():
            for st in t.body:
                tgt, val = None, None
                if isinstance(st, ast.Assign) and len(st.targets) == 1:
                    tgt, val = st.targets[0], st.value
                elif isinstance(st, ast.AnnAssign):
                    tgt, val = st.target, st.value
                if isinstance(tgt, ast.Name) and _is_empty_map(val):
                    cands.append(Cell('global', m, None, tgt.id, st))
            for c in ast.walk(t):
                if not isinstance(c, ast.ClassDef):
                    continue
                for f in c.body:
                    if isinstance(f, ast.FunctionDef) and f.name == '__init__' and f.args.args:
                        selfn = f.args.args[0].arg
                        for st in f.body:
                            tgt, val = None, None
                            if isinstance(st, ast.Assign) and len(st.targets) == 1:
                                tgt, val = st.targets[0], st.value
                            elif isinstance(st, ast.AnnAssign):
                                tgt, val = st.target, st.value
                            if isinstance(tgt, ast.Attribute) and isinstance(tgt.value, ast.Name) and tgt.value.id == selfn:
                                if _is_empty_map(val):
                                    cands.append(Cell('attr', m, c.name, tgt.attr, st))
                                elif isinstance(val, ast.Constant) and val.value is None:
                                    cands.append(Cell('scalar', m, c.name, tgt.attr, st))
        for cell in cands:
            self._classify(cell)
            (self.cells if cell.why_not is None else self.rejected).append(cell)

    def _occurrences(self, cell: Cell):
        for m, t in self.trees.items():
            for n in ast.walk(t):
                if cell.kind == 'global':
                    if isinstance(n, ast.Name) and n.id == cell.name:
                        if m == cell.module:
                            yield m, n
                    elif isinstance(n, ast.ImportFrom) and any((a.asname or a.name) == cell.name for a in n.names) and \
                            (n.module or '').split('.')[-1] == cell.module.split('.')[-1]:
                        yield m, n
                    elif isinstance(n, ast.Attribute) and n.attr == cell.name and isinstance(n.value, ast.Name) and m != cell.module:
                        yield m, n      # `introspection._cache` from another module
                elif isinstance(n, ast.Attribute) and cell.matches(n):
                    yield m, n

    def _classify(self, cell: Cell):
        stores, guarded, reads = 0, 0, 0
        fns: Dict[int, Tuple[str, ast.AST]] = {}
        for m, n in self._occurrences(cell):
            if not isinstance(n, (ast.Name, ast.Attribute)) or (cell.kind != 'global' and m != cell.module) or \
                    (cell.kind == 'global' and m != cell.module):
                cell.why_not = 'used from another module (%s)' % m
                return
            par = self.par[m]
            p = par.get(id(n))
            cls, fn = self._enclosing(m, n)
            if cell.kind != 'global' and cls != cell.cls:
                cell.why_not = 'the attribute name is also used outside class %s' % cell.cls
                return
            st = n
            while st is not None and not isinstance(st, ast.stmt):
                st = par.get(id(st))
            if st is cell.init:
                continue
            if fn is None:
                cell.why_not = 'used at module or class level'
                return
            fns[id(fn)] = ('%s:%s%s' % (m, (cls + '.') if cls else '', fn.name), fn)
            if cell.kind == 'scalar':
                if isinstance(n.ctx, ast.Store):
                    # only directly under `if <cell> is None:`
                    pst = par.get(id(st))
                    ok = isinstance(st, ast.Assign) and len(st.targets) == 1 and st.targets[0] is n and isinstance(pst, ast.If) \
                        and st in pst.body and self._none_test(cell, pst.test) == 'is'
                    if not ok:
                        cell.why_not = 'written outside `if %s is None:` in %s' % (cell.name, fn.name)
                        return
                    if _is_empty_container(st.value):
                        cell.why_not = 'starts out as an empty container (an accumulator, not a memo)'
                        return
                    stores += 1
                    guarded += 1
                elif isinstance(n.ctx, ast.Del):
                    cell.why_not = 'deleted'
                    return
                else:
                    reads += 1
                continue
            # mapping cells
            if isinstance(p, ast.Subscript) and p.value is n:
                if isinstance(p.ctx, ast.Load):
                    reads += 1
                elif isinstance(p.ctx, ast.Store):
                    pp = par.get(id(p))
                    if not (isinstance(pp, ast.Assign) and len(pp.targets) == 1 and pp.targets[0] is p):
                        cell.why_not = 'written by something other than M[K] = V in %s' % fn.name
                        return
                    if _is_empty_container(pp.value):
                        cell.why_not = 'values start out as empty containers (an accumulator, not a memo)'
                        return
                    stores += 1
                else:
                    cell.why_not = 'entries are deleted in %s' % fn.name
                    return
            elif isinstance(p, ast.Compare) and len(p.ops) == 1 and isinstance(p.ops[0], (ast.In, ast.NotIn)) and p.comparators[0] is n:
                guarded += 1
            elif isinstance(p, ast.Attribute) and p.value is n and p.attr == 'get' and isinstance(par.get(id(p)), ast.Call) \
                    and par[id(p)].func is p and 1 <= len(par[id(p)].args) <= 2 and not par[id(p)].keywords:
                guarded += 1
            else:
                cell.why_not = 'used as a whole (%s) in %s' % (_txt(p)[:50], fn.name)
                return
        if not stores:
            cell.why_not = 'never written'
            return
        if not guarded and not self._try_guarded(cell, fns):
            cell.why_not = 'written without a lookup (a registry, not a memo)'
            return
        cell.functions = list(fns.values())

    def _try_guarded(self, cell: Cell, fns) -> bool:
        for _, fn in fns.values():
            for t in ast.walk(fn):
                if isinstance(t, ast.Try) and any(self._catches_keyerror(h) for h in t.handlers):
                    if any(isinstance(s, ast.Subscript) and cell.matches(s.value) and isinstance(s.ctx, ast.Load)
                           for b in t.body for s in ast.walk(b)):
                        return True
        return False

    @staticmethod
    def _catches_keyerror(h: ast.ExceptHandler) -> bool:
        if h.type is None:
            return True
        ts = h.type.elts if isinstance(h.type, ast.Tuple) else [h.type]
        return any(_dotted(t) in ('KeyError', 'LookupError', 'Exception') for t in ts)

    @staticmethod
    def _none_test(cell: Cell, e: ast.AST) -> Optional[str]:
        if isinstance(e, ast.Compare) and len(e.ops) == 1 and cell.matches(e.left) and isinstance(e.comparators[0], ast.Constant) \
                and e.comparators[0].value is None:
            return 'is' if isinstance(e.ops[0], (ast.Is, ast.Eq)) else 'isnot' if isinstance(e.ops[0], (ast.IsNot, ast.NotEq)) else None
        return None

    # ---- M1 / M3: cached objects are not modified ------------------------------------------------------------------------------
    def _resolve(self, call: ast.Call, fi: _FnInfo) -> List[_FnInfo]:
        f = call.func
        if isinstance(f, ast.Name):
            c = [g for g in self.by_name.get(f.id, []) if g.cls is None]
            same = [g for g in c if g.module == fi.module]
            return same or c
        if isinstance(f, ast.Attribute):
            name = f.attr
            if fi.cls and name.startswith('_%s__' % fi.cls.lstrip('_')):
                name = name[len(fi.cls.lstrip('_')) + 1:]
            c = self.by_name.get(name, [])
            if isinstance(f.value, ast.Name) and f.value.id in ('self', 'cls') and fi.cls:
                same = [g for g in c if g.cls == fi.cls and g.module == fi.module]
                if same:
                    return same
            if name in MUTATORS or name in ('get', 'keys', 'values', 'items', 'copy', 'format', 'join', 'split', 'open', 'close'):
                return []
            return c if len(c) == 1 else []
        return []

    def _cell_read(self, e: ast.AST) -> Optional[Cell]:
        for cell in self.cells:
            if cell.kind == 'scalar':
                if isinstance(e, ast.Attribute) and cell.matches(e) and isinstance(e.ctx, ast.Load):
                    return cell
            else:
                if isinstance(e, ast.Subscript) and cell.matches(e.value) and isinstance(e.ctx, ast.Load):
                    return cell
                if isinstance(e, ast.Call) and isinstance(e.func, ast.Attribute) and e.func.attr == 'get' and cell.matches(e.func.value):
                    return cell
        return None

    def _taint(self):
        # which parameters does a function modify (directly or by handing them on)?  fixpoint, then the real run
        for _ in range(4):
            changed = False
            for fi in self.fns.values():
                for p in fi.params + fi.kwonly:
                    if p in fi.mutates:
                        continue
                    hits: List = []
                    self._run(fi, {p: 'parameter %s' % p}, hits, sources=False)
                    if hits:
                        fi.mutates.add(p)
                        changed = True
            if not changed:
                break
        for _ in range(4):
            changed = False
            for fi in self.fns.values():
                if fi.returns_cached:
                    continue
                hits: List = []
                if self._run(fi, {}, hits, sources=True, want_return=True):
                    fi.returns_cached = True
                    changed = True
            if not changed:
                break
        seen = set()
        for fi in self.fns.values():
            hits: List = []
            self._run(fi, {}, hits, sources=True)
            for line, construct, why in hits:
                key = (fi.q, construct)
                if key in seen:
                    continue
                seen.add(key)
                self.violations.append(Violation('M1', fi.module, fi.q, construct, line,
                                                 'a cached object is modified: %s (%s)' % (construct, why)))
            # M3
            a = fi.node.args
            pos = a.posonlyargs + a.args
            for prm, d in list(zip(pos[len(pos) - len(a.defaults):], a.defaults)) + [
                    (k, d) for k, d in zip(a.kwonlyargs, a.kw_defaults) if d is not None]:
                if _is_mutable_literal(d):
                    hits = []
                    ret = self._run(fi, {prm.arg: 'default of %s' % prm.arg}, hits, sources=False, want_return=True)
                    if hits or ret:
                        what = hits[0][1] if hits else 'handed out by return'
                        self.violations.append(Violation(
                            'M3', fi.module, fi.q, 'default:%s=%s' % (prm.arg, _txt(d)), d.lineno,
                            'the default of parameter %s is one mutable object made when the function is defined, and the function '
                            'modifies it or hands it out (%s): what one call leaves in it, the next call finds' % (prm.arg, what)))
                    else:
                        self.obligations.append('%s: mutable default %s=%s is only read' % (fi.q, prm.arg, _txt(d)))
        for cell in self.cells:
            self.obligations.append('memo cell %s (%s): every use is a lookup, a guarded write or a read; values handed out are '
                                    'not modified' % (cell.label, cell.kind))
            self._m2(cell)
        for fi in self.fns.values():
            if fi.lru:
                self.obligations.append('memo function %s (lru_cache): results are not modified by any caller' % fi.q)

    def _run(self, fi: _FnInfo, env0: Dict[str, str], hits: List, sources: bool, want_return: bool = False) -> bool:
        """abstractly run the body; env maps tainted local names to the reason; returns whether a tainted value is returned"""
        A = self
        returned = [False]

        def tainted(e: ast.AST, env) -> Optional[str]:
            if isinstance(e, ast.Name):
                return env.get(e.id)
            if sources:
                c = A._cell_read(e)
                if c is not None:
                    return 'read from the cache %s' % c.label
            if isinstance(e, ast.Attribute):
                return tainted(e.value, env)
            if isinstance(e, ast.Subscript):
                if isinstance(e.slice, ast.Slice):
                    return None
                return tainted(e.value, env)
            if isinstance(e, ast.IfExp):
                return tainted(e.body, env) or tainted(e.orelse, env)
            if isinstance(e, ast.BoolOp):
                for v in e.values:
                    t = tainted(v, env)
                    if t:
                        return t
                return None
            if isinstance(e, ast.NamedExpr):
                return tainted(e.value, env)
            if isinstance(e, ast.Starred):
                return tainted(e.value, env)
            if isinstance(e, ast.Call):
                nm = _dotted(e.func)
                if nm in ('cast', 'typing.cast') and len(e.args) == 2:
                    return tainted(e.args[1], env)
                if nm is not None and nm.split('.')[-1] in _FRESH_CALLS:
                    return None
                if sources:
                    for g in A._resolve(e, fi):
                        if g.returns_cached:
                            return 'result of the memo function %s' % g.q
                if isinstance(e.func, ast.Attribute) and e.func.attr in ('get', '__getitem__') and not _dotted(e.func) in ('os.environ.get',):
                    return tainted(e.func.value, env)
            return None

        def sink_expr(e: Optional[ast.AST], env):
            if e is None:
                return
            for c in ast.walk(e):
                if not isinstance(c, ast.Call):
                    continue
                f = c.func
                if isinstance(f, ast.Attribute) and f.attr in MUTATORS:
                    t = tainted(f.value, env)
                    if t:
                        hits.append((c.lineno, '%s.%s()' % (_txt(f.value), f.attr), t))
                for g in A._resolve(c, fi):
                    params = g.params[1:] if (g.is_method and isinstance(f, ast.Attribute)) else g.params
                    for i, a in enumerate(c.args):
                        if i < len(params) and params[i] in g.mutates:
                            t = tainted(a, env)
                            if t:
                                hits.append((c.lineno, '%s(%s) modifies its parameter %s' % (g.node.name, _txt(a), params[i]), t))
                    for k in c.keywords:
                        if k.arg in g.mutates:
                            t = tainted(k.value, env)
                            if t:
                                hits.append((c.lineno, '%s(%s=%s) modifies its parameter' % (g.node.name, k.arg, _txt(k.value)), t))

        def assign_target(t: ast.AST, reason: Optional[str], env, line):
            if isinstance(t, ast.Name):
                if reason:
                    env[t.id] = reason
                else:
                    env.pop(t.id, None)
            elif isinstance(t, (ast.Tuple, ast.List)):
                for x in t.elts:
                    assign_target(x, reason, env, line)
            elif isinstance(t, ast.Starred):
                assign_target(t.value, reason, env, line)
            elif isinstance(t, (ast.Subscript, ast.Attribute)):
                # a store INTO something: is that something cached?  (the cell itself is M, not a cached value)
                if sources and any(c.matches(t.value) for c in A.cells if c.kind != 'scalar') and isinstance(t, ast.Subscript):
                    return
                if sources and isinstance(t, ast.Attribute) and any(c.kind == 'scalar' and c.matches(t) for c in A.cells):
                    return
                why = tainted(t.value, env)
                if why:
                    hits.append((line, '%s = …' % _txt(t), why))

        def block(stmts, env) -> Dict[str, str]:
            for s in stmts:
                env = stmt(s, env)
            return env

        def join(a, b):
            out = dict(a)
            for k, v in b.items():
                out.setdefault(k, v)
            return out

        def stmt(s, env):
            if isinstance(s, (ast.FunctionDef, ast.AsyncFunctionDef, ast.ClassDef)):
                return env
            if isinstance(s, ast.Assign):
                sink_expr(s.value, env)
                why = tainted(s.value, env)
                env = dict(env)
                for t in s.targets:
                    assign_target(t, why, env, s.lineno)
                    # M[K] = v: v IS the cached object from here on
                    # (a display stored in the cell - `M[K] = (tag, v)` - makes its elements cached objects just the same)
                    stored_names = [s.value] if isinstance(s.value, ast.Name) else (
                        [x for x in s.value.elts if isinstance(x, ast.Name)] if isinstance(s.value, (ast.Tuple, ast.List)) else [])
                    if sources and isinstance(t, ast.Subscript) and any(c.matches(t.value) for c in A.cells if c.kind != 'scalar'):
                        for x in stored_names:
                            env[x.id] = 'stored in the cache %s' % _txt(t.value)
                    if sources and isinstance(t, ast.Attribute) and any(c.kind == 'scalar' and c.matches(t) for c in A.cells):
                        for x in stored_names:
                            env[x.id] = 'stored in the cache %s' % _txt(t)
                return env
            if isinstance(s, ast.AnnAssign):
                if s.value is None:
                    return env
                sink_expr(s.value, env)
                env = dict(env)
                assign_target(s.target, tainted(s.value, env), env, s.lineno)
                return env
            if isinstance(s, ast.AugAssign):
                sink_expr(s.value, env)
                why = tainted(s.target, env)
                if why and not isinstance(s.op, (ast.Add,)) or (why and isinstance(s.op, ast.Add) and not isinstance(s.value, ast.Constant)):
                    hits.append((s.lineno, '%s %s= …' % (_txt(s.target), type(s.op).__name__), why))
                return env
            if isinstance(s, ast.Delete):
                for t in s.targets:
                    if isinstance(t, (ast.Subscript, ast.Attribute)):
                        why = tainted(t.value, env)
                        if why:
                            hits.append((s.lineno, 'del %s' % _txt(t), why))
                return env
            if isinstance(s, ast.Return):
                sink_expr(s.value, env)
                if s.value is not None and tainted(s.value, env):
                    returned[0] = True
                return env
            if isinstance(s, ast.Expr):
                sink_expr(s.value, env)
                if isinstance(s.value, (ast.Yield,)) and s.value.value is not None and tainted(s.value.value, env):
                    returned[0] = returned[0]       # elements of a generator: not tracked
                return env
            if isinstance(s, ast.If):
                sink_expr(s.test, env)
                return join(block(s.body, dict(env)), block(s.orelse, dict(env)))
            if isinstance(s, (ast.For, ast.AsyncFor)):
                sink_expr(s.iter, env)
                why = tainted(s.iter, env)
                e1 = dict(env)
                assign_target(s.target, why, e1, s.lineno)
                e2 = block(s.body, e1)
                e2 = block(s.body, join(e1, e2))
                return join(env, block(s.orelse, join(e1, e2)))
            if isinstance(s, ast.While):
                sink_expr(s.test, env)
                e2 = block(s.body, dict(env))
                e2 = block(s.body, join(env, e2))
                return join(env, block(s.orelse, join(env, e2)))
            if isinstance(s, (ast.With, ast.AsyncWith)):
                env = dict(env)
                for it in s.items:
                    sink_expr(it.context_expr, env)
                    if it.optional_vars is not None:
                        assign_target(it.optional_vars, None, env, s.lineno)
                return block(s.body, env)
            if isinstance(s, ast.Try):
                e1 = block(s.body, dict(env))
                out = block(s.orelse, dict(e1))
                for h in s.handlers:
                    out = join(out, block(h.body, join(env, e1)))
                return block(s.finalbody, out)
            if isinstance(s, ast.Raise):
                sink_expr(s.exc, env)
                return env
            if isinstance(s, ast.Assert):
                sink_expr(s.test, env)
                return env
            return env

        block(fi.node.body, dict(env0))
        return returned[0]

    # ---- M2: the key covers what the value depends on ---------------------------------------------------------------------------
    def _m2(self, cell: Cell):
        if cell.kind == 'scalar':
            # one value per object: it may depend on the object's set-once fields and on nothing that varies from call to call
            key_terms: Set[str] = set()
        for q, fn in cell.functions:
            fi = self.fns.get(q)
            if fi is None:
                continue
            params = set(fi.params + fi.kwonly)
            selfn = fi.params[0] if fi.is_method and fi.params else None
            for st in ast.walk(fn):
                if not (isinstance(st, ast.Assign) and len(st.targets) == 1):
                    continue
                t = st.targets[0]
                if cell.kind == 'scalar':
                    if not (isinstance(t, ast.Attribute) and cell.matches(t)):
                        continue
                    kterms: Set[str] = set()
                elif isinstance(t, ast.Subscript) and cell.matches(t.value):
                    kterms = self._key_terms(fn, t.slice, params)
                else:
                    continue
                deps = self._deps(fn, st.value, params, set())
                pinned = self._pinned(fn, st, params)
                frozen = self._set_once_fields(cell, selfn) if cell.kind != 'global' else set()
                missing = []
                for d in sorted(deps):
                    root = d.split('.')[0].split('(')[-1].rstrip(')')
                    if root in pinned:
                        continue
                    if selfn is not None and (d == selfn or d.startswith(selfn + '.')):
                        if cell.kind == 'global':
                            missing.append(d)
                        elif d == selfn or d.split('.')[1] not in frozen:
                            # calling the object's own methods / reading the object as a whole: its set-once state
                            if d != selfn:
                                missing.append(d)
                        continue
                    if any(d == k or d.startswith(k + '.') or d.startswith('type(%s)' % k) for k in kterms):
                        continue
                    if d.startswith('type(') and cell.kind != 'global' and cell.module == 'yatiml.representers':
                        # a representer object is registered for exactly one class (add_representer(cls, R(cls)), decided by
                        # R05.2) and PyYAML dispatches on the exact type: the type of the object it is called with is that class
                        continue
                    missing.append(d)
                what = '%s[%s]' % (cell.name, _txt(t.slice)) if cell.kind != 'scalar' else cell.name
                if missing:
                    self.violations.append(Violation(
                        'M2', cell.module, q, 'key:%s:misses:%s' % (cell.name, ','.join(missing)[:80]), st.lineno,
                        'the value remembered in %s depends on %s, which the key (%s) does not contain as such: two lookups that differ '
                        'only there share one entry, and the second gets the answer computed for the first'
                        % (what, ', '.join(missing), ', '.join(sorted(kterms)) or 'nothing')))
                else:
                    self.obligations.append('%s: the value stored in %s depends only on %s - all in the key' % (
                        q, what, ', '.join(sorted(deps)) or 'constants'))

    def _set_once_fields(self, cell: Cell, selfn: Optional[str]) -> Set[str]:
        out, elsewhere = set(), set()
        tree = self.trees[cell.module]
        for c in ast.walk(tree):
            if isinstance(c, ast.ClassDef) and c.name == cell.cls:
                for f in c.body:
                    if isinstance(f, ast.FunctionDef):
                        for n in ast.walk(f):
                            if isinstance(n, ast.Attribute) and isinstance(n.ctx, (ast.Store, ast.Del)) and isinstance(n.value, ast.Name) \
                                    and f.args.args and n.value.id == f.args.args[0].arg:
                                (out if f.name == '__init__' else elsewhere).add(n.attr)
        return {a for a in out if a not in elsewhere} | {a.replace('_%s' % (cell.cls or '').lstrip('_'), '', 1) for a in out if a not in elsewhere}

    def _chain(self, e: ast.AST) -> Optional[str]:
        """`p`, `p.a.b`, `type(p)`, and `p.__init__` / `p.__class__` (which only depend on the type of p)"""
        if isinstance(e, ast.Name):
            return e.id
        if isinstance(e, ast.Attribute):
            b = self._chain(e.value)
            if b is None:
                return None
            if e.attr in ('__init__', '__class__') and not b.startswith('type('):
                return 'type(%s)' % b if e.attr == '__class__' else 'type(%s).__init__' % b
            return b + '.' + e.attr
        if isinstance(e, ast.Call) and isinstance(e.func, ast.Name) and e.func.id == 'type' and len(e.args) == 1 and not e.keywords:
            b = self._chain(e.args[0])
            return None if b is None else 'type(%s)' % b
        return None

    def _local_defs(self, fn: ast.AST, name: str) -> List[ast.AST]:
        """expressions a local's value is made of: right-hand sides, iterables it is drawn from, things put into it"""
        out = []
        for n in ast.walk(fn):
            if isinstance(n, ast.Assign):
                for t in n.targets:
                    if any(isinstance(x, ast.Name) and x.id == name and isinstance(x.ctx, ast.Store) for x in ast.walk(t) if not isinstance(x, ast.Subscript)):
                        out.append(n.value)
                    if isinstance(t, ast.Subscript) and isinstance(t.value, ast.Name) and t.value.id == name:
                        out += [t.slice, n.value]
            elif isinstance(n, (ast.AnnAssign, ast.AugAssign, ast.NamedExpr)) and isinstance(n.target, ast.Name) and n.target.id == name and n.value is not None:
                out.append(n.value)
            elif isinstance(n, (ast.For, ast.comprehension)) and any(isinstance(x, ast.Name) and x.id == name for x in ast.walk(n.target)):
                out.append(n.iter)
            elif isinstance(n, ast.With):
                for it in n.items:
                    if it.optional_vars is not None and any(isinstance(x, ast.Name) and x.id == name for x in ast.walk(it.optional_vars)):
                        out.append(it.context_expr)
            elif isinstance(n, ast.Call) and isinstance(n.func, ast.Attribute) and n.func.attr in MUTATORS and isinstance(n.func.value, ast.Name) \
                    and n.func.value.id == name:
                out += list(n.args) + [k.value for k in n.keywords]
        return out

    def _deps(self, fn: ast.AST, e: ast.AST, params: Set[str], seen: Set[str]) -> Set[str]:
        out: Set[str] = set()
        locals_ = {n.id for n in ast.walk(fn) if isinstance(n, ast.Name) and isinstance(n.ctx, ast.Store)}

        def visit(x):
            c = self._chain(x)
            if c is not None:
                root = c.split('.')[0]
                root = root[5:].split(')')[0] if root.startswith('type(') else root
                root = root.split('.')[0]
                if root in params and root not in locals_ - params:
                    out.add(c)
                    return
                if root in locals_:
                    if root not in seen:
                        seen.add(root)
                        for d in self._local_defs(fn, root):
                            out.update(self._deps(fn, d, params, seen))
                    return
                return          # a global, a module, a builtin: program text
            if isinstance(x, ast.Call) and isinstance(x.func, ast.Attribute) and self._chain(x.func) is not None:
                # a method call on a chain: depends on the receiver (as far as it is an input) and on the arguments
                visit(x.func.value)
                for a in list(x.args) + [k.value for k in x.keywords]:
                    visit(a)
                return
            if isinstance(x, (ast.Lambda, ast.FunctionDef)):
                return
            for ch in ast.iter_child_nodes(x):
                if isinstance(ch, (ast.expr, ast.comprehension, ast.keyword)):
                    visit(ch)
        visit(e)
        return out

    def _key_terms(self, fn: ast.AST, k: ast.AST, params: Set[str]) -> Set[str]:
        """inputs that are present in the key as such (elements of a tuple key, through single-definition locals)"""
        terms: Set[str] = set()
        locals_ = {n.id for n in ast.walk(fn) if isinstance(n, ast.Name) and isinstance(n.ctx, ast.Store)}

        def visit(x, depth=0):
            if isinstance(x, ast.Tuple):
                for el in x.elts:
                    visit(el, depth)
                return
            c = self._chain(x)
            if c is None:
                return          # a derived key (formatted, hashed, computed): carries none of its inputs as such
            root = c.split('.')[0]
            root = root[5:].split(')')[0] if root.startswith('type(') else root
            root = root.split('.')[0]
            if root in locals_ and root not in params:
                defs = self._local_defs(fn, root)
                if len(defs) == 1 and depth < 4 and isinstance(x, ast.Name):
                    visit(defs[0], depth + 1)
                return
            terms.add(c)
        visit(k)
        return terms

    def _pinned(self, fn: ast.AST, st: ast.AST, params: Set[str]) -> Set[str]:
        """parameters that a dominating test has fixed to one program constant on the way to `st`"""
        out: Set[str] = set()
        par = {}
        for n in ast.walk(fn):
            for ch in ast.iter_child_nodes(n):
                par[id(ch)] = n

        def const(x):
            return isinstance(x, ast.Constant) or (self._chain(x) is not None and self._chain(x).split('.')[0] not in params
                                                  and not any(isinstance(y, ast.Name) and isinstance(y.ctx, ast.Store) and y.id == self._chain(x).split('.')[0]
                                                              for y in ast.walk(fn)))

        def fixed(test, truth):
            if isinstance(test, ast.Compare) and len(test.ops) == 1 and isinstance(test.left, ast.Name) and test.left.id in params and const(test.comparators[0]):
                if isinstance(test.ops[0], (ast.Is, ast.Eq)) and truth:
                    return test.left.id
                if isinstance(test.ops[0], (ast.IsNot, ast.NotEq)) and not truth:
                    return test.left.id
            return None
        # enclosing ifs
        cur, child = par.get(id(st)), st
        while cur is not None:
            if isinstance(cur, ast.If):
                p_ = fixed(cur.test, any(child is x for x in cur.body))
                if p_:
                    out.add(p_)
            # earlier siblings that leave when the parameter is something else
            for fld in ('body', 'orelse', 'finalbody'):
                blk = getattr(cur, fld, None)
                if isinstance(blk, list) and any(child is x for x in blk):
                    for sib in blk[:[i for i, x in enumerate(blk) if x is child][0]]:
                        if isinstance(sib, ast.If) and sib.body and isinstance(sib.body[-1], (ast.Return, ast.Raise, ast.Continue)) and not sib.orelse:
                            p_ = fixed(sib.test, False)
                            if p_:
                                out.add(p_)
            child, cur = cur, par.get(id(cur))
        return out

    # ---- scope: which functions (transitively) use a construct ------------------------------------------------------------------
    def callers_closure(self, q: str) -> Set[str]:
        """qualified names of q and of every function that transitively calls it (name-based resolution)"""
        if not hasattr(self, '_callers'):
            callers: Dict[str, Set[str]] = {}
            for fi in self.fns.values():
                for c in ast.walk(fi.node):
                    if isinstance(c, ast.Call):
                        for g in self._resolve(c, fi):
                            callers.setdefault(g.q, set()).add(fi.q)
            self._callers = callers
        out, todo = {q}, [q]
        while todo:
            x = todo.pop()
            for y in self._callers.get(x, ()):
                if y not in out:
                    out.add(y)
                    todo.append(y)
        return out


# =============================================================================================================================
# elimination
# =============================================================================================================================
class MemoFail(Exception):
    pass


class _Elim:
    def __init__(self, cell: Cell, fn: ast.AST, idx: int):
        self.cell, self.fn, self.idx = cell, fn, idx
        self.keys: Dict[str, str] = {}      # key text -> temp name

    def temp(self, ktext: str) -> str:
        if ktext not in self.keys:
            self.keys[ktext] = '_memo%d_%s%s' % (self.idx, self.cell.name.strip('_'), '' if not self.keys else '_%d' % len(self.keys))
        return self.keys[ktext]

    # expression level ---------------------------------------------------------------------------------------------------------
    def expr(self, e: ast.AST, stored: Dict[str, str]) -> ast.AST:
        E = self
        cell = self.cell

        class T(ast.NodeTransformer):
            def visit_Lambda(self, n):
                if any(cell.matches(x) for x in ast.walk(n)):
                    raise MemoFail('cell used inside a lambda')
                return n

            def visit_Compare(self, n):
                if cell.kind == 'scalar':
                    k = MemoAnalysis._none_test(cell, n)
                    if k is not None:
                        has = '' in stored
                        return ast.copy_location(ast.Constant((not has) if k == 'is' else has), n)
                elif len(n.ops) == 1 and isinstance(n.ops[0], (ast.In, ast.NotIn)) and cell.matches(n.comparators[0]):
                    has = _txt(n.left) in stored
                    return ast.copy_location(ast.Constant(has if isinstance(n.ops[0], ast.In) else not has), n)
                return self.generic_visit(n)

            def visit_Subscript(self, n):
                if cell.kind != 'scalar' and cell.matches(n.value):
                    if not isinstance(n.ctx, ast.Load):
                        raise MemoFail('unexpected write')
                    k = _txt(n.slice)
                    if k in stored:
                        return ast.copy_location(ast.Name(stored[k], ast.Load()), n)
                    raise MemoFail('read of %s[%s] before it is written' % (cell.name, k))
                return self.generic_visit(n)

            def visit_Call(self, n):
                if cell.kind != 'scalar' and isinstance(n.func, ast.Attribute) and n.func.attr == 'get' and cell.matches(n.func.value):
                    k = _txt(n.args[0])
                    if k in stored:
                        return ast.copy_location(ast.Name(stored[k], ast.Load()), n)
                    return ast.copy_location(self.visit(n.args[1]) if len(n.args) == 2 else ast.Constant(None), n)
                return self.generic_visit(n)

            def visit_Attribute(self, n):
                if cell.kind == 'scalar' and cell.matches(n):
                    if not isinstance(n.ctx, ast.Load):
                        raise MemoFail('unexpected write')
                    if '' in stored:
                        return ast.copy_location(ast.Name(stored[''], ast.Load()), n)
                    return ast.copy_location(ast.Constant(None), n)
                return self.generic_visit(n)

            def visit_Name(self, n):
                if cell.kind == 'global' and cell.matches(n):
                    raise MemoFail('cell used as a whole')
                return n
        return T().visit(e)

    # statement level ----------------------------------------------------------------------------------------------------------
    def _mentions(self, n: ast.AST) -> bool:
        return any(self.cell.matches(x) for x in ast.walk(n) if isinstance(x, (ast.Name, ast.Attribute)))

    @staticmethod
    def _assigned_names(stmts) -> Set[str]:
        out = set()
        for s in stmts:
            for n in ast.walk(s):
                if isinstance(n, ast.Name) and isinstance(n.ctx, (ast.Store, ast.Del)):
                    out.add(n.id)
        return out

    def _kill(self, stored: Dict[str, str], names: Set[str]):
        for k in list(stored):
            if k and any(isinstance(n, ast.Name) and n.id in names for n in ast.walk(ast.parse(k, mode='eval'))):
                del stored[k]

    def block(self, stmts: List[ast.stmt], stored: Dict[str, str]) -> List[ast.stmt]:
        out: List[ast.stmt] = []
        for s in stmts:
            out += self.stmt(s, stored)
        return out or [ast.Pass()]

    def stmt(self, s: ast.stmt, stored: Dict[str, str]) -> List[ast.stmt]:
        cell = self.cell
        if not self._mentions(s):
            self._kill(stored, self._assigned_names([s]))
            return [s]
        if isinstance(s, (ast.FunctionDef, ast.AsyncFunctionDef, ast.ClassDef)):
            raise MemoFail('cell used in a nested definition')
        if isinstance(s, ast.Assign) and len(s.targets) == 1:
            t = s.targets[0]
            if cell.kind == 'scalar' and isinstance(t, ast.Attribute) and cell.matches(t):
                v = self.expr(s.value, stored)
                stored[''] = self.temp('')
                return [ast.copy_location(ast.Assign([ast.Name(stored[''], ast.Store())], v), s)]
            if cell.kind != 'scalar' and isinstance(t, ast.Subscript) and cell.matches(t.value):
                v = self.expr(s.value, stored)
                k = _txt(t.slice)
                if any(cell.matches(x) for x in ast.walk(t.slice)):
                    raise MemoFail('key mentions the cell')
                stored[k] = self.temp(k)
                return [ast.copy_location(ast.Assign([ast.Name(stored[k], ast.Store())], v), s)]
        if isinstance(s, ast.If):
            test = self.expr(s.test, stored)
            test = _fold_bool(test)
            if isinstance(test, ast.Constant):
                taken = s.body if test.value else s.orelse
                return self.block(taken, stored) if taken else []
            s.test = test
            a, b = dict(stored), dict(stored)
            s.body = self.block(s.body, a)
            s.orelse = self.block(s.orelse, b) if s.orelse else []
            for k in list(stored):
                if k not in a or k not in b:
                    del stored[k]
            for k in a:
                if k in b and k not in stored:
                    stored[k] = a[k]
            return [s]
        if isinstance(s, ast.Try):
            # `try: <first thing evaluated is a read that misses> except KeyError: H`  ->  H
            if cell.kind != 'scalar' and s.body and self._mentions(s.body[0]):
                first = s.body[0]
                reads = [x for x in ast.walk(first) if isinstance(x, ast.Subscript) and cell.matches(x.value)]
                if reads and all(_txt(r.slice) not in stored for r in reads):
                    hs = [h for h in s.handlers if MemoAnalysis._catches_keyerror(h)]
                    if not hs or isinstance(first, (ast.If, ast.For, ast.While, ast.With, ast.Try)):
                        raise MemoFail('a lookup that misses is not caught')
                    # nothing with an effect may run before the miss
                    val = first.value if isinstance(first, (ast.Return, ast.Assign, ast.Expr, ast.AnnAssign)) else None
                    if val is None or any(isinstance(c, ast.Call) for c in ast.walk(val)
                                          if not (isinstance(c, ast.Call) and _dotted(c.func) in ('list', 'dict', 'tuple', 'set'))):
                        raise MemoFail('calls before the lookup')
                    if hs[0].name:
                        raise MemoFail('the KeyError is used')
                    return self.block(hs[0].body, stored) + (self.block(s.finalbody, stored) if s.finalbody else [])
            pre = dict(stored)
            s.body = self.block(s.body, stored)
            outs = [dict(stored)]
            if s.orelse:
                s.orelse = self.block(s.orelse, stored)
                outs = [dict(stored)]
            for h in s.handlers:
                hs_ = dict(pre)
                self._kill(hs_, self._assigned_names(s.body))
                h.body = self.block(h.body, hs_)
                outs.append(hs_)
            stored.clear()
            for k in outs[0]:
                if all(k in o for o in outs):
                    stored[k] = outs[0][k]
            if s.finalbody:
                s.finalbody = self.block(s.finalbody, stored)
            return [s]
        if isinstance(s, (ast.For, ast.AsyncFor, ast.While)):
            if isinstance(s, ast.While):
                s.test = self.expr(s.test, {k: v for k, v in stored.items() if False})
            else:
                s.iter = self.expr(s.iter, stored)
            inner = dict(stored)
            assigned = self._assigned_names(s.body) | ({n.id for n in ast.walk(s.target) if isinstance(n, ast.Name)}
                                                       if not isinstance(s, ast.While) else set())
            self._kill(inner, assigned)
            # what an iteration writes is not known at the start of the next one
            entry = dict(inner)
            s.body = self.block(s.body, inner)
            stored.clear()
            stored.update(entry)
            if s.orelse:
                s.orelse = self.block(s.orelse, stored)
            return [s]
        if isinstance(s, (ast.With, ast.AsyncWith)):
            for it in s.items:
                it.context_expr = self.expr(it.context_expr, stored)
            s.body = self.block(s.body, stored)
            return [s]
        # simple statements: rewrite the expressions
        for name, value in list(ast.iter_fields(s)):
            if isinstance(value, ast.expr):
                setattr(s, name, self.expr(value, stored))
            elif isinstance(value, list) and value and isinstance(value[0], ast.expr):
                setattr(s, name, [self.expr(v, stored) for v in value])
        self._kill(stored, self._assigned_names([s]))
        return [s]


def _fold_bool(e: ast.AST) -> ast.AST:
    if isinstance(e, ast.UnaryOp) and isinstance(e.op, ast.Not):
        v = _fold_bool(e.operand)
        if isinstance(v, ast.Constant) and isinstance(v.value, bool):
            return ast.copy_location(ast.Constant(not v.value), e)
        e.operand = v
        return e
    if isinstance(e, ast.BoolOp):
        vals = [_fold_bool(v) for v in e.values]
        is_and = isinstance(e.op, ast.And)
        out = []
        for v in vals:
            if isinstance(v, ast.Constant) and isinstance(v.value, bool):
                if v.value == is_and:
                    continue            # neutral element
                if not out:
                    return ast.copy_location(ast.Constant(v.value), e)
                out.append(v)           # absorbing element after operands with possible effects: keep
                break
            out.append(v)
        if not out:
            return ast.copy_location(ast.Constant(is_and), e)
        if len(out) == 1:
            return out[0]
        e.values = out
        return e
    return e


def eliminate(trees: Dict[str, ast.Module], sources: Dict[str, str]) -> Tuple[Dict[str, List[str]], Optional[MemoAnalysis]]:
    """rewrite `trees` in place as if every memo cell were empty; returns the per-module log and the analysis"""
    logs: Dict[str, List[str]] = {}
    try:
        ana = MemoAnalysis(sources)
    except Exception as e:      # pragma: no cover
        return {'yatiml': ['memo analysis skipped (%r)' % (e,)]}, None
    idx = 0
    # the analysis ran on its own parse of the same text: find the corresponding nodes in `trees` by position
    for cell in ana.cells:
        idx += 1
        tree = trees.get(cell.module)
        if tree is None:
            continue
        targets = []
        for q, fn in cell.functions:
            twin = _find_def(tree, fn)
            if twin is None:
                targets = None
                break
            targets.append((q, twin))
        log = logs.setdefault(cell.module, [])
        if targets is None:
            log.append('memo cell %s: functions not found in the working tree, left alone' % cell.label)
            continue
        try:
            new_bodies = []
            for q, fn in targets:
                work = copy.deepcopy(fn)
                el = _Elim(cell, work, idx)
                body = el.block(work.body, {})
                if any(cell.matches(x) for st in body for x in ast.walk(st) if isinstance(x, (ast.Name, ast.Attribute))):
                    raise MemoFail('uses left over in %s' % q)
                new_bodies.append((fn, body))
        except MemoFail as e:
            log.append('memo cell %s: not eliminated (%s)' % (cell.label, e))
            continue
        for fn, body in new_bodies:
            fn.body = body
        init = _find_stmt(tree, cell.init)
        if init is not None:
            _remove_stmt(tree, init)
        log.append('memo cell %s (%s) eliminated in %s' % (cell.label, cell.kind, ', '.join(q.split(':')[1] for q, _ in targets)))
    for m, tree in trees.items():
        for n in ast.walk(tree):
            if isinstance(n, (ast.FunctionDef, ast.AsyncFunctionDef)) and any(_lru(d) for d in n.decorator_list):
                n.decorator_list = [d for d in n.decorator_list if not _lru(d)]
                logs.setdefault(m, []).append('memo function %s: lru_cache dropped' % n.name)
    for tree in trees.values():
        ast.fix_missing_locations(tree)
    return logs, ana


def _find_def(tree: ast.Module, fn: ast.AST):
    for n in ast.walk(tree):
        if isinstance(n, type(fn)) and n.name == fn.name and getattr(n, 'lineno', None) == fn.lineno:
            return n
    return None


def _find_stmt(tree: ast.Module, st: ast.AST):
    for n in ast.walk(tree):
        if isinstance(n, type(st)) and getattr(n, 'lineno', None) == st.lineno and getattr(n, 'col_offset', None) == st.col_offset:
            return n
    return None


def _remove_stmt(tree: ast.Module, st: ast.stmt):
    for n in ast.walk(tree):
        for fld in ('body', 'orelse', 'finalbody'):
            v = getattr(n, fld, None)
            if isinstance(v, list) and st in v:
                v.remove(st)
                if not v and fld == 'body':
                    v.append(ast.Pass())
                return
